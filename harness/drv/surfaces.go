package drv

import (
	"bytes"
	"encoding/json"
	"errors"
	"fmt"
	"os"
	"os/exec"
	"path/filepath"
	"sort"
	"strconv"
	"strings"
	"sync"
	"time"
)

// Driver "surfaces" (C13): every scenario of spec/Surfaces.tla is a short sequence of classed
// elements a remote peer sends to one of lal's network surfaces.  The parent process only
// schedules: scenarios are executed in CHILD processes (batches; one scenario at a time per child)
// against the real lal objects, because nothing in lal recovers a panic on these paths - a crash
// is the death of the child, which the parent attributes to the scenario in flight (BEGIN marker
// without END), confirms by re-running that scenario alone, and reports as an observation
// (`died`, panic kind, innermost lal frame).  The driver decides nothing: spec/Trace_Surfaces.tla
// does (died = FALSE, panic = FALSE, second session served, per-step expectations).

type sfScenario struct {
	Sc    int               `json:"sc"`
	Surf  string            `json:"surf"`
	Cfg   map[string]string `json:"cfg"`
	Steps []json.RawMessage `json:"steps"`
}

func init() { Registry["surfaces"] = surfacesDriver }

const sfScenarioTimeoutSec = 40

func sfWorkers() int {
	if v, err := strconv.Atoi(os.Getenv("VERIF_WORKERS")); err == nil && v > 0 {
		return v
	}
	return 4
}

// sfChildRun executes the scenarios of file `in` sequentially; for each it writes a begin line at
// once and the recorded events in one write when the scenario is over.
func sfChildRun(env *Env) error {
	fp, err := os.OpenFile(env.Out, os.O_CREATE|os.O_WRONLY|os.O_TRUNC, 0644)
	if err != nil {
		return err
	}
	defer fp.Close()
	devnull, _ := os.OpenFile(os.DevNull, os.O_WRONLY, 0)
	if os.Getenv("LALVERIF_SF_LOG") == "" {
		os.Stdout = devnull // lal logs to stdout; stderr is kept for the crash dump
	}
	ce := newSfEnv(filepath.Dir(env.Out))
	defer ce.cleanup()
	err = ReadScenarios(env.In, func(raw json.RawMessage) error {
		var sc sfScenario
		if err := json.Unmarshal(raw, &sc); err != nil {
			return err
		}
		fmt.Fprintf(fp, "{\"ev\":\"begin\",\"sc\":%d}\n", sc.Sc)
		over := make(chan struct{})
		go func() {
			select {
			case <-over:
			case <-time.After(sfScenarioTimeoutSec * time.Second):
				fmt.Fprintf(os.Stderr, "\nCHILD-TIMEOUT scenario %d\n", sc.Sc)
				os.Exit(9)
			}
		}()
		evs := ce.run(&sc)
		close(over)
		var buf bytes.Buffer
		for _, ev := range evs {
			b, _ := json.Marshal(ev)
			buf.Write(b)
			buf.WriteByte('\n')
		}
		_, err := fp.Write(buf.Bytes())
		if err == nil && sfRetire {
			return errSfRetire
		}
		return err
	})
	if err == errSfRetire {
		return nil
	}
	return err
}

// sfRetire is set by a scenario that found lal's goroutines in a state that would spoil the scenarios behind it (a
// reader left spinning): the child ends after that scenario and the parent starts a fresh one for the rest of the batch.
var sfRetire bool
var errSfRetire = errors.New("retire")

type sfBatchResult struct {
	lines  []json.RawMessage // complete scenarios' events
	done   int               // number of complete scenarios
	died   bool
	flight int // index (in the batch) of the scenario in flight when the child died; -1 none
	stderr string
}

func sfSpawn(dir string, tag string, batch []json.RawMessage, seed int64) sfBatchResult {
	in, out := fmt.Sprintf("%s/%s.in", dir, tag), fmt.Sprintf("%s/%s.out", dir, tag)
	var ib bytes.Buffer
	for _, r := range batch {
		ib.Write(r)
		ib.WriteByte('\n')
	}
	os.WriteFile(in, ib.Bytes(), 0644)
	os.Remove(out)
	cmd := exec.Command(os.Args[0], "-driver", "surfaces", "-in", in, "-out", out, "-seed", fmt.Sprint(seed), "-child", "1")
	var eb bytes.Buffer
	cmd.Stderr = &eb
	cmd.Stdout = nil
	err := cmd.Run()
	res := sfBatchResult{flight: -1}
	ob, _ := os.ReadFile(out)
	begun := -1
	ended := -1
	var cur []json.RawMessage
	for _, l := range bytes.Split(ob, []byte("\n")) {
		if len(l) == 0 {
			continue
		}
		var m struct {
			Ev string `json:"ev"`
		}
		if json.Unmarshal(l, &m) != nil {
			continue // torn last line of a dying child
		}
		switch m.Ev {
		case "begin":
			begun++
			cur = nil
		case "end":
			cur = append(cur, append([]byte{}, l...))
			res.lines = append(res.lines, cur...)
			cur = nil
			ended = begun
		default:
			cur = append(cur, append([]byte{}, l...))
		}
	}
	res.done = ended + 1
	if err != nil {
		res.died = true
		if begun > ended {
			res.flight = begun
		} else {
			res.flight = ended + 1 // died between scenarios: blame the next one (confirmation run decides)
		}
		s := eb.String()
		if len(s) > 12000 {
			s = s[:12000]
		}
		res.stderr = s
	}
	os.Remove(in)
	os.Remove(out)
	return res
}

func sfDeathEvents(raw json.RawMessage, stderr string, confirmed bool) []json.RawMessage {
	var sc sfScenario
	json.Unmarshal(raw, &sc)
	kind, _ := PanicSig(stderr)
	frame := sfFrame(stderr)
	if sc.Cfg == nil {
		sc.Cfg = map[string]string{}
	}
	steps := sc.Steps
	if steps == nil {
		steps = []json.RawMessage{}
	}
	r, _ := json.Marshal(M{"ev": "reset", "sc": sc.Sc, "surf": sc.Surf, "cfg": sc.Cfg, "steps": steps})
	e, _ := json.Marshal(M{"ev": "end", "sc": sc.Sc, "died": true, "confirmed": confirmed, "panic": false, "second": false,
		"bystander": false, "done": 0, "crash": kind, "frame": frame, "note": "", "res": "n/a"})
	return []json.RawMessage{r, e}
}

// sfFrame is the innermost lal function of a crash dump, with its receiver (PanicSig cuts at the first "(").
func sfFrame(stderr string) string {
	for _, l := range strings.Split(stderr, "\n") {
		if strings.HasPrefix(l, "github.com/q191201771/lal/pkg/") {
			if i := strings.LastIndex(l, "("); i > 0 {
				l = l[:i]
			}
			return strings.TrimPrefix(l, "github.com/q191201771/lal/pkg/")
		}
	}
	return ""
}

func surfacesDriver(env *Env) error {
	if env.Child != "" {
		return sfChildRun(env)
	}
	var all []json.RawMessage
	if err := ReadScenarios(env.In, func(raw json.RawMessage) error {
		all = append(all, raw)
		return nil
	}); err != nil {
		return err
	}
	dir, err := os.MkdirTemp("", "lalverif-sf")
	if err != nil {
		return err
	}
	defer os.RemoveAll(dir)
	nw := sfWorkers()
	// batches of bounded size, handed to nw workers
	const batchSize = 60
	type job struct {
		idx   int
		batch []json.RawMessage
	}
	var jobs []job
	for i := 0; i < len(all); i += batchSize {
		j := i + batchSize
		if j > len(all) {
			j = len(all)
		}
		jobs = append(jobs, job{idx: len(jobs), batch: all[i:j]})
	}
	results := make([][]json.RawMessage, len(jobs))
	ch := make(chan job)
	var wg sync.WaitGroup
	for w := 0; w < nw; w++ {
		wg.Add(1)
		go func(w int) {
			defer wg.Done()
			for jb := range ch {
				var out []json.RawMessage
				rest := jb.batch
				round := 0
				for len(rest) > 0 {
					round++
					r := sfSpawn(dir, fmt.Sprintf("w%d-j%d-r%d", w, jb.idx, round), rest, env.Seed)
					out = append(out, r.lines...)
					if !r.died {
						if r.done > 0 && r.done < len(rest) {
							rest = rest[r.done:] // the child retired after r.done scenarios (see sfRetire)
							continue
						}
						break
					}
					k := r.flight
					if k < 0 || k >= len(rest) {
						k = len(rest) - 1
					}
					// confirm: the scenario in flight alone
					solo := sfSpawn(dir, fmt.Sprintf("w%d-j%d-r%d-solo", w, jb.idx, round), rest[k:k+1], env.Seed)
					if solo.died {
						out = append(out, sfDeathEvents(rest[k], solo.stderr, true)...)
					} else {
						out = append(out, sfDeathEvents(rest[k], r.stderr, false)...)
					}
					rest = rest[k+1:]
				}
				results[jb.idx] = out
			}
		}(w)
	}
	for _, jb := range jobs {
		ch <- jb
	}
	close(ch)
	wg.Wait()
	tw, err := NewTraceWriter(env.Out)
	if err != nil {
		return err
	}
	defer tw.Close()
	// stable order: by scenario id of the reset line
	type block struct {
		sc    int
		lines []json.RawMessage
	}
	var blocks []block
	for _, rs := range results {
		for _, l := range rs {
			var m struct {
				Ev string `json:"ev"`
				Sc int    `json:"sc"`
			}
			json.Unmarshal(l, &m)
			if m.Ev == "reset" {
				blocks = append(blocks, block{sc: m.Sc})
			}
			if len(blocks) > 0 {
				blocks[len(blocks)-1].lines = append(blocks[len(blocks)-1].lines, l)
			}
		}
	}
	sort.SliceStable(blocks, func(i, j int) bool { return blocks[i].sc < blocks[j].sc })
	for _, b := range blocks {
		for _, l := range b.lines {
			tw.w.Write(l)
			tw.w.WriteByte('\n')
		}
	}
	return nil
}

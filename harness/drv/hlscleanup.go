package drv

// Driver "hlscleanup" (C10, delayed directory cleanup that must spare a live stream): behaviours of
// spec/HlsCleanup.tla replayed into a real logic.ServerManager with hls enabled on a temporary
// directory.  Publishers are customize-pub sessions fed with H.264 + AAC, the subscriber is a real
// httpflv.SubSession on an in-memory connection, the 1 s loop of RunLoop is run step by step through
// VerifTick.  The cleanup timer is real time (naza defertaskthread: one goroutine per timer that sleeps
// fragment_duration_ms * (fragment_num + delete_threshold) ms):
//
//   - a step that the behaviour places before the expiry of a pending timer has to be over - its
//     observation included - `hcGuard` before the earliest instant at which the timer can expire;
//   - TimerFire observes twice: `hcGuard` before the timer is due (field "pre": nothing has happened yet - the
//     delay is not shorter than configured) and `hcMargin` after the latest instant at which it should have
//     expired (field "obs"); a canary goroutine started next to lal's own (same sleep) must have woken up in time;
//   - a publisher that leaves while a timer is pending waits until the two expiries are far enough
//     apart to be observed one by one.
//
// A scenario that misses one of these bounds records {"ev":"late"} and is run once more on a quiet
// process; if it is late again the check reports an infrastructure failure - it never judges it.
//
// After every step the event carries the OBSERVED abstract state: identity of the Group object
// registered under the name (0 = none; numbered in order of appearance), muxer alive, directory
// exists, state of the live playlist (read with the independent reader of harness/proj), publication
// (epoch) of the listed segments, whether every listed segment exists as a whole number of TS packets,
// epochs that have segment files in the directory.  Projection only: TLC judges.

import (
	"encoding/json"
	"fmt"
	"os"
	"path/filepath"
	"sort"
	"strings"
	"sync"
	"time"

	"github.com/q191201771/lal/pkg/base"
	"github.com/q191201771/lal/pkg/httpflv"
	"github.com/q191201771/lal/pkg/logic"

	"lalverif/proj"
)

const (
	hcGuard  = 100 * time.Millisecond
	hcMargin = 200 * time.Millisecond
	hcSlack  = 250 * time.Millisecond // room for the steps between two expiries
)

type hcStep struct {
	Name string `json:"name"`
	// Race (TimerFire): the publisher of the next step (PubStart) arrives after the timer has decided to remove the
	// directory and before it removes it (verif hook logic.VerifCleanupGate)
	Race bool `json:"race"`
}

// hcGate holds an expiry of one stream between its decision and the removal while a race step is waiting for it.
type hcGate struct {
	mu      sync.Mutex
	armed   bool
	reached chan struct{}
	release chan struct{}
}

var hcGates sync.Map // stream name -> *hcGate

func init() {
	logic.VerifCleanupGate = func(streamName string) {
		v, ok := hcGates.Load(streamName)
		if !ok {
			return
		}
		g := v.(*hcGate)
		g.mu.Lock()
		if !g.armed {
			g.mu.Unlock()
			return
		}
		g.armed = false
		reached, release := g.reached, g.release
		g.mu.Unlock()
		close(reached)
		select {
		case <-release:
		case <-time.After(5 * time.Second):
		}
	}
}

type hcScenario struct {
	Sc     int      `json:"sc"`
	Mode   int      `json:"mode"`
	FragMs int      `json:"fragMs"`
	Https  bool     `json:"https"` // HLS switched on by hls.enable_https alone
	Steps  []hcStep `json:"steps"`
}

type hcTimer struct {
	a, b   time.Time // the arming call began / returned
	canary chan time.Duration
}

func init() { Registry["hlscleanup"] = hlsCleanupDriver }

func hlsCleanupDriver(env *Env) error {
	httpflv.SubSessionWriteChanSize = 0
	tw, err := NewTraceWriter(env.Out)
	if err != nil {
		return err
	}
	defer tw.Close()
	var scs []*hcScenario
	if err := ReadScenarios(env.In, func(raw json.RawMessage) error {
		var sc hcScenario
		if err := json.Unmarshal(raw, &sc); err != nil {
			return err
		}
		scs = append(scs, &sc)
		return nil
	}); err != nil {
		return err
	}
	par := 64
	for _, a := range env.Args {
		if strings.HasPrefix(a, "par=") {
			fmt.Sscanf(a, "par=%d", &par)
		}
	}
	out := make([][]M, len(scs))
	runAll := func(idx []int, par int) {
		// the scenarios sleep most of the time: run them side by side, the longest first
		sort.SliceStable(idx, func(i, j int) bool { return hcFires(scs[idx[i]]) > hcFires(scs[idx[j]]) })
		var wg sync.WaitGroup
		sem := make(chan struct{}, par)
		for _, i := range idx {
			wg.Add(1)
			sem <- struct{}{}
			go func(i int) {
				defer wg.Done()
				defer func() { <-sem }()
				var evs []M
				runHlsCleanupScenario(scs[i], func(m M) { evs = append(evs, m) })
				out[i] = evs
			}(i)
		}
		wg.Wait()
	}
	all := make([]int, len(scs))
	for i := range all {
		all[i] = i
	}
	runAll(all, par)
	var late []int
	for i, evs := range out {
		if hcIsLate(evs) {
			late = append(late, i)
		}
	}
	if len(late) > 0 {
		fmt.Printf("hlscleanup: %d of %d scenarios missed a real-time bound, running them again\n", len(late), len(scs))
		runAll(late, 4)
	}
	for _, evs := range out {
		for _, e := range evs {
			tw.Emit(e)
		}
	}
	return nil
}

func hcFires(sc *hcScenario) int {
	n := 0
	for _, s := range sc.Steps {
		if s.Name == "TimerFire" {
			n++
		}
	}
	return n
}

func hcIsLate(evs []M) bool {
	for _, e := range evs {
		if e["ev"] == "late" {
			return true
		}
	}
	return false
}

type hcRun struct {
	sm     *logic.ServerManager
	stream string
	dir    string // directory of the stream
	groups []*logic.Group
	ep     int
	fileEp map[string]int
	ts     uint32
	nmsg   int
	nbDir  string // directory of the neighbour: another stream name of the same server that is live all the time
}

func (r *hcRun) groupId(g *logic.Group) int {
	if g == nil {
		return 0
	}
	for i, x := range r.groups {
		if x == g {
			return i + 1
		}
	}
	// every Group object ever seen stays referenced, so that a new one cannot reuse its address
	r.groups = append(r.groups, g)
	return len(r.groups)
}

func (r *hcRun) observe() M {
	g := r.sm.GetGroup("", r.stream)
	mux := false
	if g != nil {
		mux, _ = g.VerifSnapshot()["hlsMuxer"].(bool)
	}
	obs := M{"gid": r.groupId(g), "mux": mux, "dir": false, "pl": "none", "plEps": []int{}, "nseg": 0, "segsOk": true, "eps": []int{},
		"nb": hcNeighbourIntact(r.nbDir)}
	st, err := os.Stat(r.dir)
	if err != nil || !st.IsDir() {
		return obs
	}
	obs["dir"] = true
	whole := map[string]bool{}
	eps := map[int]bool{}
	ents, _ := os.ReadDir(r.dir)
	for _, e := range ents {
		n := e.Name()
		if !strings.HasSuffix(n, ".ts") {
			continue
		}
		if _, ok := r.fileEp[n]; !ok {
			r.fileEp[n] = r.ep // it appeared during the current publication
		}
		eps[r.fileEp[n]] = true
		if fi, err := e.Info(); err == nil && fi.Size() > 0 && fi.Size()%188 == 0 {
			whole[n] = true
		}
	}
	obs["eps"] = hcSorted(eps)
	b, err := os.ReadFile(filepath.Join(r.dir, "playlist.m3u8"))
	if err != nil {
		return obs
	}
	segsOk := true
	pl := proj.ParseM3u8(b, func(uri string) [2]int {
		ep, ok := r.fileEp[uri]
		if !ok {
			ep = -1
		}
		if !whole[uri] {
			segsOk = false
		}
		return [2]int{ep, 0}
	})
	switch {
	case !pl.Ok:
		obs["pl"] = "bad"
	case pl.Endlist:
		obs["pl"] = "ended"
	default:
		obs["pl"] = "live"
	}
	peps := map[int]bool{}
	for _, e := range pl.Ents {
		peps[e.T[0]] = true
	}
	obs["plEps"] = hcSorted(peps)
	obs["nseg"] = len(pl.Ents)
	obs["segsOk"] = segsOk
	return obs
}

// hcNeighbourIntact: the neighbour's directory exists, its live playlist parses, lists segments, and every listed
// segment is there as a whole number of TS packets
func hcNeighbourIntact(dir string) bool {
	b, err := os.ReadFile(filepath.Join(dir, "playlist.m3u8"))
	if err != nil {
		return false
	}
	ok := true
	pl := proj.ParseM3u8(b, func(uri string) [2]int {
		fi, err := os.Stat(filepath.Join(dir, uri))
		if err != nil || fi.Size() == 0 || fi.Size()%188 != 0 {
			ok = false
		}
		return [2]int{0, 0}
	})
	return ok && pl.Ok && !pl.Endlist && len(pl.Ents) > 0
}

func hcSorted(m map[int]bool) []int {
	o := []int{}
	for k := range m {
		o = append(o, k)
	}
	sort.Ints(o)
	return o
}

// feed sends frames that close two fragments (the first call of a publication: sequence headers and
// the key frame that opens the first fragment as well)
func (r *hcRun) feed(cust logic.ICustomizePubSessionContext, first bool, fragMs int) {
	send := func(m *AMsg, n int) {
		r.nmsg++
		m.Id = r.nmsg
		_ = cust.FeedRtmpMsg(BuildMsg(m, n, r.ts))
	}
	frame := func() {
		// (an audio frame just before the key frame: lal's TS remuxer only proposes a cut at a key frame
		// while it holds cached audio)
		send(&AMsg{T: "aud", Ha: 1}, 48)
		r.ts += 5
		send(&AMsg{T: "key", Hv: 1}, 120)
		r.ts += 40
		send(&AMsg{T: "inter", Hv: 1}, 60)
		r.ts += uint32(fragMs) + 10
	}
	if first {
		send(&AMsg{T: "vsh", Hv: 1}, 0)
		send(&AMsg{T: "ash", Ha: 1}, 0)
		frame()
	}
	frame()
	frame()
}

func runHlsCleanupScenario(sc *hcScenario, emitEv func(M)) {
	root, err := os.MkdirTemp("", "lalverif-hc")
	if err != nil {
		emitEv(M{"ev": "reset", "sc": sc.Sc, "mode": sc.Mode})
		emitEv(M{"ev": "late", "step": -1, "why": "no temporary directory: " + err.Error()})
		return
	}
	defer os.RemoveAll(root)
	stream := fmt.Sprintf("hc%d", sc.Sc)
	fragNum, delThr := 2, 1
	conf := fmt.Sprintf(`{"conf_version":"v0.4.1","rtmp":{"enable":false,"gop_num":0},"httpflv":{"enable":false,"gop_num":0},
	 "hls":{"enable":%v,"enable_https":%v,"out_path":"%s/hls/","fragment_duration_ms":%d,"fragment_num":%d,"delete_threshold":%d,"cleanup_mode":%d},
	 "log":{"level":5,"filename":"","is_to_stdout":false,"assert_behavior":1}}`, !sc.Https, sc.Https, root, sc.FragMs, fragNum, delThr, sc.Mode)
	sm := logic.NewServerManager(func(option *logic.Option) { option.ConfRawContent = []byte(conf) })
	r := &hcRun{sm: sm, stream: stream, dir: filepath.Join(root, "hls", stream), fileEp: map[string]int{}, ts: 1000,
		nbDir: filepath.Join(root, "hls", stream+"nb")}
	delay := time.Duration(sc.FragMs*(fragNum+delThr)) * time.Millisecond
	sep := hcGuard + hcMargin + hcSlack
	emitEv(M{"ev": "reset", "sc": sc.Sc, "mode": sc.Mode, "delayMs": int(delay / time.Millisecond)})

	// the neighbour publishes first, closes two fragments and stays live to the end of the scenario
	nb := &hcRun{ts: 5000}
	custNb, err := sm.AddCustomizePubSession(stream + "nb")
	if err != nil {
		emitEv(M{"ev": "late", "step": -1, "why": "neighbour: " + err.Error()})
		return
	}
	defer sm.DelCustomizePubSession(custNb)
	nb.feed(custNb, true, sc.FragMs)
	if !hcNeighbourIntact(r.nbDir) {
		emitEv(M{"ev": "late", "step": -1, "why": "the neighbour stream has no playlist with whole segments"})
		return
	}

	var cust logic.ICustomizePubSessionContext
	var flv *httpflv.SubSession
	var conn *MemConn
	var pending []*hcTimer
	fed := false
	arms := sc.Mode == 1 || sc.Mode == 2
	late := func(i int, why string) {
		emitEv(M{"ev": "late", "step": i, "why": why})
	}
	defer func() {
		// leave nothing behind that still writes into the directory
		if cust != nil {
			sm.DelCustomizePubSession(cust)
		}
	}()
	skip := false
	for i, st := range sc.Steps {
		if skip {
			skip = false
			continue
		}
		if st.Name == "TimerFire" {
			if len(pending) == 0 {
				late(i, "no timer is pending")
				return
			}
			t := pending[0]
			pending = pending[1:]
			var gate *hcGate
			if st.Race && i+1 < len(sc.Steps) && sc.Steps[i+1].Name == "PubStart" {
				gate = &hcGate{armed: true, reached: make(chan struct{}), release: make(chan struct{})}
				hcGates.Store(stream, gate)
			}
			// just before the timer is due nothing has happened yet ...
			time.Sleep(time.Until(t.a.Add(delay - hcGuard)))
			pre := r.observe()
			if time.Now().After(t.a.Add(delay - hcGuard/5)) {
				late(i, "the observation before the expiry ended too close to it")
				return
			}
			if gate != nil {
				reached := false
				select {
				case <-gate.reached:
					reached = true
				case <-time.After(time.Until(t.b.Add(delay + hcMargin))):
					gate.mu.Lock()
					gate.armed = false
					gate.mu.Unlock()
				}
				hcGates.Delete(stream)
				if reached {
					// the timer has decided to remove the directory and is held in front of the removal: the publisher arrives
					done := make(chan string, 1)
					go func() {
						p := ""
						defer func() {
							if e := recover(); e != nil {
								p = fmt.Sprint(e)
							}
							done <- p
						}()
						r.ep++
						fed = false
						c, err := sm.AddCustomizePubSession(stream)
						if err != nil {
							p = "AddCustomizePubSession: " + err.Error()
							return
						}
						cust = c
					}()
					pan, finished := "", false
					select {
					case pan = <-done:
						finished = true
					case <-time.After(250 * time.Millisecond):
						// the arrival waits for the expiry to finish: serialised by lal itself
					}
					close(gate.release)
					if !finished {
						pan = <-done
					}
					time.Sleep(120 * time.Millisecond) // the removal itself (a handful of small files)
					<-t.canary
					emitEv(M{"ev": "TimerFire+PubStart", "pre": pre, "obs": r.observe(), "panic": pan, "arrivalWaited": !finished})
					skip = true
					if len(pending) > 0 && time.Now().After(pending[0].a.Add(delay-hcGuard)) {
						late(i, "observing the expiry ran into the next one")
						return
					}
					continue
				}
			}
			// ... and shortly after it the timer has done its work
			time.Sleep(time.Until(t.b.Add(delay + hcMargin)))
			select {
			case d := <-t.canary:
				if d > hcMargin/2 {
					late(i, fmt.Sprintf("a goroutine sleeping next to the timer woke up %v late", d))
					return
				}
			default:
				late(i, "a goroutine sleeping next to the timer has not woken up yet")
				return
			}
			emitEv(M{"ev": "TimerFire", "pre": pre, "obs": r.observe(), "panic": ""})
			if len(pending) > 0 && time.Now().After(pending[0].a.Add(delay-hcGuard)) {
				late(i, "observing the expiry ran into the next one")
				return
			}
			continue
		}
		if st.Name == "PubStop" && arms && len(pending) > 0 {
			// two expiries have to be far enough apart to be observed one by one
			time.Sleep(time.Until(pending[len(pending)-1].b.Add(sep)))
		}
		if len(pending) > 0 && time.Now().After(pending[0].a.Add(delay-hcGuard)) {
			late(i, "the step would begin too close to the expiry of a pending timer")
			return
		}
		pan := ""
		func() {
			defer func() {
				if e := recover(); e != nil {
					pan = fmt.Sprint(e)
				}
			}()
			switch st.Name {
			case "PubStart":
				r.ep++
				fed = false
				c, err := sm.AddCustomizePubSession(stream)
				if err != nil {
					pan = "AddCustomizePubSession: " + err.Error()
					return
				}
				cust = c
			case "Feed":
				r.feed(cust, !fed, sc.FragMs)
				fed = true
				if conn != nil {
					conn.Drain()
				}
			case "PubStop":
				t := &hcTimer{a: time.Now(), canary: make(chan time.Duration, 1)}
				sm.DelCustomizePubSession(cust)
				cust = nil
				if arms {
					t.b = time.Now()
					go func() {
						time.Sleep(delay)
						t.canary <- time.Since(t.b) - delay
					}()
					pending = append(pending, t)
				}
			case "SubJoin":
				conn = NewMemConn("f1")
				u, _ := base.ParseUrl("http://127.0.0.1/live/"+stream+".flv", 80)
				flv = httpflv.NewSubSession(conn, u, false, "")
				if err := sm.OnNewHttpflvSubSession(flv); err != nil {
					pan = "OnNewHttpflvSubSession: " + err.Error()
				}
				conn.Drain()
			case "SubLeave":
				sm.OnDelHttpflvSubSession(flv)
				flv, conn = nil, nil
			case "Tick":
				sm.VerifTick(1)
			default:
				pan = "unknown step " + st.Name
			}
		}()
		emitEv(M{"ev": st.Name, "obs": r.observe(), "panic": pan})
		if len(pending) > 0 && time.Now().After(pending[0].a.Add(delay-hcGuard)) {
			late(i, "the step ended too close to the expiry of a pending timer")
			return
		}
	}
}

package drv

import (
	"bytes"
	"encoding/json"
	"fmt"
	"net"
	"os"
	"os/exec"
	"runtime/debug"
	"strconv"
	"strings"
	"sync"
	"time"

	"github.com/q191201771/lal/pkg/base"
	"github.com/q191201771/lal/pkg/logic"
	"github.com/q191201771/lal/pkg/rtmp"
	"github.com/q191201771/naza/pkg/nazalog"

	"lalverif/proj"
)

// Driver "rtmpsession" (C04): every scenario is a sequence of abstract peer messages
// (spec/RtmpSession.tla).  The messages are concretised by the independent encoder
// proj/rtmpwire.go and written, in one of three fragmentations, to a real rtmp.ServerSession that
// runs the way rtmp.Server.handleTcpConnect runs it -- once with a stub observer, once attached to a
// full logic.ServerManager.  After every message the driver waits until lal has consumed the bytes
// (its reader is parked in Read again) or has closed the connection, and records which of the two
// happened.  After the scenario a second, well-formed connection publishes one frame.
//
// A defect here kills the process, so batches of scenarios run in child processes: a recovered
// panic of the session goroutine is an observation ("panic"); a death of the child is attributed to
// the scenario in flight (its reset line has no end line), confirmed by running it alone, and
// reported as died=true with the crash kind and the innermost lal frame.

type rsScenario struct {
	Sc   int          `json:"sc"`
	Mode string       `json:"mode"` // stub | sm
	Frag string       `json:"frag"` // whole | bytes | chunks
	Msgs []proj.RsMsg `json:"msgs"`
}

func init() { Registry["rtmpsession"] = rtmpSessionDriver }

// ---- connection with a "reader is parked" barrier

type rsConn struct {
	mu       sync.Mutex
	cond     *sync.Cond
	in       []byte
	closed   bool
	dead     bool // the session goroutine panicked (recovered)
	parked   bool
	wrote    int
	deadline bool
	name     string
}

func newRsConn(name string) *rsConn {
	c := &rsConn{name: name}
	c.cond = sync.NewCond(&c.mu)
	return c
}

func (c *rsConn) Read(b []byte) (int, error) {
	c.mu.Lock()
	defer c.mu.Unlock()
	for len(c.in) == 0 && !c.closed {
		c.parked = true
		c.cond.Broadcast()
		c.cond.Wait()
	}
	c.parked = false
	if len(c.in) == 0 {
		return 0, net.ErrClosed
	}
	n := copy(b, c.in)
	c.in = c.in[n:]
	return n, nil
}

func (c *rsConn) Write(b []byte) (int, error) {
	c.mu.Lock()
	defer c.mu.Unlock()
	if c.closed {
		return 0, net.ErrClosed
	}
	c.wrote += len(b)
	return len(b), nil
}

func (c *rsConn) Close() error {
	c.mu.Lock()
	c.closed = true
	c.mu.Unlock()
	c.cond.Broadcast()
	return nil
}

func (c *rsConn) markDead() {
	c.mu.Lock()
	c.dead = true
	c.mu.Unlock()
	c.cond.Broadcast()
}

func (c *rsConn) feed(b []byte) {
	c.mu.Lock()
	if !c.closed && !c.dead {
		c.in = append(c.in, b...)
		c.parked = false
	}
	c.mu.Unlock()
	c.cond.Broadcast()
}

// barrier waits until lal has taken everything that was fed and asks for more ("served"), or the
// connection has been closed by lal ("closed"), or the session goroutine has panicked ("panic").
// Neither within the timeout: "hung".
func (c *rsConn) barrier(d time.Duration) string {
	c.mu.Lock()
	defer c.mu.Unlock()
	c.deadline = false
	t := time.AfterFunc(d, func() {
		c.mu.Lock()
		c.deadline = true
		c.mu.Unlock()
		c.cond.Broadcast()
	})
	defer t.Stop()
	for {
		switch {
		case c.dead:
			return "panic"
		case c.closed:
			return "closed"
		case c.parked && len(c.in) == 0:
			return "served"
		case c.deadline:
			return "hung"
		}
		c.cond.Wait()
	}
}

func (c *rsConn) LocalAddr() net.Addr                { return memAddr("local") }
func (c *rsConn) RemoteAddr() net.Addr               { return memAddr("10.0.0.2:" + c.name) }
func (c *rsConn) SetDeadline(t time.Time) error      { return nil }
func (c *rsConn) SetReadDeadline(t time.Time) error  { return nil }
func (c *rsConn) SetWriteDeadline(t time.Time) error { return nil }

// ---- observer: stub or the real ServerManager

type rsSink struct{ n int }

func (s *rsSink) OnReadRtmpAvMsg(msg base.RtmpMsg) { s.n += len(msg.Payload) }

type rsObs struct {
	sm       *logic.ServerManager
	mu       sync.Mutex
	admitted bool
}

func (o *rsObs) OnRtmpConnect(s *rtmp.ServerSession, opa rtmp.ObjectPairArray) {
	if o.sm != nil {
		o.sm.OnRtmpConnect(s, opa)
	}
}

func (o *rsObs) admit(err error) error {
	o.mu.Lock()
	if err == nil {
		o.admitted = true
	}
	o.mu.Unlock()
	return err
}

func (o *rsObs) wasAdmitted() bool {
	o.mu.Lock()
	defer o.mu.Unlock()
	return o.admitted
}

func (o *rsObs) OnNewRtmpPubSession(s *rtmp.ServerSession) error {
	if o.sm != nil {
		return o.admit(o.sm.OnNewRtmpPubSession(s))
	}
	s.SetPubSessionObserver(&rsSink{})
	return o.admit(nil)
}

func (o *rsObs) OnNewRtmpSubSession(s *rtmp.ServerSession) error {
	if o.sm != nil {
		return o.admit(o.sm.OnNewRtmpSubSession(s))
	}
	return o.admit(nil)
}

type rsSession struct {
	conn  *rsConn
	obs   *rsObs
	done  chan struct{}
	mu    sync.Mutex
	panic string
	frame string
}

// rsFrame: innermost frame of lal (or of naza, which lal calls) below the panic in a stack dump.
func rsFrame(stack string) string {
	lines := strings.Split(stack, "\n")
	seen := false
	first := ""
	for _, l := range lines {
		if strings.HasPrefix(l, "panic(") {
			seen = true
			continue
		}
		if !seen {
			continue
		}
		if strings.HasPrefix(l, "github.com/q191201771/") {
			f := l
			if i := strings.LastIndex(f, "("); i > 0 {
				f = f[:i]
			}
			f = strings.TrimPrefix(f, "github.com/q191201771/")
			if strings.HasPrefix(f, "lal/") {
				return f
			}
			if first == "" {
				first = f
			}
		}
	}
	return first
}

// rsStart runs a session the way rtmp.Server.handleTcpConnect does.
func rsStart(sm *logic.ServerManager, name string) *rsSession {
	s := &rsSession{conn: newRsConn(name), obs: &rsObs{sm: sm}, done: make(chan struct{})}
	sess := rtmp.NewServerSession(s.obs, s.conn)
	go func() {
		defer close(s.done)
		defer func() {
			if e := recover(); e != nil {
				s.mu.Lock()
				s.panic = fmt.Sprint(e)
				if len(s.panic) > 80 {
					s.panic = s.panic[:80]
				}
				s.frame = rsFrame(string(debug.Stack()))
				s.mu.Unlock()
				s.conn.markDead()
			}
		}()
		_ = sess.RunLoop()
		if sess.DisposeByObserverFlag {
			return
		}
		switch sess.GetStat().BaseType {
		case base.SessionBaseTypePubStr:
			if sm != nil {
				sm.OnDelRtmpPubSession(sess)
			}
		case base.SessionBaseTypeSubStr:
			if sm != nil {
				sm.OnDelRtmpSubSession(sess)
			}
		}
	}()
	return s
}

func (s *rsSession) panicInfo() (string, string) {
	s.mu.Lock()
	defer s.mu.Unlock()
	return s.panic, s.frame
}

// (lal's chunk reader is quadratic in the number of chunks of a message: with a peer chunk size of 1 a 200 KB command takes
//  about 40 s of processor time on this machine - slow, but it ends; the bound only has to tell that from "never")
const rsWait = 180 * time.Second

// send writes b in the requested fragmentation and returns the observation after the last fragment.
func (s *rsSession) send(b []byte, cuts []int, frag string) string {
	var parts [][]byte
	switch frag {
	case "bytes":
		n := len(b)
		if n > 24 {
			n = 24
		}
		for i := 0; i < n; i++ {
			parts = append(parts, b[i:i+1])
		}
		if n < len(b) {
			parts = append(parts, b[n:])
		}
	case "chunks":
		prev := 0
		for _, c := range cuts {
			if c > prev && c < len(b) {
				parts = append(parts, b[prev:c])
				prev = c
			}
			if len(parts) >= 40 {
				break
			}
		}
		parts = append(parts, b[prev:])
	default:
		parts = [][]byte{b}
	}
	obs := "served"
	for _, p := range parts {
		s.conn.feed(p)
		obs = s.conn.barrier(rsWait)
		if obs != "served" {
			break
		}
	}
	if len(parts) == 0 {
		obs = s.conn.barrier(rsWait)
	}
	return obs
}

// finish: the peer disconnects; the session must end and detach.
func (s *rsSession) finish() bool {
	s.conn.Close()
	select {
	case <-s.done:
		return true
	case <-time.After(rsWait):
		return false
	}
}

func rsNewSm() *logic.ServerManager {
	httpc := func(pat string) M {
		return M{"enable": true, "enable_https": false, "url_pattern": pat, "gop_num": 1, "single_gop_max_frame_num": 0}
	}
	conf := M{
		"conf_version": base.ConfVersion,
		"rtmp":         M{"enable": true, "addr": "127.0.0.1:0", "gop_num": 1, "single_gop_max_frame_num": 0, "merge_write_size": 0},
		"in_session":   M{"add_dummy_audio_enable": false, "add_dummy_audio_wait_audio_ms": 150},
		"default_http": M{"http_listen_addr": "127.0.0.1:0"},
		"httpflv":      httpc("/"),
		"httpts":       httpc("/"),
		"rtsp":         M{"enable": true, "addr": "127.0.0.1:0", "out_wait_key_frame_flag": false},
		"log":          M{"level": 6, "filename": "", "is_to_stdout": false, "assert_behavior": 1},
	}
	raw, _ := json.Marshal(conf)
	return logic.NewServerManager(func(option *logic.Option) { option.ConfRawContent = raw })
}

// rsProbe: a second, well-formed connection: handshake, connect, createStream, publish, sequence
// header and one key frame.  "ok" = admitted as publisher and still served after the frame.
func rsProbe(sm *logic.ServerManager, seed int64) string {
	s := rsStart(sm, "probe")
	enc := proj.NewRsEnc(seed)
	var b []byte
	for _, m := range []proj.RsMsg{{M: "c0c1", A: "simple", S: "full"}, {M: "c2", A: "echo", S: "full"},
		{M: "scs", A: "4096", S: "ok"}, {M: "cmd", A: "connect", S: "ok"}, {M: "cmd", A: "createStream", S: "ok"},
		{M: "cmd", A: "publish", S: "ok"}, {M: "video", A: "seqhdr"}, {M: "video", A: "key"}} {
		x, _ := enc.Bytes(m, "verifprobe")
		b = append(b, x...)
	}
	obs := s.send(b, nil, "whole")
	res := "ok"
	switch {
	case obs != "served":
		res = obs
	case !s.obs.wasAdmitted():
		res = "rejected"
	}
	if !s.finish() && res == "ok" {
		res = "stuck"
	}
	return res
}

type rsRunner struct {
	sm   *logic.ServerManager
	seed int64
	tw   *TraceWriter
}

func (r *rsRunner) emit(m M) {
	r.tw.Emit(m)
	r.tw.Flush()
}

func (r *rsRunner) run(sc *rsScenario) {
	r.emit(M{"ev": "reset", "sc": sc.Sc, "mode": sc.Mode, "frag": sc.Frag})
	var sm *logic.ServerManager
	if sc.Mode == "sm" {
		if r.sm == nil {
			r.sm = rsNewSm()
		}
		sm = r.sm
	}
	s := rsStart(sm, "c"+strconv.Itoa(sc.Sc))
	enc := proj.NewRsEnc(r.seed + int64(sc.Sc))
	sent := 0
	npanic := 0
	for i, m := range sc.Msgs {
		enc.InHs = sent < 3073
		b, cuts := enc.Bytes(m, "verifs")
		obs := s.send(b, cuts, sc.Frag)
		sent += len(b)
		ev := M{"ev": "send", "sc": sc.Sc, "i": i + 1, "msg": m, "n": len(b), "obs": obs, "panic": "", "frame": ""}
		if obs == "panic" {
			ev["panic"], ev["frame"] = s.panicInfo()
			npanic++
		}
		r.emit(ev)
	}
	fin := s.finish()
	if (npanic > 0 || !fin) && sm != nil {
		// the manager may hold a half-attached session: the probe and later scenarios get a fresh one
		r.sm = rsNewSm()
		sm = r.sm
	}
	probe := rsProbe(sm, r.seed)
	r.emit(M{"ev": "end", "sc": sc.Sc, "died": false, "fin": fin, "probe": probe, "crash": "", "frame": "", "confirmed": false})
}

// ---- parent: batches in child processes

func rsChild(lines [][]byte, seed int64, timeoutSec int) (out [][]byte, died bool, stderrTail string) {
	dir, err := os.MkdirTemp("", "lalverif-rs")
	if err != nil {
		return nil, true, err.Error()
	}
	defer os.RemoveAll(dir)
	in, outp := dir+"/in.ndjson", dir+"/out.ndjson"
	os.WriteFile(in, append(bytes.Join(lines, []byte("\n")), '\n'), 0644)
	cmd := exec.Command(os.Args[0], "-driver", "rtmpsession", "-in", in, "-out", outp, "-seed", fmt.Sprint(seed), "-child", "1")
	var eb bytes.Buffer
	cmd.Stderr = &eb
	cmd.Stdout = &eb
	if err := cmd.Start(); err != nil {
		return nil, true, err.Error()
	}
	done := make(chan error, 1)
	go func() { done <- cmd.Wait() }()
	select {
	case err = <-done:
	case <-time.After(time.Duration(timeoutSec) * time.Second):
		cmd.Process.Kill()
		<-done
		err = fmt.Errorf("timeout")
		eb.WriteString("\nCHILD-TIMEOUT\n")
	}
	if ob, e2 := os.ReadFile(outp); e2 == nil {
		for _, l := range bytes.Split(ob, []byte("\n")) {
			if len(l) > 0 {
				out = append(out, append([]byte{}, l...))
			}
		}
	}
	s := eb.String()
	if len(s) > 200000 {
		s = s[:100000] + "\n...\n" + s[len(s)-100000:]
	}
	return out, err != nil, s
}

// rsCrashSig: crash kind and innermost lal frame of the goroutine that crashed.
func rsCrashSig(stderr string) (string, string) {
	kind, _ := PanicSig(stderr)
	i := strings.Index(stderr, "panic: ")
	if j := strings.Index(stderr, "fatal error: "); i < 0 || (j >= 0 && j < i) {
		i = j
	}
	frame := ""
	if i >= 0 {
		frame = rsFrame("panic(\n" + stderr[i:])
	}
	return kind, frame
}

// rsBatch runs the scenarios of one batch; a death is attributed to the scenario in flight, which
// is confirmed alone, and the rest of the batch continues in a new child.
func rsBatch(lines [][]byte, seed int64) [][]byte {
	var res [][]byte
	for len(lines) > 0 {
		out, died, stderr := rsChild(lines, seed, 600)
		nend, nreset := 0, 0
		for _, l := range out {
			if bytes.Contains(l, []byte(`"ev":"end"`)) {
				nend++
			}
			if bytes.Contains(l, []byte(`"ev":"reset"`)) {
				nreset++
			}
		}
		if !died && nend == len(lines) {
			return append(res, out...)
		}
		// scenario in flight = index nend
		if nend >= len(lines) {
			// died after the last scenario had ended (exit path): keep what was recorded
			return append(res, out...)
		}
		var sc rsScenario
		json.Unmarshal(lines[nend], &sc)
		kind, frame := rsCrashSig(stderr)
		if !died {
			kind = "child ended early"
		}
		_, died2, _ := rsChild(lines[nend:nend+1], seed, 120)
		if nreset == nend {
			// the child died before it could log the scenario's reset line
			b, _ := json.Marshal(M{"ev": "reset", "sc": sc.Sc, "mode": sc.Mode, "frag": sc.Frag})
			out = append(out, b)
		}
		b, _ := json.Marshal(M{"ev": "end", "sc": sc.Sc, "died": true, "fin": false, "probe": "none", "crash": kind, "frame": frame,
			"confirmed": died2})
		res = append(res, out...)
		res = append(res, b)
		lines = lines[nend+1:]
	}
	return res
}

func rtmpSessionDriver(env *Env) error {
	_ = nazalog.Init(func(o *nazalog.Option) { o.Level = nazalog.LevelLogNothing })
	if env.Child != "" {
		tw, err := NewTraceWriter(env.Out)
		if err != nil {
			return err
		}
		defer tw.Close()
		r := &rsRunner{seed: env.Seed, tw: tw}
		return ReadScenarios(env.In, func(raw json.RawMessage) error {
			var sc rsScenario
			if err := json.Unmarshal(raw, &sc); err != nil {
				return err
			}
			r.run(&sc)
			return nil
		})
	}
	var all [][]byte
	if err := ReadScenarios(env.In, func(raw json.RawMessage) error {
		all = append(all, raw)
		return nil
	}); err != nil {
		return err
	}
	workers := 4
	if v, err := strconv.Atoi(os.Getenv("VERIF_WORKERS")); err == nil && v > 0 {
		workers = v
	}
	const per = 250
	nb := (len(all) + per - 1) / per
	results := make([][][]byte, nb)
	var wg sync.WaitGroup
	sem := make(chan struct{}, workers)
	for k := 0; k < nb; k++ {
		lo, hi := k*per, (k+1)*per
		if hi > len(all) {
			hi = len(all)
		}
		wg.Add(1)
		sem <- struct{}{}
		go func(k int, part [][]byte) {
			defer wg.Done()
			defer func() { <-sem }()
			results[k] = rsBatch(part, env.Seed)
		}(k, all[lo:hi])
	}
	wg.Wait()
	fp, err := os.Create(env.Out)
	if err != nil {
		return err
	}
	defer fp.Close()
	for _, r := range results {
		for _, l := range r {
			fp.Write(l)
			fp.Write([]byte("\n"))
		}
	}
	return nil
}

package drv

import (
	"bytes"
	"encoding/json"
	"fmt"
	"os"
	"runtime/debug"

	"github.com/q191201771/lal/pkg/rtmp"

	"lalverif/proj"
)

// Driver "amf" (C18).

type amfScenario struct {
	Sc          int             `json:"sc"`
	Kind        string          `json:"kind"` // dec | enc | deep | sdf | meta
	V           json.RawMessage `json:"v"`
	Cut         int             `json:"cut"`
	Nest        string          `json:"nest"`
	N           int             `json:"n"`
	Closed      bool            `json:"closed"`
	Sdf         bool            `json:"sdf"`
	SdfLong     bool            `json:"sdfLong"` // the @setDataFrame prefix in long-string form
	W, H, A, Vc int
}

func init() { Registry["amf"] = amfDriver }

func lalView(x interface{}) M {
	switch t := x.(type) {
	case float64:
		id := proj.NumId(t)
		if id < 0 {
			id = 1000000 + int(t)
		}
		return M{"k": "num", "id": id}
	case bool:
		return M{"k": "bool", "b": t}
	case string:
		return M{"k": "str", "s": proj.StrOf([]byte(t))}
	case rtmp.ObjectPairArray:
		ps := []M{}
		for _, p := range t {
			ps = append(ps, M{"key": proj.StrOf([]byte(p.Key)), "v": lalView(p.Value)})
		}
		return M{"k": "pairs", "ps": ps}
	}
	return M{"k": "other"}
}

func amfResult(val interface{}, used int, err error) M {
	if err != nil {
		return M{"ok": false, "used": 0, "val": M{"k": "none"}}
	}
	return M{"ok": true, "used": used, "val": val}
}

func amfDecode(kind string, b []byte) (r1 M, r2 M) {
	// a panic inside lal is an observation (never allowed by the specification), not a driver failure
	defer func() {
		if e := recover(); e != nil {
			r1 = M{"ok": false, "used": -1, "val": M{"k": "panic", "what": fmt.Sprint(e)}}
			r2 = nil
		}
	}()
	switch kind {
	case "num":
		v, l, err := rtmp.Amf0.ReadNumber(b)
		return amfResult(lalView(v), l, err), nil
	case "bool":
		v, l, err := rtmp.Amf0.ReadBoolean(b)
		return amfResult(lalView(v), l, err), nil
	case "str", "lstr":
		v, l, err := rtmp.Amf0.ReadString(b)
		return amfResult(lalView(v), l, err), nil
	case "null":
		l, err := rtmp.Amf0.ReadNull(b)
		return amfResult(M{"k": "skip"}, l, err), nil
	case "obj":
		v, l, err := rtmp.Amf0.ReadObject(b)
		v2, l2, err2 := rtmp.Amf0.ReadObjectOrArray(b)
		return amfResult(lalView(v), l, err), amfResult(lalView(v2), l2, err2)
	case "ecma":
		v, l, err := rtmp.Amf0.ReadArray(b)
		v2, l2, err2 := rtmp.Amf0.ReadObjectOrArray(b)
		return amfResult(lalView(v), l, err), amfResult(lalView(v2), l2, err2)
	case "strict":
		v, l, err := rtmp.Amf0.ReadStrictArray(b)
		return amfResult(lalView(v), l, err), nil
	}
	return M{"ok": false, "used": -1, "val": M{"k": "none"}}, nil
}

func amfDeepBytes(nest string, n int, closed bool) []byte {
	var b []byte
	for i := 0; i < n; i++ {
		switch nest {
		case "obj":
			b = append(b, 3)
		case "ecma":
			b = append(b, 8, 0, 0, 0, 1)
		case "strict":
			b = append(b, 10, 0, 0, 0, 1)
		}
		if i != n-1 && nest != "strict" {
			b = append(b, 0, 1, 'k')
		}
	}
	if closed {
		// innermost container is empty
		switch nest {
		case "obj":
			b = append(b, 0, 0, 9)
			for i := 1; i < n; i++ {
				b = append(b, 0, 0, 9)
			}
		case "ecma":
			b[len(b)-1] = 0
			for i := 0; i < n; i++ {
				b = append(b, 0, 0, 9)
			}
		case "strict":
			b[len(b)-1] = 0
		}
	}
	return b
}

// sdfHeld: results of MetadataEnsureWithSdf / WithoutSdf handed out so far, each with a copy taken at that moment
var sdfHeld [][2][]byte

// lalWriteErr: the error of the last lalWrite (the writer refused the value)
var lalWriteErr error

// lal's own writer for values it supports: flat objects of string / number / boolean, and
// top-level string / number / boolean / null.
func lalWrite(v *proj.AVal) ([]byte, bool) {
	lalWriteErr = nil
	var buf bytes.Buffer
	switch v.K {
	case "num":
		rtmp.Amf0.WriteNumber(&buf, proj.NumPool[v.Id])
	case "bool":
		rtmp.Amf0.WriteBoolean(&buf, v.B)
	case "str":
		rtmp.Amf0.WriteString(&buf, string(v.S.Bytes()))
	case "null":
		rtmp.Amf0.WriteNull(&buf)
	case "obj":
		var opa rtmp.ObjectPairArray
		for _, p := range v.Ps {
			var val interface{}
			switch p.V.K {
			case "num":
				val = proj.NumPool[p.V.Id]
			case "bool":
				val = p.V.B
			case "str":
				val = string(p.V.S.Bytes())
			default:
				return nil, false
			}
			opa = append(opa, rtmp.ObjectPair{Key: string(p.Key.Bytes()), Value: val})
		}
		if !v.End {
			return nil, false
		}
		if lalWriteErr = rtmp.Amf0.WriteObject(&buf, opa); lalWriteErr != nil {
			return buf.Bytes(), true
		}
	default:
		return nil, false
	}
	// lal itself encodes into the growing buffer of rtmp.MessagePacker (12 bytes reserved for the chunk header, the
	// command name and transaction id in front): the value must come out of it as it comes out of a plain writer
	if pb := lalWritePacker(v); !bytes.Equal(pb, buf.Bytes()) {
		return append([]byte{0xEE}, pb...), true
	}
	return buf.Bytes(), true
}

func lalWritePacker(v *proj.AVal) (out []byte) {
	defer func() {
		if r := recover(); r != nil {
			out = []byte("panic: " + fmt.Sprint(r))
		}
	}()
	pb := rtmp.NewBuffer(256)
	pb.ModWritePos(12)
	rtmp.Amf0.WriteString(pb, "play")
	rtmp.Amf0.WriteNumber(pb, 4)
	rtmp.Amf0.WriteNull(pb)
	pre := pb.Len()
	switch v.K {
	case "num":
		rtmp.Amf0.WriteNumber(pb, proj.NumPool[v.Id])
	case "bool":
		rtmp.Amf0.WriteBoolean(pb, v.B)
	case "str":
		rtmp.Amf0.WriteString(pb, string(v.S.Bytes()))
	case "null":
		rtmp.Amf0.WriteNull(pb)
	case "obj":
		var opa rtmp.ObjectPairArray
		for _, p := range v.Ps {
			var val interface{}
			switch p.V.K {
			case "num":
				val = proj.NumPool[p.V.Id]
			case "bool":
				val = p.V.B
			case "str":
				val = string(p.V.S.Bytes())
			}
			opa = append(opa, rtmp.ObjectPair{Key: string(p.Key.Bytes()), Value: val})
		}
		rtmp.Amf0.WriteObject(pb, opa)
	}
	return append([]byte(nil), pb.Bytes()[pre:]...)
}

func amfDriver(env *Env) error {
	tw, err := NewTraceWriter(env.Out)
	if err != nil {
		return err
	}
	defer tw.Close()
	if env.Child != "" && os.Getenv("LALVERIF_DEFAULT_STACK") == "" {
		debug.SetMaxStack(64 << 20) // detect unbounded recursion in milliseconds instead of at 1 GB
	}
	first := true
	return ReadScenarios(env.In, func(raw json.RawMessage) error {
		var sc amfScenario
		if err := json.Unmarshal(raw, &sc); err != nil {
			return err
		}
		if first {
			tw.Emit(M{"ev": "reset", "sc": sc.Sc})
			first = false
		}
		switch sc.Kind {
		case "dec":
			var v proj.AVal
			json.Unmarshal(sc.V, &v)
			b := proj.AmfEncode(&v)
			if sc.Cut > len(b) {
				sc.Cut = len(b)
			}
			res, res2 := amfDecode(v.K, b[:sc.Cut])
			ev := M{"ev": "Dec", "sc": sc.Sc, "v": sc.V, "cut": sc.Cut, "total": len(b), "res": res, "res2": res}
			if res2 != nil {
				ev["res2"] = res2
			}
			tw.Emit(ev)
		case "enc":
			var v proj.AVal
			json.Unmarshal(sc.V, &v)
			b, ok := lalWrite(&v)
			if !ok {
				return nil
			}
			toks, tok := proj.AmfTokenize(b)
			if toks == nil {
				toks = []proj.ATok{}
			}
			res, _ := amfDecode(v.K, b)
			tw.Emit(M{"ev": "Enc", "sc": sc.Sc, "v": sc.V, "toks": toks, "tokOk": tok, "total": len(b), "res": res,
				"refused": lalWriteErr != nil})
		case "deep":
			if env.Child == "" {
				lines, died, stderr := RunChild("amf", &sc, env.Seed, 120)
				if died {
					kind, frame := PanicSig(stderr)
					tw.Emit(M{"ev": "Deep", "sc": sc.Sc, "nest": sc.Nest, "n": sc.N, "closed": sc.Closed, "died": true,
						"ok": false, "crash": kind, "frame": frame})
				} else {
					for _, l := range lines {
						var m M
						json.Unmarshal(l, &m)
						if m["ev"] == "Deep" {
							tw.Emit(m)
						}
					}
				}
				return nil
			}
			b := amfDeepBytes(sc.Nest, sc.N, sc.Closed)
			var err error
			switch sc.Nest {
			case "obj":
				_, _, err = rtmp.Amf0.ReadObject(b)
			case "ecma":
				_, _, err = rtmp.Amf0.ReadArray(b)
			case "strict":
				_, _, err = rtmp.Amf0.ReadStrictArray(b)
			}
			// the metadata entry point sees the same bytes behind "onMetaData"
			var mb bytes.Buffer
			rtmp.Amf0.WriteString(&mb, "onMetaData")
			mb.Write(b)
			_, err2 := rtmp.ParseMetadata(mb.Bytes())
			tw.Emit(M{"ev": "Deep", "sc": sc.Sc, "nest": sc.Nest, "n": sc.N, "closed": sc.Closed, "died": false,
				"ok": err == nil, "okMeta": err2 == nil || sc.Nest == "strict", "crash": "", "frame": ""})
		case "sdf":
			// metadata = ["@setDataFrame"] "onMetaData" {object}
			var v proj.AVal
			json.Unmarshal(sc.V, &v)
			var in []byte
			if sc.Sdf && sc.SdfLong {
				in = append(in, 0x0c, 0, 0, 0, 13)
				in = append(in, "@setDataFrame"...)
			} else if sc.Sdf {
				in = append(in, proj.AmfEncode(&proj.AVal{K: "str", S: &proj.AStr{N: 13, S: "@setDataFrame"}})...)
			}
			in = append(in, proj.AmfEncode(&proj.AVal{K: "str", S: &proj.AStr{N: 10, S: "onMetaData"}})...)
			in = append(in, proj.AmfEncode(&v)...)
			with, e1 := rtmp.MetadataEnsureWithSdf(in)
			without, e2 := rtmp.MetadataEnsureWithoutSdf(in)
			// what was handed out earlier (to another stream, or for an earlier metadata of this one) stays what it was
			stable := true
			for _, h := range sdfHeld {
				if !bytes.Equal(h[0], h[1]) {
					stable = false
				}
			}
			sdfHeld = append(sdfHeld, [2][]byte{with, append([]byte(nil), with...)}, [2][]byte{without, append([]byte(nil), without...)})
			ti, _ := proj.AmfTokenize(in)
			tw1, ok1 := proj.AmfTokenize(with)
			tw2, ok2 := proj.AmfTokenize(without)
			tw.Emit(M{"ev": "Sdf", "sc": sc.Sc, "in": ti, "with": tw1, "without": tw2,
				"ok": e1 == nil && e2 == nil && ok1 && ok2, "stable": stable})
		case "meta":
			b, err := rtmp.BuildMetadata(sc.W, sc.H, sc.A, sc.Vc)
			toks, tok := proj.AmfTokenize(b)
			opa, err2 := rtmp.ParseMetadata(b)
			fields := M{}
			for _, k := range []string{"width", "height", "audiocodecid", "videocodecid"} {
				if n, e := opa.FindNumber(k); e == nil {
					fields[k] = n
				} else {
					fields[k] = -1
				}
			}
			_, e3 := opa.FindString("version")
			tw.Emit(M{"ev": "Meta", "sc": sc.Sc, "w": sc.W, "h": sc.H, "a": sc.A, "vc": sc.Vc, "toks": toks,
				"ok": err == nil && err2 == nil && tok && e3 == nil, "fields": fields})
		}
		return nil
	})
}

package drv

import (
	"bytes"
	"encoding/json"
	"fmt"
	"log"
	"net"
	"net/http"
	"strings"
	"sync"
	"time"

	"github.com/q191201771/lal/pkg/logic"

	"lalverif/proj"
)

// HTTP surfaces of lal as a server (C13): the real handlers behind real net/http servers on
// loopback listeners, one set per child process -
//   media  "/" -> logic.HttpServerHandler.ServeSubSession (HTTP-FLV, HTTP-TS, optionally upgraded
//          to WebSocket), "/hls/" -> ServerManager.serveHls (hook VerifServeHls) -> hls.ServerHandler,
//          registered the way base.HttpServerManager registers them;
//   api    logic.HttpApiServer (Listen + RunLoop).
// Requests are raw bytes on a TCP connection.  net/http recovers a handler panic and logs
// "http: panic serving ..." through the standard logger: that output is captured and a new entry
// is reported as the observation panic = true (no behaviour of the specification allows it).

type sfLogBuf struct {
	mu sync.Mutex
	b  bytes.Buffer
}

func (l *sfLogBuf) Write(p []byte) (int, error) {
	l.mu.Lock()
	defer l.mu.Unlock()
	if l.b.Len() < 1<<20 {
		l.b.Write(p)
	}
	return len(p), nil
}

func (l *sfLogBuf) panics() (int, string) {
	l.mu.Lock()
	defer l.mu.Unlock()
	s := l.b.String()
	n := strings.Count(s, "panic serving")
	last := ""
	if i := strings.LastIndex(s, "panic serving"); i >= 0 {
		last = s[i:]
		if j := strings.IndexByte(last, '\n'); j > 0 {
			last = last[:j]
		}
		if k := strings.Index(last, ": "); k > 0 {
			last = last[k+2:]
		}
	}
	return n, sfShort(last)
}

var sfHttp struct {
	once       sync.Once
	media, api string
	log        *sfLogBuf
	err        string
}

func (e *sfEnv) httpServers() {
	sfHttp.once.Do(func() {
		sm := e.server()
		sfHttp.log = &sfLogBuf{}
		log.SetOutput(sfHttp.log)
		ln, err := net.Listen("tcp", "127.0.0.1:0")
		if err != nil {
			sfHttp.err = err.Error()
			return
		}
		sfHttp.media = ln.Addr().String()
		mux := http.NewServeMux()
		mux.HandleFunc("/", logic.NewHttpServerHandler(sm).ServeSubSession)
		mux.HandleFunc(sm.Config().HlsConfig.UrlPattern, sm.VerifServeHls)
		go func() { _ = (&http.Server{Handler: mux}).Serve(ln) }()
		// the API server listens itself: find a free port first
		for try := 0; try < 20; try++ {
			l2, err := net.Listen("tcp", "127.0.0.1:0")
			if err != nil {
				continue
			}
			addr := l2.Addr().String()
			l2.Close()
			api := logic.NewHttpApiServer(addr, sm)
			if err := api.Listen(); err != nil {
				continue
			}
			sfHttp.api = addr
			go func() { _ = api.RunLoop() }()
			break
		}
		if sfHttp.api == "" {
			sfHttp.err = "no api listener"
		}
	})
}

// sfHttpDo writes a raw request and reads until a status line arrived, the server closed the
// connection, or nothing happened for `quiet` after the request was written.
func sfHttpDo(addr string, raw []byte, quiet time.Duration) (code int, note string) {
	// from a varying loopback source address, closed with a reset: neither side keeps a TIME_WAIT entry per request
	d := net.Dialer{Timeout: 3 * time.Second, LocalAddr: &net.TCPAddr{IP: net.ParseIP(sfLoopback())}}
	c, err := d.Dial("tcp", addr)
	if err != nil {
		if c, err = net.DialTimeout("tcp", addr, 3*time.Second); err != nil {
			return 0, "dial: " + err.Error()
		}
	}
	defer func() {
		if tc, ok := c.(*net.TCPConn); ok {
			tc.SetLinger(0)
		}
		c.Close()
	}()
	p0, _ := sfHttp.log.panics()
	c.SetWriteDeadline(time.Now().Add(5 * time.Second))
	for len(raw) > 0 { // the server may answer and close before a large body is through
		n, err := c.Write(raw)
		if err != nil {
			break
		}
		raw = raw[n:]
	}
	var got []byte
	buf := make([]byte, 4096)
	last := time.Now()
	for {
		c.SetReadDeadline(time.Now().Add(20 * time.Millisecond))
		n, err := c.Read(buf)
		if n > 0 {
			got = append(got, buf[:n]...)
			last = time.Now()
			if i := bytes.Index(got, []byte("\r\n")); i >= 0 {
				f := strings.Fields(string(got[:i]))
				if len(f) >= 2 && strings.HasPrefix(f[0], "HTTP/") {
					fmt.Sscanf(f[1], "%d", &code)
				} else {
					code = -1
				}
				return code, ""
			}
		}
		if err != nil {
			if ne, ok := err.(net.Error); ok && ne.Timeout() {
				if p1, _ := sfHttp.log.panics(); p1 > p0 {
					return 0, ""
				}
				if time.Since(last) > quiet {
					return 0, "" // neither answered nor closed: the handler keeps (or leaked) the connection
				}
				continue
			}
			return 0, "" // closed without an answer
		}
	}
}

func sfHttpBytes(el *sfEl, live string) (addr string, raw []byte) {
	switch el.K {
	case "api":
		body, has := proj.SfApiBody(el.A, el.B, live)
		method, q := "POST", ""
		switch {
		case strings.HasPrefix(el.C, "q_"):
			method = "GET"
			switch el.C {
			case "q_stream":
				q = "?stream_name=" + live
			case "q_nostream":
				q = "?stream_name=nobody"
			case "q_emptyval":
				q = "?stream_name="
			case "q_dup":
				q = "?stream_name=" + live + "&stream_name=x"
			case "q_esc":
				q = "?stream_name=%2e%2e%2f" + live + "%00"
			case "q_badesc":
				q = "?stream_name=%zz&%"
			case "q_long":
				q = "?stream_name=" + strings.Repeat("s", 6000)
			case "q_semi":
				q = "?a=1;stream_name=" + live
			}
		default:
			method = el.C
		}
		if !has && method == "POST" {
			body, has = []byte{}, false
		}
		return sfHttp.api, proj.SfHttpRequest(method, proj.SfApiPath(el.A)+q, "HTTP/1.1", []string{"Host: 127.0.0.1", "User-Agent: lalverif"}, body, has)
	default:
		prefix, ext := "/live/", ".flv"
		switch el.K {
		case "ts":
			ext = ".ts"
		case "m3u8":
			prefix, ext = "/hls/", ".m3u8"
		case "hls":
			prefix, ext = "/hls/", ".ts"
		}
		version, hdrs := proj.SfHttpHeaders(el.C)
		target := proj.SfHttpPath(prefix, el.A, live, ext) + proj.SfHttpQuery(el.B)
		return sfHttp.media, proj.SfHttpRequest("GET", target, version, hdrs, nil, false)
	}
}

var sfTick uint32

func (e *sfEnv) runHttp(sc *sfScenario, end M) (obs []sfObs) {
	e.httpServers()
	if sfHttp.err != "" {
		end["note"] = "http servers: " + sfHttp.err
		return
	}
	live := fmt.Sprintf("h%d", sc.Sc)
	by := e.newPeer("by", false)
	byOk := sfOk(by.send(sfReq("ANNOUNCE", sfURL(live), "1", nil, proj.SfSdpText(&sfGoodSdp))))
	for _, raw := range sc.Steps {
		var el sfEl
		json.Unmarshal(raw, &el)
		addr, b := sfHttpBytes(&el, live)
		p0, _ := sfHttp.log.panics()
		code, note := sfHttpDo(addr, b, 250*time.Millisecond)
		o := sfObs{Codes: []int{}, Alive: true, Note: note}
		if code != 0 {
			o.Codes = []int{code}
		}
		if p1, what := sfHttp.log.panics(); p1 > p0 {
			o.Panic = true
			o.Note = what
		}
		obs = append(obs, o)
		if el.K == "api" {
			// what an API call set up is acted on by the 1-second tick of ServerManager.RunLoop, outside any
			// HTTP handler (nothing recovers a panic there): run the body of two iterations
			sfTick++
			e.server().VerifTick(sfTick)
			sfTick++
			e.server().VerifTick(sfTick)
		}
	}
	// the next well-formed requests are served, the bystander stream is untouched
	c1, _ := sfHttpDo(sfHttp.api, proj.SfHttpRequest("GET", "/api/stat/group?stream_name="+live, "HTTP/1.1", []string{"Host: h"}, nil, false), 2*time.Second)
	c2, _ := sfHttpDo(sfHttp.media, proj.SfHttpRequest("GET", "/live/"+live+".flv", "HTTP/1.1", []string{"Host: h"}, nil, false), 2*time.Second)
	end["second"] = c1 == 200 && c2 == 200
	end["bystander"] = byOk && by.send(nil).Alive
	by.close()
	return
}

package drv

func (e *sfEnv) runClient(sc *sfScenario, end M) (obs []sfObs) { return }
func (e *sfEnv) runHttp(sc *sfScenario, end M) (obs []sfObs)   { return }

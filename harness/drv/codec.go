package drv

import (
	"bytes"
	"encoding/base64"
	"encoding/hex"
	"encoding/json"
	"fmt"

	"github.com/q191201771/lal/pkg/aac"
	"github.com/q191201771/lal/pkg/avc"
	"github.com/q191201771/lal/pkg/base"
	"github.com/q191201771/lal/pkg/h2645"
	"github.com/q191201771/lal/pkg/hevc"
	"github.com/q191201771/lal/pkg/remux"
	"github.com/q191201771/lal/pkg/rtprtcp"
	"github.com/q191201771/lal/pkg/sdp"
	"github.com/q191201771/naza/pkg/nazalog"

	"lalverif/proj"
)

// Driver "codec" (C19): scenarios enumerated by spec/Codec.tla are executed against lal's
// conversion functions; every result is projected by the independent readers of proj/codec.go and
// logged for spec/Trace_Codec.tla.
//   k=sps   one SPS syntax tree -> bit writer -> avc.ParseSps / hevc.ParseSps
//   k=car   a path through the parameter-set carrier graph (bare, seq header, Annex-B, SDP)
//   k=nal   a path through NAL list <-> AVCC <-> Annex-B
//   k=aac   a path through ASC, RTMP AAC sequence header, ADTS header, SDP config
//   k=sdp   sdp.Pack (or remux.Rtmp2RtspRemuxer) -> lal's parser and the RFC reader

type codecScenario struct {
	Sc    int            `json:"sc"`
	K     string         `json:"k"`
	T     *proj.SpsTree  `json:"t"`
	Codec string         `json:"codec"`
	Lens  []int          `json:"lens"`
	Cls   string         `json:"cls"`
	Path  []string       `json:"path"`
	Units []proj.NalUnit `json:"units"`
	Scs   []int          `json:"scs"`
	Tz    int            `json:"tz"`
	Asc   proj.Asc       `json:"asc"`
	Flen  int            `json:"flen"`
	V     string         `json:"v"`
	A     string         `json:"a"`
	Via   string         `json:"via"`
}

const codecBaseURL = "rtsp://h/live/s"

func init() { Registry["codec"] = codecDriver }

func codecDriver(env *Env) error {
	tw, err := NewTraceWriter(env.Out)
	if err != nil {
		return err
	}
	defer tw.Close()
	_ = nazalog.Init(func(o *nazalog.Option) { o.Level = nazalog.LevelLogNothing })
	return ReadScenarios(env.In, func(raw json.RawMessage) error {
		var sc codecScenario
		if err := json.Unmarshal(raw, &sc); err != nil {
			return err
		}
		switch sc.K {
		case "sps":
			tw.Emit(M{"ev": "reset", "sc": sc.Sc, "k": sc.K})
			codecSps(tw, &sc)
		case "car":
			codecCar(tw, &sc)
		case "nal":
			codecNal(tw, &sc)
		case "aac":
			codecAac(tw, &sc)
		case "sdp":
			tw.Emit(M{"ev": "reset", "sc": sc.Sc, "k": sc.K})
			codecSdp(tw, &sc)
		default:
			return fmt.Errorf("unknown scenario kind %q", sc.K)
		}
		return nil
	})
}

// guard runs a call into lal and reports a panic of the code under test as a string ("" = none).
func guard(f func()) (p string) {
	defer func() {
		if r := recover(); r != nil {
			p = fmt.Sprint(r)
			if len(p) > 60 {
				p = p[:60]
			}
		}
	}()
	f()
	return ""
}

// ---------------------------------------------------------------------------- k=sps

func codecSps(tw *TraceWriter, sc *codecScenario) {
	t := sc.T
	if t.Co == nil {
		t.Co = []int{0, 0, 0, 0}
	}
	if t.Codec == "h264" {
		b, epb := proj.WriteH264Sps(t)
		var ctx avc.Context
		var err error
		pan := guard(func() { err = avc.ParseSps(b, &ctx) })
		tw.Emit(M{"ev": "Sps", "t": t, "panic": pan, "ok": err == nil && pan == "", "w": int(ctx.Width), "h": int(ctx.Height), "n": len(b), "epb": epb,
			"profile": int(ctx.Profile), "level": int(ctx.Level), "hex": hex.EncodeToString(b)})
		return
	}
	b, epb := proj.WriteH265Sps(t)
	var ctx hevc.Context
	var err error
	pan := guard(func() { err = hevc.ParseSps(b, &ctx) })
	tw.Emit(M{"ev": "Sps", "t": t, "panic": pan, "ok": err == nil && pan == "", "w": int(ctx.PicWidthInLumaSamples), "h": int(ctx.PicHeightInLumaSamples),
		"n": len(b), "epb": epb, "profile": int(ctx.GeneralProfileIdc), "level": int(ctx.GeneralLevelIdc), "hex": hex.EncodeToString(b)})
}

// ---------------------------------------------------------------------------- k=car

func setKinds(codec string) []string {
	if codec == "h264" {
		return []string{"sps", "pps"}
	}
	return []string{"vps", "sps", "pps"}
}

func nonNil(l ...[]byte) [][]byte {
	out := [][]byte{}
	for _, x := range l {
		if x != nil {
			out = append(out, x)
		}
	}
	return out
}

func extSdpVideo(codec string, sets [][]byte) []byte {
	e := func(b []byte) string { return base64.StdEncoding.EncodeToString(b) }
	s := "v=0\r\no=- 1 1 IN IP4 10.0.0.1\r\ns=x\r\nc=IN IP4 0.0.0.0\r\nt=0 0\r\na=control:*\r\n"
	if codec == "h264" {
		s += "m=video 0 RTP/AVP 102\r\na=rtpmap:102 H264/90000\r\na=fmtp:102 profile-level-id=64001f;packetization-mode=1;sprop-parameter-sets=" +
			e(sets[0]) + "," + e(sets[1]) + "\r\na=control:trackID=7\r\n"
	} else {
		s += "m=video 0 RTP/AVP 103\r\na=rtpmap:103 H265/90000\r\na=fmtp:103 sprop-vps=" + e(sets[0]) + ";sprop-sps=" + e(sets[1]) +
			";sprop-pps=" + e(sets[2]) + "\r\na=control:trackID=7\r\n"
	}
	return []byte(s)
}

func codecCar(tw *TraceWriter, sc *codecScenario) {
	kinds := setKinds(sc.Codec)
	orig := map[string][]byte{}
	origViews := []proj.SetView{}
	sets := [][]byte{}
	for i, k := range kinds {
		b := proj.GenSet(sc.Codec, k, sc.Lens[i], sc.Cls)
		orig[k] = b
		sets = append(sets, b)
		origViews = append(origViews, proj.SetView{K: k, N: len(b), Eq: true})
	}
	tw.Emit(M{"ev": "reset", "sc": sc.Sc, "k": sc.K, "codec": sc.Codec, "sets": origViews, "cls": sc.Cls,
		"min": []int{proj.MinSet(sc.Codec, "vps"), proj.MinSet(sc.Codec, "sps"), proj.MinSet(sc.Codec, "pps")}})
	var buf []byte
	h264 := sc.Codec == "h264"
	for _, edge := range sc.Path {
		var err error
		rec := M{}
		var found [][]byte
		need := func() bool { return len(sets) == len(kinds) }
		fromBare := map[string]bool{"ext.seq": true, "build": true, "bare2anb": true, "ext.anb": true, "sdp.pack": true, "ext.sdp": true}
		if fromBare[edge] && !need() {
			tw.Emit(M{"ev": "Step", "edge": edge, "ok": false, "sets": []proj.SetView{}, "rec": rec})
			return
		}
		pan := guard(func() {
			switch edge {
			case "ext.seq":
				if h264 {
					buf = proj.WriteAvcSeqHeader(sets[0], sets[1])
				} else {
					buf = proj.WriteHevcSeqHeader(sets[0], sets[1], sets[2])
				}
			case "build":
				if !need() {
					err = fmt.Errorf("sets missing")
				} else if h264 {
					buf, err = avc.BuildSeqHeaderFromSpsPps(sets[0], sets[1])
				} else {
					buf, err = hevc.BuildSeqHeaderFromVpsSpsPps(sets[0], sets[1], sets[2])
				}
			case "parse":
				if h264 {
					var s, p []byte
					s, p, err = avc.ParseSpsPpsFromSeqHeader(buf)
					sets = nonNil(s, p)
				} else {
					var v, s, p []byte
					v, s, p, err = hevc.ParseVpsSpsPpsFromSeqHeader(buf)
					sets = nonNil(v, s, p)
				}
			case "seq2anb":
				buf, err = h2645.SeqHeader2Annexb(h264, buf)
			case "bare2anb":
				if !need() {
					err = fmt.Errorf("sets missing")
				} else if h264 {
					buf = avc.BuildSpsPps2Annexb(sets[0], sets[1])
				} else {
					buf, err = hevc.BuildVpsSpsPps2Annexb(sets[0], sets[1], sets[2])
				}
			case "ext.anb":
				sc3 := []int{3, 4, 3}
				buf = proj.WriteAnnexB(sets, sc3[:len(sets)], 0)
			case "splitanb":
				sets, err = avc.SplitNaluAnnexb(buf)
				if sets == nil {
					sets = [][]byte{}
				}
			case "sdp.pack":
				if !need() {
					err = fmt.Errorf("sets missing")
					break
				}
				var ctx sdp.LogicContext
				vi := sdp.VideoInfo{VideoPt: base.AvPacketPtAvc, Sps: sets[0], Pps: sets[1]}
				if !h264 {
					vi = sdp.VideoInfo{VideoPt: base.AvPacketPtHevc, Vps: sets[0], Sps: sets[1], Pps: sets[2]}
				}
				ctx, err = sdp.Pack(vi, sdp.AudioInfo{AudioPt: base.AvPacketPtUnknown})
				buf = ctx.RawSdp
			case "ext.sdp":
				buf = extSdpVideo(sc.Codec, sets)
			case "sdp.parse":
				var ctx sdp.LogicContext
				ctx, err = sdp.ParseSdp2LogicContext(buf)
				sets = nonNil(ctx.Vps, ctx.Sps, ctx.Pps)
			default:
				err = fmt.Errorf("unknown edge")
			}
		})
		if pan != "" {
			err = fmt.Errorf("panic: %s", pan)
		}
		if err != nil {
			tw.Emit(M{"ev": "Step", "edge": edge, "ok": false, "sets": []proj.SetView{}, "rec": rec, "err": err.Error()})
			return
		}
		// projection of the node just reached
		switch edge {
		case "ext.seq", "build":
			if h264 {
				r := proj.ReadAvcSeqHeader(buf)
				found = r.Sets
				rec = M{"tag": r.Tag, "version": r.Version, "profile": r.Profile, "level": r.Level, "lenSize": r.LenSize,
					"counts": []int{r.Nsps, r.Npps}, "trail": r.Trail, "bad": r.Bad,
					"spsProfile": byteAt(orig["sps"], 1), "spsLevel": byteAt(orig["sps"], 3)}
			} else {
				r := proj.ReadHevcSeqHeader(buf)
				found = r.Sets
				rec = M{"tag": r.Tag, "version": r.Version, "lenSize": r.LenSize, "arrays": r.Arrays, "counts": r.Counts,
					"trail": r.Trail, "bad": r.Bad}
			}
		case "seq2anb", "bare2anb", "ext.anb":
			found = proj.SplitAnnexB(buf)
		case "sdp.pack", "ext.sdp":
			ms := proj.ReadSdp(buf)
			for _, m := range ms {
				if m.Media == "video" {
					v := proj.ViewSdpMedia(m, codecBaseURL, orig)
					tw.Emit(M{"ev": "Step", "edge": edge, "ok": true, "sets": canon(v.Sets), "rec": rec})
				}
			}
			continue
		default:
			found = sets
		}
		tw.Emit(M{"ev": "Step", "edge": edge, "ok": true, "sets": proj.ViewSets(sc.Codec, found, orig), "rec": rec})
	}
}

func byteAt(b []byte, i int) int {
	if i < len(b) {
		return int(b[i])
	}
	return -1
}

// canon orders set views vps, sps, pps (an SDP attribute list has no inherent order).
func canon(v []proj.SetView) []proj.SetView {
	out := []proj.SetView{}
	for _, k := range []string{"vps", "sps", "pps", "asc"} {
		for _, x := range v {
			if x.K == k {
				out = append(out, x)
			}
		}
	}
	for _, x := range v {
		if x.K != "vps" && x.K != "sps" && x.K != "pps" && x.K != "asc" {
			out = append(out, x)
		}
	}
	return out
}

// ---------------------------------------------------------------------------- k=nal

func viewUnits(l [][]byte) []proj.UnitView {
	out := []proj.UnitView{}
	for _, u := range l {
		out = append(out, proj.ViewUnit(u))
	}
	return out
}

func codecNal(tw *TraceWriter, sc *codecScenario) {
	list := [][]byte{}
	for i, u := range sc.Units {
		list = append(list, u.Bytes(i+1))
	}
	tw.Emit(M{"ev": "reset", "sc": sc.Sc, "k": sc.K, "units": viewUnits(list), "scs": sc.Scs, "tz": sc.Tz})
	var buf []byte
	for _, edge := range sc.Path {
		var err error
		wf := true
		var found [][]byte
		pan := guard(func() {
			switch edge {
			case "join":
				buf = h2645.JoinNaluAvcc(list...)
				found, wf = proj.SplitAvcc(buf)
			case "ext.avcc":
				buf = proj.WriteAvcc(list)
				found, wf = proj.SplitAvcc(buf)
			case "ext.anb":
				buf = proj.WriteAnnexB(list, sc.Scs, sc.Tz)
				found = proj.SplitAnnexB(buf)
			case "avcc2anb":
				buf, err = avc.Avcc2Annexb(buf)
				found = proj.SplitAnnexB(buf)
			case "anb2avcc":
				buf, err = avc.Annexb2Avcc(buf)
				found, wf = proj.SplitAvcc(buf)
			case "split.avcc":
				list, err = avc.SplitNaluAvcc(buf)
				found = list
			case "split.anb":
				list, err = avc.SplitNaluAnnexb(buf)
				found = list
			default:
				err = fmt.Errorf("unknown edge")
			}
		})
		if pan != "" {
			err = fmt.Errorf("panic: %s", pan)
		}
		tw.Emit(M{"ev": "NStep", "edge": edge, "ok": err == nil, "wf": wf, "units": viewUnits(found)})
		if err != nil {
			return
		}
	}
}

// ---------------------------------------------------------------------------- k=aac

func codecAac(tw *TraceWriter, sc *codecScenario) {
	orig := sc.Asc.Bytes()
	rate := 0
	if sc.Asc.Fi < len(proj.AacRates) {
		rate = proj.AacRates[sc.Asc.Fi]
	}
	tw.Emit(M{"ev": "reset", "sc": sc.Sc, "k": sc.K, "asc": proj.ViewAsc(orig, orig), "flen": sc.Flen, "rate": rate})
	buf := orig
	for _, edge := range sc.Path {
		var err error
		hdr := M{}
		var view proj.AscView
		pan := guard(func() {
			switch edge {
			case "seq":
				buf, err = aac.MakeAudioDataSeqHeaderWithAsc(buf)
			case "seq2asc":
				// lal's convention everywhere (remux.Rtmp2RtspRemuxer, hls, ...): the ASC is the payload after two bytes
				msg := base.RtmpMsg{Header: base.RtmpHeader{MsgTypeId: base.RtmpTypeIdAudio}, Payload: buf}
				if !msg.IsAacSeqHeader() {
					err = fmt.Errorf("not an aac sequence header")
				} else {
					buf = msg.Clone().Payload[2:]
				}
			case "adts":
				var c *aac.AscContext
				if c, err = aac.NewAscContext(buf); err == nil {
					buf = c.PackAdtsHeader(sc.Flen)
				}
			case "adts2asc":
				buf, err = aac.MakeAscWithAdtsHeader(buf)
			case "adts2seq":
				buf, err = aac.MakeAudioDataSeqHeaderWithAdtsHeader(buf)
			case "sdp.pack":
				var ctx sdp.LogicContext
				ctx, err = sdp.Pack(sdp.VideoInfo{VideoPt: base.AvPacketPtUnknown},
					sdp.AudioInfo{AudioPt: base.AvPacketPtAac, SamplingFrequency: rate, Asc: buf})
				buf = ctx.RawSdp
			case "sdp.parse":
				var ctx sdp.LogicContext
				ctx, err = sdp.ParseSdp2LogicContext(buf)
				buf = ctx.Asc
			default:
				err = fmt.Errorf("unknown edge")
			}
		})
		if pan != "" {
			err = fmt.Errorf("panic: %s", pan)
		}
		if err != nil {
			tw.Emit(M{"ev": "AStep", "edge": edge, "ok": false, "asc": proj.ViewAsc(nil, orig), "hdr": hdr})
			return
		}
		switch edge {
		case "seq", "adts2seq":
			if len(buf) >= 2 {
				hdr = M{"tag": []int{int(buf[0]), int(buf[1])}}
				view = proj.ViewAsc(buf[2:], orig)
			} else {
				hdr = M{"tag": []int{}}
				view = proj.ViewAsc(nil, orig)
			}
		case "adts":
			h := proj.ReadAdts(buf)
			b, _ := json.Marshal(h)
			json.Unmarshal(b, &hdr)
			view = proj.ViewAsc(proj.Asc{Ot: h.Profile + 1, Fi: h.Fi, Ch: h.Ch}.Bytes(), orig)
		case "sdp.pack":
			view = proj.ViewAsc(nil, orig)
			for _, m := range proj.ReadSdp(buf) {
				if m.Media == "audio" && len(m.Fmts) > 0 {
					if c, ok := m.Fmtp[m.Fmts[0]]["config"]; ok {
						view = proj.ViewAsc(hexBytes(c), orig)
					}
					v := proj.ViewSdpMedia(m, codecBaseURL, map[string][]byte{"asc": orig})
					hdr = M{"codec": v.Codec, "rate": v.Rate}
				}
			}
		default:
			view = proj.ViewAsc(buf, orig)
		}
		tw.Emit(M{"ev": "AStep", "edge": edge, "ok": true, "asc": view, "hdr": hdr})
	}
}

func hexBytes(s string) []byte {
	out := []byte{}
	if len(s)%2 != 0 {
		return out
	}
	for i := 0; i+1 < len(s); i += 2 {
		var v int
		if _, err := fmt.Sscanf(s[i:i+2], "%02x", &v); err != nil {
			return []byte{}
		}
		out = append(out, byte(v))
	}
	return out
}

// ---------------------------------------------------------------------------- k=sdp

func lalCodecName(pt base.AvPacketPt) string {
	switch pt {
	case base.AvPacketPtAvc:
		return "H264"
	case base.AvPacketPtHevc:
		return "H265"
	case base.AvPacketPtAac:
		return "AAC"
	case base.AvPacketPtG711A:
		return "PCMA"
	case base.AvPacketPtG711U:
		return "PCMU"
	case base.AvPacketPtOpus:
		return "OPUS"
	}
	return "unknown"
}

func lalSdpViews(ctx *sdp.LogicContext, vcodec string, orig map[string][]byte) (proj.SdpView, proj.SdpView) {
	v, a := proj.NoMedia, proj.NoMedia
	if ctx.HasVideoAControl() || ctx.VideoClockRate != 0 || ctx.Sps != nil {
		v = proj.SdpView{Codec: lalCodecName(ctx.GetVideoPayloadTypeBase()), Pt: -1, Rate: ctx.VideoClockRate,
			Ctl: ctx.MakeVideoSetupUri(codecBaseURL)}
		for t := 0; t < 128; t++ {
			if ctx.IsVideoPayloadTypeOrigin(t) {
				v.Pt = t
				break
			}
		}
		v.Sets = proj.ViewSets(vcodec, nonNil(ctx.Vps, ctx.Sps, ctx.Pps), orig)
	}
	if ctx.HasAudioAControl() || ctx.AudioClockRate != 0 || ctx.Asc != nil {
		a = proj.SdpView{Codec: lalCodecName(ctx.GetAudioPayloadTypeBase()), Pt: -1, Rate: ctx.AudioClockRate,
			Ctl: ctx.MakeAudioSetupUri(codecBaseURL), Sets: []proj.SetView{}}
		for t := 0; t < 128; t++ {
			if ctx.IsAudioPayloadTypeOrigin(t) {
				a.Pt = t
				break
			}
		}
		if ctx.Asc != nil {
			a.Sets = []proj.SetView{{K: "asc", N: len(ctx.Asc), Eq: string(ctx.Asc) == string(orig["asc"])}}
		}
	}
	return v, a
}

func codecSdp(tw *TraceWriter, sc *codecScenario) {
	orig := map[string][]byte{}
	vcodec := "h264"
	if sc.V == "H265" {
		vcodec = "h265"
	}
	var vi sdp.VideoInfo
	vi.VideoPt = base.AvPacketPtUnknown
	if sc.V != "none" {
		for i, k := range setKinds(vcodec) {
			orig[k] = proj.GenSet(vcodec, k, sc.Lens[i], sc.Cls)
		}
		vi = sdp.VideoInfo{VideoPt: base.AvPacketPtAvc, Sps: orig["sps"], Pps: orig["pps"]}
		if sc.V == "H265" {
			vi.VideoPt = base.AvPacketPtHevc
			vi.Vps = orig["vps"]
		}
	}
	ai := sdp.AudioInfo{AudioPt: base.AvPacketPtUnknown}
	rate := 0
	switch sc.A {
	case "AAC":
		orig["asc"] = sc.Asc.Bytes()
		if sc.Asc.Fi < len(proj.AacRates) {
			rate = proj.AacRates[sc.Asc.Fi]
		}
		ai = sdp.AudioInfo{AudioPt: base.AvPacketPtAac, SamplingFrequency: rate, Asc: orig["asc"]}
	case "PCMA":
		rate = 8000
		ai = sdp.AudioInfo{AudioPt: base.AvPacketPtG711A, SamplingFrequency: rate}
	case "PCMU":
		rate = 8000
		ai = sdp.AudioInfo{AudioPt: base.AvPacketPtG711U, SamplingFrequency: rate}
	case "OPUS":
		rate = 48000
		ai = sdp.AudioInfo{AudioPt: base.AvPacketPtOpus, SamplingFrequency: rate}
	}
	var ctx sdp.LogicContext
	var err error
	got := false
	if sc.Via == "remux" {
		r := remux.NewRtmp2RtspRemuxer(func(c sdp.LogicContext) { ctx = c; got = true }, func(pkt rtprtcp.RtpPacket) {})
		// as rtmp.ChunkComposer does: one buffer per chunk stream, reused for the next message of that stream - whatever
		// the remuxer keeps of a message must be a copy of its own
		bufs := map[uint8][]byte{}
		feed := func(typ uint8, p []byte) {
			b := append(bufs[typ][:0], p...)
			bufs[typ] = b
			r.FeedRtmpMsg(base.RtmpMsg{Header: base.RtmpHeader{MsgTypeId: typ, MsgLen: uint32(len(b))}, Payload: b})
			for i := range b {
				b[i] ^= 0x5a
			}
		}
		audio := func() {
			switch sc.A {
			case "AAC":
				feed(base.RtmpTypeIdAudio, append([]byte{0xaf, 0}, orig["asc"]...))
			case "PCMA":
				feed(base.RtmpTypeIdAudio, []byte{0x72, 0x55, 0x55, 0x55})
			case "PCMU":
				feed(base.RtmpTypeIdAudio, []byte{0x82, 0x55, 0x55, 0x55})
			case "OPUS":
				feed(base.RtmpTypeIdAudio, []byte{0xd2, 0x55, 0x55, 0x55})
			}
		}
		video := func() {
			if sc.V == "H264" {
				feed(base.RtmpTypeIdVideo, proj.WriteAvcSeqHeader(orig["sps"], orig["pps"]))
			} else {
				feed(base.RtmpTypeIdVideo, proj.WriteHevcSeqHeader(orig["vps"], orig["sps"], orig["pps"]))
			}
		}
		frames := func(n int) {
			hd := byte(0x17)
			if sc.V != "H264" {
				hd = 0x1c
			}
			for i := 0; i < n && !got; i++ {
				feed(base.RtmpTypeIdVideo, append([]byte{hd, 1, 0, 0, 0, 0, 0, 0, 40}, bytes.Repeat([]byte{0x65, byte(i)}, 20)...))
			}
		}
		// the order of the first messages (by scenario): audio header first; video header, pictures, then a late audio
		// header; pictures only until the remuxer stops waiting for a second track
		switch {
		case sc.A == "" || sc.A == "none":
			video()
			frames(40)
		case sc.Sc%2 == 0:
			audio()
			video()
		default:
			video()
			frames(3)
			audio()
		}
		if !got {
			err = fmt.Errorf("no sdp")
		}
	} else {
		ctx, err = sdp.Pack(vi, ai)
	}
	ev := M{"ev": "Sdp", "v": sc.V, "a": sc.A, "via": sc.Via, "rate": rate, "ok": err == nil, "nv": len(setKinds(vcodec)),
		"lens": sc.Lens, "ascn": len(orig["asc"]), "cls": sc.Cls}
	none := M{"v": proj.NoMedia, "a": proj.NoMedia}
	ev["lal"], ev["lal2"], ev["rfc"] = none, none, none
	ev["nmedia"] = 0
	if err == nil {
		lv, la := lalSdpViews(&ctx, vcodec, orig)
		ev["lal"] = M{"v": lv, "a": la}
		ctx2, err2 := sdp.ParseSdp2LogicContext(ctx.RawSdp)
		if err2 == nil {
			lv2, la2 := lalSdpViews(&ctx2, vcodec, orig)
			ev["lal2"] = M{"v": lv2, "a": la2}
		}
		rv, ra := proj.NoMedia, proj.NoMedia
		ms := proj.ReadSdp(ctx.RawSdp)
		ev["nmedia"] = len(ms)
		for _, m := range ms {
			x := proj.ViewSdpMedia(m, codecBaseURL, orig)
			x.Sets = canon(x.Sets)
			if m.Media == "video" {
				rv = x
			} else if m.Media == "audio" {
				ra = x
			}
		}
		ev["rfc"] = M{"v": rv, "a": ra}
	}
	tw.Emit(ev)
}

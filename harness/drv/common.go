// Package drv holds one driver per specification: each maps abstract actions to calls of the
// real lal code and projects what the code did to abstract trace events.
package drv

import (
	"bufio"
	"bytes"
	"encoding/json"
	"fmt"
	"os"
	"os/exec"
	"strings"
	"time"
)

type Env struct {
	In, Out string
	Seed    int64
	Child   string
	Args    []string
}

type Driver func(*Env) error

var Registry = map[string]Driver{}

type M = map[string]interface{}

// ReadScenarios parses one JSON object per line.
func ReadScenarios(path string, f func(raw json.RawMessage) error) error {
	fp, err := os.Open(path)
	if err != nil {
		return err
	}
	defer fp.Close()
	sc := bufio.NewScanner(fp)
	sc.Buffer(make([]byte, 1<<20), 1<<28)
	for sc.Scan() {
		b := sc.Bytes()
		if len(b) == 0 {
			continue
		}
		cp := make([]byte, len(b))
		copy(cp, b)
		if err := f(cp); err != nil {
			return err
		}
	}
	return sc.Err()
}

type TraceWriter struct {
	fp *os.File
	w  *bufio.Writer
}

func NewTraceWriter(path string) (*TraceWriter, error) {
	fp, err := os.Create(path)
	if err != nil {
		return nil, err
	}
	return &TraceWriter{fp: fp, w: bufio.NewWriterSize(fp, 1<<20)}, nil
}

func (t *TraceWriter) Emit(ev interface{}) {
	b, err := json.Marshal(ev)
	if err != nil {
		panic(err)
	}
	t.w.Write(b)
	t.w.WriteByte('\n')
}

func (t *TraceWriter) Flush() { t.w.Flush() }

// NewMemTraceWriter collects the events in memory (for scenarios that run in parallel and are
// written out in scenario order afterwards).
func NewMemTraceWriter(buf *bytes.Buffer) *TraceWriter {
	return &TraceWriter{w: bufio.NewWriterSize(buf, 1<<16)}
}

// Raw appends already encoded lines.
func (t *TraceWriter) Raw(b []byte) { t.w.Write(b) }

func (t *TraceWriter) Close() error {
	t.w.Flush()
	return t.fp.Close()
}

// RunChild re-executes this binary on a single scenario so that a crash of the code under test
// (panic, fatal runtime error such as stack exhaustion) is observed instead of killing the driver.
// It returns the trace lines the child wrote, whether it died, and the tail of its stderr.
func RunChild(driver string, scen interface{}, seed int64, timeoutSec int) (lines []json.RawMessage, died bool, stderrTail string) {
	dir, err := os.MkdirTemp("", "lalverif-child")
	if err != nil {
		return nil, true, err.Error()
	}
	defer os.RemoveAll(dir)
	in, out := dir+"/in.ndjson", dir+"/out.ndjson"
	b, _ := json.Marshal(scen)
	os.WriteFile(in, append(b, '\n'), 0644)
	cmd := exec.Command(os.Args[0], "-driver", driver, "-in", in, "-out", out, "-seed", fmt.Sprint(seed), "-child", "1")
	var eb bytes.Buffer
	cmd.Stderr = &eb
	cmd.Stdout = &eb
	done := make(chan error, 1)
	if err := cmd.Start(); err != nil {
		return nil, true, err.Error()
	}
	go func() { done <- cmd.Wait() }()
	select {
	case err = <-done:
	case <-time.After(time.Duration(timeoutSec) * time.Second):
		cmd.Process.Kill()
		<-done
		err = fmt.Errorf("timeout")
		eb.WriteString("\nCHILD-TIMEOUT\n")
	}
	if ob, e2 := os.ReadFile(out); e2 == nil {
		for _, l := range bytes.Split(ob, []byte("\n")) {
			if len(l) > 0 {
				lines = append(lines, json.RawMessage(append([]byte{}, l...)))
			}
		}
	}
	s := eb.String()
	if len(s) > 6000 {
		s = s[:3000] + "\n...\n" + s[len(s)-3000:]
	}
	return lines, err != nil, s
}

// PanicSig extracts (kind, innermost lal frame) from a Go crash dump.
func PanicSig(stderr string) (kind string, frame string) {
	kind = "unknown"
	for _, l := range strings.Split(stderr, "\n") {
		if strings.HasPrefix(l, "panic: ") || strings.HasPrefix(l, "fatal error: ") || strings.HasPrefix(l, "runtime: goroutine stack exceeds") {
			kind = l
			if len(kind) > 80 {
				kind = kind[:80]
			}
			break
		}
	}
	if strings.Contains(stderr, "CHILD-TIMEOUT") {
		kind = "timeout"
	}
	for _, l := range strings.Split(stderr, "\n") {
		if strings.HasPrefix(l, "github.com/q191201771/lal/pkg/") {
			frame = l
			if i := strings.Index(frame, "("); i > 0 {
				frame = frame[:i]
			}
			frame = strings.TrimPrefix(frame, "github.com/q191201771/lal/pkg/")
			break
		}
	}
	return
}

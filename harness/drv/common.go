// Package drv holds one driver per specification: each maps abstract actions to calls of the
// real lal code and projects what the code did to abstract trace events.
package drv

import (
	"bufio"
	"encoding/json"
	"os"
)

type Env struct {
	In, Out string
	Seed    int64
	Child   string
	Args    []string
}

type Driver func(*Env) error

var Registry = map[string]Driver{}

type M = map[string]interface{}

// ReadScenarios parses one JSON object per line.
func ReadScenarios(path string, f func(raw json.RawMessage) error) error {
	fp, err := os.Open(path)
	if err != nil {
		return err
	}
	defer fp.Close()
	sc := bufio.NewScanner(fp)
	sc.Buffer(make([]byte, 1<<20), 1<<28)
	for sc.Scan() {
		b := sc.Bytes()
		if len(b) == 0 {
			continue
		}
		cp := make([]byte, len(b))
		copy(cp, b)
		if err := f(cp); err != nil {
			return err
		}
	}
	return sc.Err()
}

type TraceWriter struct {
	fp *os.File
	w  *bufio.Writer
}

func NewTraceWriter(path string) (*TraceWriter, error) {
	fp, err := os.Create(path)
	if err != nil {
		return nil, err
	}
	return &TraceWriter{fp: fp, w: bufio.NewWriterSize(fp, 1<<20)}, nil
}

func (t *TraceWriter) Emit(ev interface{}) {
	b, err := json.Marshal(ev)
	if err != nil {
		panic(err)
	}
	t.w.Write(b)
	t.w.WriteByte('\n')
}

func (t *TraceWriter) Flush() { t.w.Flush() }

func (t *TraceWriter) Close() error {
	t.w.Flush()
	return t.fp.Close()
}

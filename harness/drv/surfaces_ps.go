package drv

import (
	"encoding/json"
	"fmt"

	"github.com/q191201771/lal/pkg/base"
	"github.com/q191201771/lal/pkg/gb28181"
	"github.com/q191201771/lal/pkg/remux"

	"lalverif/proj"
)

// GB28181: the elements of a scenario are sent as RTP packets (one element per packet, possibly
// cut, possibly with a malformed RTP header) to a gb28181.PsUnpacker wired the way
// logic.Group.StartRtpPub wires it (AvPacket2RtmpRemuxer with Annex-B / ADTS options feeding the
// group of a real ServerManager, which has HLS and the other remuxers attached).  The unpacker is
// what PubSession.feedPacket calls for every datagram (UDP) or 2-byte-length frame (TCP).

type sfPsFeeder struct {
	u    *gb28181.PsUnpacker
	n    int
	seq  int
	hole int
}

func (e *sfEnv) newPsFeeder(stream string) (*sfPsFeeder, func(), error) {
	sm := e.server()
	ctx, err := sm.AddCustomizePubSession(stream)
	if err != nil {
		return nil, nil, err
	}
	r := remux.NewAvPacket2RtmpRemuxer()
	r.WithOption(func(option *base.AvPacketStreamOption) {
		option.VideoFormat = base.AvPacketStreamVideoFormatAnnexb
		option.AudioFormat = base.AvPacketStreamAudioFormatAdtsAac
	})
	f := &sfPsFeeder{seq: 1000}
	r.WithOnRtmpMsg(func(msg base.RtmpMsg) {
		f.n++
		_ = ctx.FeedRtmpMsg(msg)
	})
	f.u = gb28181.NewPsUnpacker().WithOnAvPacket(func(pkt *base.AvPacket) { r.OnAvPacket(*pkt) })
	return f, func() { sm.DelCustomizePubSession(ctx) }, nil
}

func (f *sfPsFeeder) feed(hdr string, n int, ts uint32, body []byte) {
	f.seq++
	_ = f.u.FeedRtpPacket(proj.SfRtpDatagram(hdr, n, true, 96, f.seq, ts, 0x33333333, body))
}

// feedAt sends a well-formed RTP packet with sequence number class cls relative to what was sent before:
// next | gap (one number skipped) | hole (the skipped number) | back (an old number).
func (f *sfPsFeeder) feedAt(cls string, ts uint32, body []byte) {
	seq := f.seq + 1
	switch cls {
	case "gap":
		f.hole = f.seq + 1
		seq = f.seq + 2
	case "hole":
		if f.hole != 0 {
			seq = f.hole
			f.hole = 0
		}
	case "back":
		seq = f.seq - 5
	}
	if seq > f.seq {
		f.seq = seq
	}
	_ = f.u.FeedRtpPacket(proj.SfRtpDatagram("ok", 0, true, 96, seq&0xffff, ts, 0x33333333, body))
}

// sfPsListLimit is gb28181's bound on cached out-of-order packets (maxUnpackRtpListSize); "fill" elements
// send somewhat more than that many packets.
const sfPsListLimit = 1024

func sfPsGoodUnit(t int64) []byte {
	var b []byte
	b = append(b, proj.SfPsElem("pack", "ok", t)...)
	b = append(b, proj.SfPsElem("sys", "ok", t)...)
	b = append(b, proj.SfPsElem("psm", "avc", t)...)
	b = append(b, proj.SfPsElem("pesv", "ok", t)...)
	b = append(b, proj.SfPsElem("pesa", "ok", t)...)
	return b
}

// runPsq: RTP sequencing of the GB28181 surface: well-formed / unknown-start-code / continuation packets
// arriving in order, after a gap, into a gap or late, and "fill" elements that push the reorder list to
// its limit.
func (e *sfEnv) runPsq(sc *sfScenario, end M) (obs []sfObs) {
	f, del, err := e.newPsFeeder(fmt.Sprintf("p%d", sc.Sc))
	if err != nil {
		end["note"] = "add pub failed"
		return
	}
	if sc.Cfg["pre"] == "good" {
		f.feedGood(90000)
	}
	cont := make([]byte, 100)
	for i := range cont {
		cont[i] = 0x55
	}
	bad := []byte{0xff, 0xff, 0xff, 0xff, 0xff, 0xff, 0xff, 0xff}
	for i, raw := range sc.Steps {
		var el sfEl
		json.Unmarshal(raw, &el)
		pts := int64(180000 + 3600*i)
		switch el.K {
		case "good":
			f.feedAt(el.A, uint32(pts), sfPsGoodUnit(pts))
		case "bad":
			f.feedAt(el.A, uint32(pts), bad)
		case "cont":
			f.feedAt(el.A, uint32(pts), cont)
		case "fill":
			// one packet in order (after a reset of the unpacker's list any number is taken as the next one),
			// then a gap, then more packets than the list holds
			f.feedAt("next", uint32(pts), sfPsGoodUnit(pts))
			cls := "gap"
			for k := 0; k < sfPsListLimit+80; k++ {
				switch el.A {
				case "consec_nosc":
					f.feedAt(cls, uint32(pts), cont)
				case "consec_sc":
					f.feedAt(cls, uint32(pts), proj.SfPsElem("pesv", "ok", pts+int64(k)))
				case "consec_bad":
					f.feedAt(cls, uint32(pts), bad)
				case "gapped":
					f.feedAt("gap", uint32(pts), cont)
				}
				cls = "next"
			}
		}
		obs = append(obs, sfObs{Codes: []int{}, Alive: true})
	}
	del()
	f2, del2, err := e.newPsFeeder(fmt.Sprintf("q%d", sc.Sc))
	if err == nil {
		end["second"] = f2.feedGood(90000) > 0
		del2()
	}
	end["bystander"] = true
	return
}

// feedGood sends one well-formed access unit (pack header, system header, PSM, video PES, audio PES).
func (f *sfPsFeeder) feedGood(pts int64) int {
	n0 := f.n
	for r := int64(0); r < 3; r++ {
		t := pts + 3600*r
		var b []byte
		b = append(b, proj.SfPsElem("pack", "ok", t)...)
		b = append(b, proj.SfPsElem("sys", "ok", t)...)
		b = append(b, proj.SfPsElem("psm", "avc", t)...)
		b = append(b, proj.SfPsElem("pesv", "ok", t)...)
		b = append(b, proj.SfPsElem("pesa", "ok", t)...)
		f.feed("ok", 0, uint32(t), b)
	}
	return f.n - n0
}

func (e *sfEnv) runPs(sc *sfScenario, end M) (obs []sfObs) {
	f, del, err := e.newPsFeeder(fmt.Sprintf("p%d", sc.Sc))
	if err != nil {
		end["note"] = "add pub failed"
		return
	}
	if sc.Cfg["pre"] == "good" {
		f.feedGood(90000)
	}
	for i, raw := range sc.Steps {
		var el sfEl
		json.Unmarshal(raw, &el)
		pts := int64(180000 + 3600*i)
		b := proj.SfPsElem(el.K, el.A, pts)
		if el.B == "cut" {
			// n cuts the RTP packet (header + element), not the element
			f.feed("cut", el.N, uint32(pts), b)
			obs = append(obs, sfObs{Codes: []int{}, Alive: true})
			continue
		}
		if el.N >= 0 && el.N < len(b) {
			b = b[:el.N]
		}
		f.feed(el.B, 0, uint32(pts), b)
		obs = append(obs, sfObs{Codes: []int{}, Alive: true})
	}
	// two more well-formed video PES packets with later time stamps make the unpacker hand over what it buffered
	for r := 0; r < 2; r++ {
		pts := int64(360000 + 3600*r)
		f.feed("ok", 0, uint32(pts), proj.SfPsElem("pesv", "ok", pts))
	}
	del()
	// a second, well-formed session on the same server is served: its frames reach the group
	f2, del2, err := e.newPsFeeder(fmt.Sprintf("q%d", sc.Sc))
	if err == nil {
		end["second"] = f2.feedGood(90000) > 0
		del2()
	}
	end["bystander"] = true
	return
}

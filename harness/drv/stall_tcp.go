package drv

import (
	"bufio"
	"fmt"
	"io"
	"net"
	"strings"
	"sync"
	"sync/atomic"
	"time"

	"github.com/q191201771/lal/pkg/logic"
	"github.com/q191201771/lal/pkg/rtmp"
	"github.com/q191201771/lal/pkg/rtsp"

	"lalverif/proj"
)

// Driver "stall", scenarios with cfg.tcp (C15): the consumers are real TCP connections on 127.0.0.1 that go
// through the server's own per-connection routine (rtsp.Server / rtmp.Server . VerifHandleTcpConnect on the
// accepted *net.TCPConn).  What a gated in-memory connection cannot show is the cost of the socket operations
// lal performs while it holds Group.mutex: closing the connection of a consumer whose kernel send buffer is
// full (liveness sweep, kick), arming deadlines, ...  The schedule is fixed: one healthy consumer that reads,
// `stalled` consumers that stop reading after PLAY / play; the publisher sends until the kernel buffers and
// lal's queues are full; then sweep, publish, sweep (the stalled consumers are cut here, under the lock),
// publish, kick of the healthy one, publish.  Every step is an event with its measured duration; TLC judges
// the durations against the bound of the scenario (NoBlocking / "small bound") and that the stalled consumers
// were disconnected by the second sweep.  Nothing else is predicted: what a kernel buffers is not modelled.

type tcpObs struct {
	g        *logic.Group
	departed int32
	mu       sync.Mutex
	rtmpSubs []*rtmp.ServerSession
	rtspSubs []*rtsp.SubSession
}

func (o *tcpObs) OnRtmpConnect(session *rtmp.ServerSession, opa rtmp.ObjectPairArray) {}
func (o *tcpObs) OnNewRtmpPubSession(session *rtmp.ServerSession) error {
	return fmt.Errorf("the stall driver publishes through the group")
}
func (o *tcpObs) OnDelRtmpPubSession(session *rtmp.ServerSession) {}
func (o *tcpObs) OnNewRtmpSubSession(session *rtmp.ServerSession) error {
	o.mu.Lock()
	o.rtmpSubs = append(o.rtmpSubs, session)
	o.mu.Unlock()
	o.g.AddRtmpSubSession(session)
	return nil
}
func (o *tcpObs) OnDelRtmpSubSession(session *rtmp.ServerSession) {
	o.g.DelRtmpSubSession(session)
	atomic.AddInt32(&o.departed, 1)
}
func (o *tcpObs) OnNewRtspSessionConnect(session *rtsp.ServerCommandSession) {}
func (o *tcpObs) OnDelRtspSession(session *rtsp.ServerCommandSession)        {}
func (o *tcpObs) OnNewRtspPubSession(session *rtsp.PubSession) error {
	return fmt.Errorf("the stall driver publishes through the group")
}
func (o *tcpObs) OnDelRtspPubSession(session *rtsp.PubSession) {}
func (o *tcpObs) OnNewRtspSubSessionDescribe(session *rtsp.SubSession) (ok bool, sdp []byte) {
	o.mu.Lock()
	o.rtspSubs = append(o.rtspSubs, session)
	o.mu.Unlock()
	return o.g.HandleNewRtspSubSessionDescribe(session)
}
func (o *tcpObs) OnNewRtspSubSessionPlay(session *rtsp.SubSession) error {
	o.g.HandleNewRtspSubSessionPlay(session)
	return nil
}
func (o *tcpObs) OnDelRtspSubSession(session *rtsp.SubSession) {
	o.g.DelRtspSubSession(session)
	atomic.AddInt32(&o.departed, 1)
}

type tcpClient struct {
	conn net.Conn
	r    *bufio.Reader
	got  int64 // bytes read by a healthy client's reader
	gone int32 // the healthy client's reader has seen the end of its connection
}

// rtspExchange sends one request and reads the response (headers and Content-Length body).
func (c *tcpClient) rtspExchange(req string) (string, error) {
	c.conn.SetDeadline(time.Now().Add(10 * time.Second))
	defer c.conn.SetDeadline(time.Time{})
	if _, err := io.WriteString(c.conn, req); err != nil {
		return "", err
	}
	var sb strings.Builder
	clen := 0
	for {
		l, err := c.r.ReadString('\n')
		if err != nil {
			return "", err
		}
		sb.WriteString(l)
		if i := strings.Index(l, ":"); i > 0 && strings.EqualFold(l[:i], "Content-Length") {
			fmt.Sscanf(strings.TrimSpace(l[i+1:]), "%d", &clen)
		}
		if l == "\r\n" {
			break
		}
	}
	body := make([]byte, clen)
	if _, err := io.ReadFull(c.r, body); err != nil {
		return "", err
	}
	sb.Write(body)
	return sb.String(), nil
}

func runTcpScenario(sc *stScenario, seed int64) (evs []M, err error) {
	proto := sc.Cfg.Proto
	nStalled := sc.Cfg.N
	emit := func(m M) { evs = append(evs, m) }
	emit(M{"ev": "reset", "sc": sc.Sc, "cfgId": sc.CfgId, "proto": proto, "ws": false, "enq": proto == "rtsp", "dl": proto != "rtsp",
		"two": false, "tcp": true, "n": nStalled, "boundUs": sc.Cfg.BoundUs})
	cfg := &logic.Config{}
	cfg.RtmpConfig.Enable = true
	cfg.RtspConfig.Enable = proto == "rtsp"
	cfg.RtspConfig.OutWaitKeyFrameFlag = true
	stream := fmt.Sprintf("t%d", sc.Sc)
	g := logic.NewGroup("live", stream, cfg, logic.GroupOption{}, groupObserver{})
	obs := &tcpObs{g: g}
	ln, e := net.Listen("tcp", "127.0.0.1:0")
	if e != nil {
		return nil, e
	}
	var serve func(net.Conn)
	switch proto {
	case "rtsp":
		srv := rtsp.NewServer(ln.Addr().String(), obs, rtsp.ServerAuthConfig{})
		serve = srv.VerifHandleTcpConnect
	case "rtmp":
		srv := rtmp.NewServer(ln.Addr().String(), obs)
		serve = srv.VerifHandleTcpConnect
	default:
		ln.Close()
		return nil, fmt.Errorf("no tcp variant for protocol %q", proto)
	}
	var routines sync.WaitGroup
	go func() {
		for {
			c, e := ln.Accept()
			if e != nil {
				return
			}
			routines.Add(1)
			go func() { serve(c); routines.Done() }()
		}
	}()
	pub := rtmp.NewServerSession(nullObserver{}, NewMemConn("pub"))
	if e := g.AddRtmpPubSession(pub); e != nil {
		ln.Close()
		return nil, e
	}
	var clients []*tcpClient
	defer func() {
		ln.Close()
		for _, c := range clients {
			c.conn.Close()
		}
		g.DelRtmpPubSession(pub)
		pub.Dispose()
		done := make(chan struct{})
		go func() { routines.Wait(); close(done) }()
		select {
		case <-done:
		case <-time.After(15 * time.Second):
			if err == nil {
				err = fmt.Errorf("a per-connection routine did not end after its peer had closed")
			}
		}
	}()
	nextId := 1
	publish := func(t string, n int) int64 {
		id := nextId
		nextId++
		msg := BuildMsg(&AMsg{Id: id, T: t, Hv: 1, Ha: 2}, n, uint32(40*id))
		t0 := time.Now()
		g.OnReadRtmpAvMsg(msg)
		return time.Since(t0).Microseconds()
	}
	publish("vsh", 0)
	publish("ash", 0)

	// ---- the consumers connect and set their sessions up; the first one keeps reading
	for i := 0; i <= nStalled; i++ {
		conn, e := net.Dial("tcp", ln.Addr().String())
		if e != nil {
			return nil, e
		}
		if tc, ok := conn.(*net.TCPConn); ok && i > 0 {
			_ = tc.SetReadBuffer(16 << 10)
		}
		c := &tcpClient{conn: conn, r: bufio.NewReader(conn)}
		clients = append(clients, c)
		switch proto {
		case "rtsp":
			uri := "rtsp://127.0.0.1/live/" + stream
			resp, e := c.rtspExchange(fmt.Sprintf("DESCRIBE %s RTSP/1.0\r\nCSeq: 1\r\nAccept: application/sdp\r\n\r\n", uri))
			if e != nil {
				return nil, fmt.Errorf("DESCRIBE: %v", e)
			}
			ctrls := stControlRe.FindAllStringSubmatch(resp, -1)
			if len(ctrls) == 0 {
				return nil, fmt.Errorf("no sdp in the answer to DESCRIBE")
			}
			for k, m := range ctrls {
				if _, e := c.rtspExchange(fmt.Sprintf("SETUP %s/%s RTSP/1.0\r\nCSeq: %d\r\nTransport: RTP/AVP/TCP;unicast;interleaved=%d-%d\r\n\r\n",
					uri, m[1], 2+k, 2*k, 2*k+1)); e != nil {
					return nil, fmt.Errorf("SETUP: %v", e)
				}
			}
			if _, e := c.rtspExchange(fmt.Sprintf("PLAY %s RTSP/1.0\r\nCSeq: 9\r\nRange: npt=0.000-\r\n\r\n", uri)); e != nil {
				return nil, fmt.Errorf("PLAY: %v", e)
			}
		case "rtmp":
			enc := proj.NewRsEnc(seed)
			conn.SetDeadline(time.Now().Add(10 * time.Second))
			b, _ := enc.Bytes(proj.RsMsg{M: "c0c1", A: "simple"}, stream)
			conn.Write(b)
			if _, e := io.ReadFull(c.r, make([]byte, 3073)); e != nil {
				return nil, fmt.Errorf("handshake: %v", e)
			}
			for _, m := range []proj.RsMsg{{M: "c2"}, {M: "cmd", A: "connect", S: "ok"}, {M: "cmd", A: "createStream", S: "ok"},
				{M: "cmd", A: "play", S: "ok"}} {
				b, _ := enc.Bytes(m, stream)
				conn.Write(b)
			}
			conn.SetDeadline(time.Time{})
			// the session is a subscriber once the observer has seen its play
			for k := 0; ; k++ {
				obs.mu.Lock()
				n := len(obs.rtmpSubs)
				obs.mu.Unlock()
				if n > i {
					break
				}
				if k > 5000 {
					return nil, fmt.Errorf("the rtmp session never reached play")
				}
				time.Sleep(time.Millisecond)
			}
		}
		if i == 0 {
			go func() {
				buf := make([]byte, 64<<10)
				for {
					n, e := c.r.Read(buf)
					atomic.AddInt64(&c.got, int64(n))
					if e != nil {
						atomic.StoreInt32(&c.gone, 1)
						return
					}
				}
			}()
		}
	}
	healthy := clients[0]
	// wrote: the byte counters by which the liveness sweep judges the stalled consumers
	wrote := func() (sum uint64) {
		obs.mu.Lock()
		defer obs.mu.Unlock()
		for i, x := range obs.rtspSubs {
			if i > 0 {
				sum += x.GetStat().WroteBytesSum
			}
		}
		for i, x := range obs.rtmpSubs {
			if i > 0 {
				sum += x.GetStat().WroteBytesSum
			}
		}
		return
	}
	saturated := false
	// step: one call into lal, its duration, and whether the healthy consumer was handed data within the bound
	step := func(name string, wantData bool, fn func() int64) {
		before := atomic.LoadInt64(&healthy.got)
		goneBefore := atomic.LoadInt32(&healthy.gone) == 1
		t0 := time.Now()
		callUs := fn()
		latUs := int64(0)
		gotData := !wantData
		if wantData {
			for time.Since(t0) < 5*time.Second {
				if atomic.LoadInt64(&healthy.got) > before {
					gotData = true
					latUs = time.Since(t0).Microseconds()
					break
				}
				time.Sleep(200 * time.Microsecond)
			}
		}
		// hgone: the healthy consumer's connection had ended before the step began (lal's sweep found it idle between two
		// ticks, or its queue ran over - the driver's reader did not get the processor): what it receives is not judged
		emit(M{"ev": "Tcp", "step": name, "callUs": callUs, "latUs": latUs, "gotData": gotData, "hgone": goneBefore,
			"departed": int(atomic.LoadInt32(&obs.departed)), "stalled": nStalled, "saturated": saturated})
	}
	timed := func(fn func()) func() int64 {
		return func() int64 { t0 := time.Now(); fn(); return time.Since(t0).Microseconds() }
	}
	// ---- fill: the stalled consumers' kernel buffers and lal's queues (12 MB of key frames; the slowest call counts)
	step("fill", true, func() int64 {
		worst := int64(0)
		publish("key", 40000)
		for k := 0; k < 300; k++ {
			if us := publish("key", 40000); us > worst {
				worst = us
			}
		}
		return worst
	})
	tick := uint32(0)
	// before a sweep every stalled RTSP consumer sends an RTCP receiver report (it does not read, but its RTCP timer
	// runs): a consumer that takes nothing is disconnected whatever it sends
	sweep := func() { tick++; g.Tick(tick) }
	report := func() {
		if proto != "rtsp" {
			return
		}
		for _, c := range clients[1:] {
			c.conn.SetWriteDeadline(time.Now().Add(time.Second))
			c.conn.Write([]byte{'$', 1, 0, 8, 0x80, 201, 0, 1, 1, 2, 3, 4})
		}
		time.Sleep(30 * time.Millisecond) // the command loops take them
	}
	report()
	step("sweep1", false, timed(sweep))
	w0 := wrote()
	step("publish1", true, func() int64 { return publish("key", 40000) })
	// saturated: nothing more was taken for the stalled consumers (kernel buffers and queues are full), so the
	// second sweep has to find them dead
	saturated = wrote() == w0
	report()
	// the stalled consumers have not taken a byte since the first sweep: this one closes their connections, under Group.mutex
	step("sweep2", false, timed(sweep))
	// their per-connection routines report the departures
	for k := 0; k < 3000 && int(atomic.LoadInt32(&obs.departed)) < nStalled; k++ {
		time.Sleep(time.Millisecond)
	}
	step("publish2", true, func() int64 { return publish("key", 40000) })
	// a kick closes a connection from under the lock as well: the healthy consumer's, which has nothing unsent
	step("kick", false, timed(func() {
		obs.mu.Lock()
		defer obs.mu.Unlock()
		if len(obs.rtspSubs) > 0 {
			g.KickSession(obs.rtspSubs[0].UniqueKey())
		} else if len(obs.rtmpSubs) > 0 {
			g.KickSession(obs.rtmpSubs[0].UniqueKey())
		}
	}))
	step("publish3", false, func() int64 { return publish("key", 40000) })
	return evs, nil
}

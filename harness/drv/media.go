package drv

import (
	"bytes"

	"github.com/q191201771/lal/pkg/base"

	"lalverif/proj"
)

// Concretisation of the abstract message alphabet (DESIGN.md appendix B).  Every payload carries
// its message id so that any output can be mapped back: frames through the position code of the
// body, headers/metadata through trailing id bytes.

var realSps = []byte{0x67, 0x64, 0x00, 0x20, 0xac, 0xd9, 0x40, 0xc0, 0x29, 0xb0, 0x11, 0x00, 0x00, 0x03, 0x00, 0x01, 0x00, 0x00, 0x03, 0x00, 0x32, 0x0f, 0x18, 0x31, 0x96}

type AMsg struct {
	Id int    `json:"id"`
	T  string `json:"t"`
	Ep int    `json:"ep"`
	Hv int    `json:"hv"`
	Ha int    `json:"ha"`
	Sz int    `json:"sz"`
}

// BuildMsg builds the RTMP message for an abstract message; n is the body length for frames.
func BuildMsg(m *AMsg, n int, ts uint32) base.RtmpMsg {
	var p []byte
	typ := uint8(base.RtmpTypeIdVideo)
	switch m.T {
	case "meta":
		typ = base.RtmpTypeIdMetadata
		if m.Id%2 == 1 {
			p = append(p, proj.AmfEncode(&proj.AVal{K: "str", S: &proj.AStr{N: 13, S: "@setDataFrame"}})...)
		}
		p = append(p, proj.AmfEncode(&proj.AVal{K: "str", S: &proj.AStr{N: 10, S: "onMetaData"}})...)
		obj := &proj.AVal{K: "ecma", Cnt: 2, End: true, Ps: []proj.APair{
			{Key: proj.AStr{N: 5, S: "width"}, V: &proj.AVal{K: "num", Id: 5}},
			{Key: proj.AStr{N: 3, S: "tag"}, V: &proj.AVal{K: "str", S: &proj.AStr{N: 8, Id: m.Id}}},
		}}
		p = append(p, proj.AmfEncode(obj)...)
	case "vsh":
		pps := []byte{0x68, 0xce, 0x3c, 0x80, byte(m.Hv)}
		p = []byte{0x17, 0, 0, 0, 0, 1, realSps[1], realSps[2], realSps[3], 0xff, 0xe1, 0, byte(len(realSps))}
		p = append(p, realSps...)
		p = append(p, 1, 0, byte(len(pps)))
		p = append(p, pps...)
	case "ash":
		typ = base.RtmpTypeIdAudio
		p = []byte{0xaf, 0x00, 0x12, 0x10, byte(m.Ha)}
	case "key", "inter":
		if n < 8 {
			n = 8
		}
		hd := byte(0x17)
		nal := byte(0x65)
		if m.T == "inter" {
			hd, nal = 0x27, 0x41
		}
		p = []byte{hd, 1, 0, 0, 0, byte((n + 1) >> 24), byte((n + 1) >> 16), byte((n + 1) >> 8), byte(n + 1), nal}
		p = append(p, proj.Payload(m.Id, n)...)
	case "aud":
		typ = base.RtmpTypeIdAudio
		if n < 8 {
			n = 8
		}
		if m.Ha != 0 {
			p = []byte{0xaf, 0x01}
		} else {
			p = []byte{0x72, 0x00} // G.711 A-law: no sequence header exists
		}
		p = append(p, proj.Payload(m.Id, n)...)
	case "empty":
		if m.Id%2 == 0 {
			typ = base.RtmpTypeIdAudio
		}
		p = []byte{}
	}
	csid := 6
	if typ == base.RtmpTypeIdAudio {
		csid = 4
	}
	if m.T == "vsh" || m.T == "ash" {
		// a re-sent header must be byte-identical in content, so its id travels in the timestamp
		ts = (ts &^ 0xff) | uint32(m.Id&0xff)
	}
	return base.RtmpMsg{Header: base.RtmpHeader{Csid: csid, MsgLen: uint32(len(p)), MsgTypeId: typ, MsgStreamId: 1,
		TimestampAbs: ts}, Payload: p}
}

// IdentifyMsg maps a delivered (type, payload) back to the abstract message id; sdf reports the
// @setDataFrame prefix for metadata.  id = 0 if it cannot be identified.
func IdentifyMsg(typ int, p []byte, ts uint32) (id int, sdf bool) {
	switch typ {
	case 18:
		sdf = bytes.HasPrefix(p, []byte{2, 0, 13, '@', 's', 'e', 't'})
		k := bytes.Index(p, []byte{0, 3, 't', 'a', 'g', 2, 0, 8})
		if k < 0 || len(p) < k+8+2 {
			return 0, sdf
		}
		return int(p[k+8])<<8 | int(p[k+9]), sdf
	case 9:
		if len(p) >= 2 && p[1] == 0 {
			return int(ts & 0xff), false
		}
		if len(p) >= 16 {
			return int(p[10])<<8 | int(p[11]), false
		}
	case 8:
		if len(p) >= 2 && p[0] == 0xaf && p[1] == 0 {
			return int(ts & 0xff), false
		}
		if len(p) >= 8 {
			return int(p[2])<<8 | int(p[3]), false
		}
	}
	return 0, false
}

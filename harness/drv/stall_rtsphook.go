//go:build verif_c15rtsp

package drv

import "github.com/q191201771/lal/pkg/rtsp"

// stSetRtspWChan sets the write-queue size of RTSP command connections created from now on (verif hook
// pkg/rtsp/verif_hooks_wchan.go); built only when tools/props/c15.py finds the hook in the tree.
func stSetRtspWChan(n int) (int, bool) {
	return rtsp.VerifSetServerCommandSessionWriteChanSize(n), true
}

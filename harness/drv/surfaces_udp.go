package drv

import (
	"encoding/json"
	"fmt"
	"net"
	"strings"
	"time"

	"lalverif/proj"
)

// UDP transport of an RTSP publisher (C13): ANNOUNCE with an SDP of both tracks / video only / audio
// only, SETUP with client_port for a subset of the tracks, RECORD; then real datagrams from loopback
// sockets to the RTP / RTCP ports lal opened for that session (nazanet.UdpConnection read loops calling
// BaseInSession.onReadRtpPacket / onReadRtcpPacket).  After each datagram a small sentinel datagram to
// the same socket and the session's read-byte counter tell when lal is done with it; then an OPTIONS
// probe on the command connection tells whether the session is still there.

type sfUdpTrack struct {
	rtp, rtcp   *net.UDPConn // ours
	rRtp, rRtcp *net.UDPAddr // lal's
}

func sfUdpSetup(p *sfPeer, uri string, cseq string) (*sfUdpTrack, bool) {
	t := &sfUdpTrack{}
	var err error
	if t.rtp, err = net.ListenUDP("udp4", &net.UDPAddr{IP: net.IPv4(127, 0, 0, 1)}); err != nil {
		return nil, false
	}
	if t.rtcp, err = net.ListenUDP("udp4", &net.UDPAddr{IP: net.IPv4(127, 0, 0, 1)}); err != nil {
		return nil, false
	}
	tr := fmt.Sprintf("Transport: RTP/AVP/UDP;unicast;client_port=%d-%d;mode=record", t.rtp.LocalAddr().(*net.UDPAddr).Port, t.rtcp.LocalAddr().(*net.UDPAddr).Port)
	o := p.send(sfReq("SETUP", uri, cseq, []string{tr}, ""))
	if !sfOk(o) {
		return t, false
	}
	for _, r := range p.responses() {
		if r.Cseq == cseq && strings.Contains(r.Transport, "server_port=") {
			var a, b int
			v := r.Transport[strings.Index(r.Transport, "server_port=")+len("server_port="):]
			if n, _ := fmt.Sscanf(v, "%d-%d", &a, &b); n == 2 {
				t.rRtp = &net.UDPAddr{IP: net.IPv4(127, 0, 0, 1), Port: a}
				t.rRtcp = &net.UDPAddr{IP: net.IPv4(127, 0, 0, 1), Port: b}
				return t, true
			}
		}
	}
	return t, false
}

func (t *sfUdpTrack) close() {
	if t != nil {
		if t.rtp != nil {
			t.rtp.Close()
		}
		if t.rtcp != nil {
			t.rtcp.Close()
		}
	}
}

func (e *sfEnv) runUdp(sc *sfScenario, end M) (obs []sfObs) {
	own, live, again := fmt.Sprintf("s%d", sc.Sc), fmt.Sprintf("b%d", sc.Sc), fmt.Sprintf("z%d", sc.Sc)
	by := e.newPeer("by", false)
	byOk := sfOk(by.send(sfReq("ANNOUNCE", sfURL(live), "1", nil, proj.SfSdpText(&sfGoodSdp))))
	p := e.newPeer("c", false)
	s := sfGoodSdp
	switch sc.Cfg["sdp"] {
	case "v":
		s.A = "none"
	case "a":
		s.V = "none"
	}
	tracks := map[string]*sfUdpTrack{}
	defer func() {
		for _, t := range tracks {
			t.close()
		}
	}()
	ok := sfOk(p.send(sfReq("ANNOUNCE", sfURL(own), "1", nil, proj.SfSdpText(&s))))
	if ok && strings.Contains(sc.Cfg["setup"], "v") && s.V != "none" {
		tracks["v"], ok = sfUdpSetup(p, sfURL(own)+"/streamid=0", "2")
	}
	if ok && strings.Contains(sc.Cfg["setup"], "a") && s.A != "none" {
		tracks["a"], ok = sfUdpSetup(p, sfURL(own)+"/streamid=1", "3")
	}
	ok = ok && sfOk(p.send(sfReq("RECORD", sfURL(own), "4", nil, "")))
	if !ok {
		end["note"] = "prelude failed"
		p.close()
		by.close()
		return
	}
	obsr := p.obs
	sent := uint64(0)
	read := func() uint64 {
		if obsr == nil || obsr.pub == nil {
			return 0
		}
		return obsr.pub.GetStat().ReadBytesSum
	}
	base0 := read()
	waitRead := func() {
		dl := time.Now().Add(1500 * time.Millisecond)
		for read()-base0 < sent && time.Now().Before(dl) {
			time.Sleep(30 * time.Microsecond)
		}
	}
	ptOf := map[string]int{"v": 96, "a": 97}
	ssrcOf := map[int]uint32{96: 0x11111111, 97: 0x22222222, 0: 0x33333333, 35: 0x44444444}
	for i, raw := range sc.Steps {
		var el sfEl
		json.Unmarshal(raw, &el)
		t := tracks[el.A]
		o := sfObs{Codes: []int{}, Alive: true}
		if t != nil {
			var dg, sentinel []byte
			var conn *net.UDPConn
			var to *net.UDPAddr
			switch el.K {
			case "rtp":
				pt := ptOf[el.A]
				switch el.B {
				case "other":
					pt = 96 + 97 - pt
				case "zero":
					pt = 0
				case "unk":
					pt = 35
				}
				var pl []byte
				switch {
				case pt == 96 && el.C == "multi":
					pl = proj.SfPayload("avc", "stapOk")
				case pt == 96:
					pl = proj.SfPayload("avc", "single")
				case pt == 97 && el.C == "multi":
					pl = proj.SfPayload("aac", "au2")
				case pt == 97:
					pl = proj.SfPayload("aac", "auOk")
				default:
					pl = proj.SfPayload("raw", "ok")
				}
				dg = proj.SfRtpDatagram("ok", 0, true, pt, 500+i, uint32(3000*i), ssrcOf[pt], pl)
				conn, to, sentinel = t.rtp, t.rRtp, []byte{0x80}
			case "rtcp":
				ssrc := map[string]uint32{"v": 0x11111111, "a": 0x22222222, "zero": 0x33333333, "unk": 0x44444444}[el.C]
				dg = proj.SfRtcp(el.B, el.N, ssrc)
				conn, to, sentinel = t.rtcp, t.rRtcp, []byte{0x80, 0xff, 0, 0}
			}
			if el.K == "rtcp_seq" {
				pt := ptOf[el.A]
				codec := "avc"
				if pt == 97 {
					codec = "aac"
				}
				for _, d := range sfRtcpSeq(el.B, codec, pt, 500+i, uint32(3000*i), ssrcOf[pt]) {
					c, a, sen := t.rtp, t.rRtp, []byte{0x80}
					if d.rtcp {
						c, a, sen = t.rtcp, t.rRtcp, []byte{0x80, 0xff, 0, 0}
					}
					if c == nil {
						continue
					}
					c.WriteToUDP(d.b, a)
					sent += uint64(len(d.b))
					waitRead()
					c.WriteToUDP(sen, a)
					sent += uint64(len(sen))
					waitRead()
				}
			}
			if conn != nil && len(dg) > 0 {
				conn.WriteToUDP(dg, to)
				sent += uint64(len(dg))
				waitRead()
				conn.WriteToUDP(sentinel, to) // lal counts a datagram before it handles it: wait for the one behind
				sent += uint64(len(sentinel))
				waitRead()
			}
		}
		pr := p.send(nil)
		o.Alive = pr.Alive
		o.Codes = pr.Codes
		obs = append(obs, o)
		if !o.Alive {
			break
		}
	}
	closedOk := p.close()
	if !closedOk {
		end["note"] = "session loop did not end"
	}
	end["bystander"] = byOk && by.send(nil).Alive
	p2 := e.newPeer("n", false)
	end["second"] = e.publish(p2, again, &sfGoodSdp) && closedOk
	p2.close()
	by.close()
	return
}

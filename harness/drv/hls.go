//go:build verif_hls

package drv

// Driver "hls" (C10): a real hls.Muxer fed with real TS packets (mpegts.Frame.Pack, PackPat, PackPmt)
// on a recording file-system layer (hook hls.VerifSetFsl, pending/C10-hook-fsl.patch).  Every call of
// the IFileSystemLayer becomes one "op" event carrying the operation, the parsed content of the file
// it touched and the directory afterwards; spec/Trace_Hls.tla replays them into its file-system
// variable, checks the properties of C10 after each one and that the sequence is the one the muxer
// model allows.  The file is behind its own build tag because it needs the hook: builds of the
// harness against a tree without the hook must not see it.

import (
	"encoding/json"
	"fmt"
	"path/filepath"
	"sort"
	"strconv"
	"strings"
	"time"

	"github.com/q191201771/lal/pkg/base"
	"github.com/q191201771/lal/pkg/hls"
	"github.com/q191201771/lal/pkg/mpegts"
	"github.com/q191201771/naza/pkg/filesystemlayer"
	"github.com/q191201771/naza/pkg/mock"
	"github.com/q191201771/naza/pkg/nazalog"

	"lalverif/proj"
)

type hlsCfg struct {
	N    int `json:"n"`
	D    int `json:"d"`
	F    int `json:"f"`
	Mode int `json:"mode"`
}

type hlsFrame struct {
	Id  int  `json:"id"`
	V   bool `json:"v"`
	Key bool `json:"key"`
	B   bool `json:"b"`
	Ts  int  `json:"ts"`
}

type hlsStep struct {
	A  string          `json:"a"`
	Fr json.RawMessage `json:"fr"`
}

type hlsScenario struct {
	Sc    int       `json:"sc"`
	Cfg   hlsCfg    `json:"cfg"`
	Av    bool      `json:"av"`
	Steps []hlsStep `json:"steps"`
}

const hlsRoot = "/hls"
const hlsStream = "s"

// ---- recording file-system layer ------------------------------------------------------------------

type recFsl struct {
	inner filesystemlayer.IFileSystemLayer
	names map[string]bool // files that exist
	open  map[string]bool // files between create and close
	tw    *TraceWriter
}

type recFile struct {
	fsl  *recFsl
	name string
	fp   filesystemlayer.IFile
}

func newRecFsl(tw *TraceWriter) *recFsl {
	return &recFsl{inner: filesystemlayer.FslFactory(filesystemlayer.FslTypeMemory), names: map[string]bool{},
		open: map[string]bool{}, tw: tw}
}

// abstract name of a path: ("ts", [epoch, id], "") or ("pl", _, live|livebak|rec|recbak|<raw>)
func hlsName(path string) (k string, t [2]int, p string) {
	base := filepath.Base(path)
	dir := filepath.Dir(path)
	if dir == filepath.Join(hlsRoot, hlsStream) {
		switch base {
		case "playlist.m3u8":
			return "pl", [2]int{0, 0}, "live"
		case "playlist.m3u8.bak":
			return "pl", [2]int{0, 0}, "livebak"
		case "record.m3u8":
			return "pl", [2]int{0, 0}, "rec"
		case "record.m3u8.bak":
			return "pl", [2]int{0, 0}, "recbak"
		}
		if t, ok := hlsTsName(base); ok {
			return "ts", t, ""
		}
	}
	return "pl", [2]int{0, 0}, path
}

// "s-<clock ms>-<id>.ts" -> (clock, id); the driver sets the clock to the epoch number
func hlsTsName(base string) ([2]int, bool) {
	if !strings.HasPrefix(base, hlsStream+"-") || !strings.HasSuffix(base, ".ts") {
		return [2]int{-1, -1}, false
	}
	f := strings.Split(strings.TrimSuffix(strings.TrimPrefix(base, hlsStream+"-"), ".ts"), "-")
	if len(f) != 2 {
		return [2]int{-1, -1}, false
	}
	a, e1 := strconv.Atoi(f[0])
	b, e2 := strconv.Atoi(f[1])
	if e1 != nil || e2 != nil {
		return [2]int{-1, -1}, false
	}
	return [2]int{a, b}, true
}

func hlsUriName(uri string) [2]int {
	t, _ := hlsTsName(uri)
	return t
}

var noSeg = &proj.Segment{G: []proj.SegGroup{}}
var noPl = &proj.M3u8{Ents: []proj.M3u8Entry{}}

// log emits the op event: affected = path whose content is reported (after the operation)
func (r *recFsl) log(o string, path string, to string, affected string, err error) {
	k, t, p := hlsName(path)
	top := ""
	if to != "" {
		_, _, top = hlsName(to)
	}
	seg, pl := noSeg, noPl
	if affected != "" && r.names[affected] {
		b, e := r.inner.ReadFile(affected)
		if e != nil {
			b = nil
		}
		ak, _, _ := hlsName(affected)
		if ak == "ts" {
			seg = proj.ParseSegment(b)
			seg.Open = r.open[affected]
		} else {
			pl = proj.ParseM3u8(b, hlsUriName)
			pl.Open = r.open[affected]
		}
	}
	dts := [][2]int{}
	dpl := []string{}
	for n := range r.names {
		// the memory layer has no listing; existence is confirmed through it
		if _, e := r.inner.ReadFile(n); e != nil {
			dpl = append(dpl, "ghost:"+n)
			continue
		}
		nk, nt, np := hlsName(n)
		if nk == "ts" {
			dts = append(dts, nt)
		} else {
			dpl = append(dpl, np)
		}
	}
	sort.Slice(dts, func(i, j int) bool {
		if dts[i][0] != dts[j][0] {
			return dts[i][0] < dts[j][0]
		}
		return dts[i][1] < dts[j][1]
	})
	sort.Strings(dpl)
	r.tw.Emit(M{"ev": "op", "o": o, "k": k, "t": t, "p": p, "to": top, "err": err != nil, "seg": seg, "pl": pl,
		"dts": dts, "dpl": dpl})
}

func (r *recFsl) Type() filesystemlayer.FslType { return filesystemlayer.FslTypeMemory }

func (r *recFsl) Create(name string) (filesystemlayer.IFile, error) {
	fp, err := r.inner.Create(name)
	if err == nil {
		r.names[name] = true
		r.open[name] = true
	}
	r.log("create", name, "", name, err)
	if err != nil {
		return nil, err
	}
	return &recFile{fsl: r, name: name, fp: fp}, nil
}

func (f *recFile) Write(b []byte) (int, error) {
	n, err := f.fp.Write(b)
	f.fsl.log("write", f.name, "", f.name, err)
	return n, err
}

func (f *recFile) Close() error {
	err := f.fp.Close()
	delete(f.fsl.open, f.name)
	f.fsl.log("close", f.name, "", f.name, err)
	return err
}

func (r *recFsl) Rename(oldpath string, newpath string) error {
	err := r.inner.Rename(oldpath, newpath)
	if err == nil {
		delete(r.names, oldpath)
		r.names[newpath] = true
		if r.open[oldpath] {
			delete(r.open, oldpath)
			r.open[newpath] = true
		}
	}
	r.log("rename", oldpath, newpath, newpath, err)
	return err
}

func (r *recFsl) MkdirAll(path string, perm uint32) error { return r.inner.MkdirAll(path, perm) }

func (r *recFsl) Remove(name string) error {
	err := r.inner.Remove(name)
	if err == nil {
		delete(r.names, name)
		delete(r.open, name)
	}
	r.log("remove", name, "", "", err)
	return err
}

func (r *recFsl) RemoveAll(path string) error {
	err := r.inner.RemoveAll(path)
	pre := strings.TrimRight(path, "/") + "/"
	for n := range r.names {
		if strings.HasPrefix(n, pre) {
			delete(r.names, n)
			delete(r.open, n)
		}
	}
	r.log("removeall", path, "", "", err)
	return err
}

func (r *recFsl) ReadFile(filename string) ([]byte, error) {
	b, err := r.inner.ReadFile(filename)
	r.log("read", filename, "", "", nil)
	return b, err
}

// WriteFile as os.WriteFile performs it: open with truncation, write, close.
func (r *recFsl) WriteFile(filename string, data []byte, perm uint32) error {
	fp, err := r.Create(filename)
	if err != nil {
		return err
	}
	_, err = fp.Write(data)
	if e := fp.Close(); err == nil {
		err = e
	}
	return err
}

// ---- driver ---------------------------------------------------------------------------------------

func init() { Registry["hls"] = hlsDriver }

func hlsDriver(env *Env) error {
	tw, err := NewTraceWriter(env.Out)
	if err != nil {
		return err
	}
	defer tw.Close()
	if lg, err := nazalog.New(func(o *nazalog.Option) { o.Level = nazalog.LevelLogNothing }); err == nil {
		hls.Log = lg
	}
	clock := mock.NewFakeClock()
	hls.Clock = clock
	patpmt := append(append([]byte{}, mpegts.PackPat()...), mpegts.PackPmt(int(base.RtmpCodecIdAvc), int(base.RtmpSoundFormatAac))...)
	return ReadScenarios(env.In, func(raw json.RawMessage) error {
		var sc hlsScenario
		if err := json.Unmarshal(raw, &sc); err != nil {
			return err
		}
		fsl := newRecFsl(tw)
		hls.VerifSetFsl(fsl)
		cfg := &hls.MuxerConfig{OutPath: hlsRoot, FragmentDurationMs: sc.Cfg.F, FragmentNum: sc.Cfg.N,
			DeleteThreshold: sc.Cfg.D, CleanupMode: sc.Cfg.Mode}
		tw.Emit(M{"ev": "reset", "sc": sc.Sc, "cfg": sc.Cfg, "av": sc.Av})
		ep := 1
		var vcc, acc uint8
		newMuxer := func() *hls.Muxer {
			clock.Set(time.Unix(0, int64(ep)*1e6)) // segment names carry the clock in ms: the epoch number
			m := hls.NewMuxer(hlsStream, cfg, nil)
			m.Start()
			m.FeedPatPmt(patpmt)
			return m
		}
		mux := newMuxer()
		guard := func(f func()) {
			defer func() {
				if r := recover(); r != nil {
					tw.Emit(M{"ev": "panic", "what": fmt.Sprint(r)})
				}
			}()
			f()
		}
		for _, st := range sc.Steps {
			switch st.A {
			case "feed":
				var fr hlsFrame
				if err := json.Unmarshal(st.Fr, &fr); err != nil {
					return err
				}
				tw.Emit(M{"ev": "feed", "fr": fr})
				f := &mpegts.Frame{Pts: uint64(fr.Ts) * 90, Dts: uint64(fr.Ts) * 90, Key: fr.Key,
					Raw: proj.Payload(fr.Id, 200+37*(fr.Id%7))}
				if fr.V {
					f.Pid, f.Sid, f.Cc = mpegts.PidVideo, mpegts.StreamIdVideo, vcc
				} else {
					f.Pid, f.Sid, f.Cc = mpegts.PidAudio, mpegts.StreamIdAudio, acc
				}
				pkts := f.Pack()
				if fr.V {
					vcc = f.Cc
				} else {
					acc = f.Cc
				}
				guard(func() { mux.FeedMpegts(pkts, f, fr.B) })
			case "stop":
				tw.Emit(M{"ev": "stop"})
				guard(func() { mux.Dispose() })
			case "restart":
				tw.Emit(M{"ev": "restart"})
				ep++
				guard(func() { mux = newMuxer() })
			default:
				return fmt.Errorf("unknown step %q", st.A)
			}
		}
		tw.Emit(M{"ev": "end"})
		return nil
	})
}

package drv

import (
	"bytes"
	"encoding/base64"
	"encoding/hex"
	"encoding/json"
	"fmt"
	"os"
	"runtime/debug"
	"strings"
	"sync"
	"time"

	"github.com/q191201771/lal/pkg/base"
	"github.com/q191201771/lal/pkg/gb28181"
	"github.com/q191201771/lal/pkg/httpflv"
	"github.com/q191201771/lal/pkg/logic"
	"github.com/q191201771/lal/pkg/remux"
	"github.com/q191201771/lal/pkg/rtsp"

	"lalverif/proj"
)

// Driver "ingest" (C07): a source stream described abstractly (frames of typed, position-coded
// units with source timestamps) is published into a bare logic.Group over one of three paths and
// what an HTTP-FLV subscriber of the group received is projected back to abstract messages.
//   cust  logic.Group.AddCustomizePubSession + FeedAudioSpecificConfig / FeedAvPacket
//   rtsp  a real rtsp.ServerCommandSession on an in-memory connection: ANNOUNCE (SDP text written
//         here) / SETUP interleaved / RECORD, then "$"-framed RTP packets produced by the
//         independent packetiser following the packet plan, in the arrival order of the scenario
//   ps    gb28181.PsUnpacker.FeedRtpPacket fed the RTP-sliced program stream written by proj/ps.go,
//         wired to a remux.AvPacket2RtmpRemuxer with the options logic.Group.StartRtpPub uses
// The driver decides nothing: spec/Trace_Ingest.tla does.

type ingU struct {
	K  string `json:"k"`
	Id int    `json:"id"`
	N  int    `json:"n"`
}

// ingFrame: Ts is the source clock as it runs on, three 16-bit limbs (48 bits); what is written on
// the wire is Ts modulo the width of the field (RTP timestamp 2^32, PES PTS/DTS 2^33, AvPacket the
// whole value).  D = PTS - DTS in ticks (PS with a DTS field).  G > 0 (PS, AAC): the frame is the G-th
// ADTS frame behind the audio frame in whose PES it rides; it has no timestamp on the wire (Ts is
// not written: the specification derives the implied time from the head frame).
type ingFrame struct {
	Trk string `json:"trk"`
	Ts  []int  `json:"ts"`
	D   int    `json:"d"`
	G   int    `json:"g"`
	Us  []ingU `json:"us"`
}

type ingSet struct {
	K string `json:"k"`
	N int    `json:"n"`
}

// ingPk is one RTP packet of the plan: fragment I of M of unit Us[0] of frame F (M > 1), or the
// whole units Us of frame F in one packet (aggregated when more than one).
type ingPk struct {
	F  int   `json:"f"`
	Us []int `json:"us"`
	I  int   `json:"i"`
	M  int   `json:"m"`
}

// ingPs says how frame F is written into the program stream.
type ingPs struct {
	F    int  `json:"f"`
	M    int  `json:"m"`    // PES packets the frame is cut into
	C    int  `json:"c"`    // RTP packets the pack is cut into
	Pall bool `json:"pall"` // every PES carries the PTS (else only the first)
	Sys  bool `json:"sys"`  // system header present
	Psm  bool `json:"psm"`  // program stream map present
	Join bool `json:"join"` // no pack header of its own: the PES follow the previous pack
	Dts  bool `json:"dts"`  // the PES that carry a PTS carry a DTS too (PTS_DTS_flags = 3)
	Cut  int  `json:"cut"`  // > 0: the pack goes into two RTP packets, cut after 1 + (Cut-1) mod (len-1) bytes
	// Ride: this audio frame (AAC in ADTS, self-framing) rides in the PES of the previous audio frame: its ADTS
	// frame follows that frame's in the same PES payload, under the one PES header and PTS; the payload of the
	// whole group is cut into the head entry's M PES packets.  Every other field of a riding entry is unused.
	Ride bool `json:"ride"`
	// Pph: a pack header in front of every PES of the frame (the access unit is spread over several packs)
	Pph bool `json:"pph"`
}

type ingScenario struct {
	Sc     int        `json:"sc"`
	G      int        `json:"g"`
	Path   string     `json:"path"`
	Vc     string     `json:"vc"`
	Ac     string     `json:"ac"`
	Vrate  int        `json:"vrate"`
	Arate  int        `json:"arate"`
	Asc    []int      `json:"asc"`
	Sdp    []ingSet   `json:"sdp"`
	Fmt    string     `json:"fmt"`  // cust: annexb | annexb3 | avcc; ps: annexb | annexb3
	Afmt   string     `json:"afmt"` // cust: raw | adts
	Frames []ingFrame `json:"frames"`
	Plan   []ingPk    `json:"plan"`
	Ps     []ingPs    `json:"ps"`
	S0v    int        `json:"s0v"`
	S0a    int        `json:"s0a"`
	Ptrk   string     `json:"ptrk"`
	Order  []int      `json:"order"`
}

func init() { Registry["ingest"] = ingestDriver }

func ingestDriver(env *Env) error {
	httpflv.SubSessionWriteChanSize = 0
	tw, err := NewTraceWriter(env.Out)
	if err != nil {
		return err
	}
	defer tw.Close()
	return ReadScenarios(env.In, func(raw json.RawMessage) error {
		var sc ingScenario
		if err := json.Unmarshal(raw, &sc); err != nil {
			return err
		}
		if err := ingCheckPsPlan(&sc); err != nil {
			return err
		}
		runIngest(&sc, tw)
		return nil
	})
}

// ---------------------------------------------------------------------------- concretisation

func ingCodec2(vc string) string {
	if vc == "hevc" {
		return "h265"
	}
	return "h264"
}

var ingAvcHdr = map[string][]byte{"sps": {0x67}, "pps": {0x68}, "aud": {0x09}, "idr": {0x65, 0x25, 0x45}, "p": {0x41, 0x21, 0x01}, "sei": {0x06}}
var ingHevcType = map[string][]int{"vps": {32}, "sps": {33}, "pps": {34}, "aud": {35}, "idr": {19, 20, 21, 16}, "p": {1, 0}, "sei": {39, 40}}

func ingSetBytes(vc, k string, n int) []byte {
	c := ingCodec2(vc)
	return proj.GenSet(c, k, proj.MinSet(c, k)+n, "")
}

// ingUnit builds the bytes of a unit: NAL header chosen by (kind, id), position-coded body.
func ingUnit(vc string, u ingU) []byte {
	switch u.K {
	case "au":
		return proj.NalFill(u.Id, 0, u.N)
	case "vps", "sps", "pps":
		return ingSetBytes(vc, u.K, u.N)
	}
	var h []byte
	if vc == "hevc" {
		ts := ingHevcType[u.K]
		if len(ts) == 0 {
			return nil // not a kind of the scenarios (bytes that came out of lal are being looked at): equal to nothing
		}
		h = []byte{byte(ts[u.Id%len(ts)] << 1), 1}
	} else {
		hs := ingAvcHdr[u.K]
		if len(hs) == 0 {
			return nil
		}
		h = []byte{hs[u.Id%len(hs)]}
	}
	n := u.N - len(h)
	if n < 1 {
		n = 1
	}
	return append(h, proj.NalFill(u.Id, 0, n)...)
}

func ingKind(vc string, b []byte) string {
	if len(b) == 0 {
		return "empty"
	}
	if vc == "hevc" {
		t := int(b[0]>>1) & 63
		switch {
		case t >= 16 && t <= 21:
			return "idr"
		case t <= 9:
			return "p"
		case t == 32:
			return "vps"
		case t == 33:
			return "sps"
		case t == 34:
			return "pps"
		case t == 35:
			return "aud"
		case t == 39 || t == 40:
			return "sei"
		}
		return fmt.Sprintf("t%d", t)
	}
	t := int(b[0] & 31)
	switch t {
	case 5:
		return "idr"
	case 1:
		return "p"
	case 6:
		return "sei"
	case 7:
		return "sps"
	case 8:
		return "pps"
	case 9:
		return "aud"
	}
	return fmt.Sprintf("t%d", t)
}

func ingHdrLen(vc string) int {
	if vc == "hevc" {
		return 2
	}
	return 1
}

// ingViewUnit says which unit the bytes are: kind from the NAL type, id from the first body
// byte, n = length, eq = the bytes are exactly the unit the concretisation builds for (k, id, n).
func ingViewUnit(vc string, b []byte) M {
	k := ingKind(vc, b)
	if k == "vps" || k == "sps" || k == "pps" {
		n := len(b) - proj.MinSet(ingCodec2(vc), k)
		return M{"k": k, "id": 0, "n": n, "eq": n >= 0 && bytes.Equal(b, ingSetBytes(vc, k, n))}
	}
	id := 0
	if len(b) > ingHdrLen(vc) {
		id = int(b[ingHdrLen(vc)] & 0x7f)
	}
	return M{"k": k, "id": id, "n": len(b), "eq": bytes.Equal(b, ingUnit(vc, ingU{K: k, Id: id, N: len(b)}))}
}

func ingViewAu(b []byte) M {
	id := 0
	if len(b) > 0 {
		id = int(b[0] & 0x7f)
	}
	return M{"k": "au", "id": id, "n": len(b), "eq": bytes.Equal(b, proj.NalFill(id, 0, len(b)))}
}

func ingAscBytes(a []int) []byte {
	return proj.Asc{Ot: a[0], Fi: a[1], Ch: a[2]}.Bytes()
}

func ingAdts(a []int, raw []byte) []byte {
	n := len(raw) + 7
	h := []byte{0xff, 0xf1, byte((a[0]-1)<<6 | a[1]<<2 | a[2]>>2), byte((a[2]&3)<<6 | n>>11), byte(n >> 3), byte(n<<5) | 0x1f, 0xfc}
	return append(h, raw...)
}

// ingTs: the source clock from its limbs (most significant first).
func ingTs(l []int) uint64 {
	v := uint64(0)
	for _, x := range l {
		v = v<<16 | uint64(x&0xffff)
	}
	return v
}

const ingPsMask = uint64(1)<<33 - 1

// ---------------------------------------------------------------------------- observer side

// ingProject turns the FLV tags a subscriber received into abstract messages.
func ingProject(vc string, out []byte) (msgs []M, bad []string) {
	msgs = []M{}
	bad = []string{}
	k := bytes.Index(out, []byte("\r\n\r\n"))
	if k < 0 {
		if len(out) > 0 {
			bad = append(bad, "no_http_header")
		}
		return
	}
	elems, left := proj.ParseFlvStream(out[k+4:])
	if left != 0 && len(out[k+4:]) >= 13 {
		bad = append(bad, "flv_partial_tag")
	}
	for _, e := range elems {
		if e.Tag == nil {
			continue
		}
		ts := proj.Limbs(uint32(e.Tag.TsExt)<<24 | uint32(e.Tag.TsLow))
		tsl := []int{ts[0], ts[1]}
		p := e.Payload
		fine := e.Tag.Sid == 0 && e.Tag.Prev == 11+e.Tag.Size
		switch e.Tag.Type {
		case 18:
			msgs = append(msgs, M{"t": "meta"})
		case 9:
			want := 7
			if vc == "hevc" {
				want = 12
			}
			if len(p) < 5 {
				msgs = append(msgs, M{"t": "v", "key": false, "ts": tsl, "us": []M{}, "ok": false})
				continue
			}
			fine = fine && int(p[0]&15) == want && p[2] == 0 && p[3] == 0 && p[4] == 0
			key := p[0]>>4 == 1
			if p[1] == 0 {
				var sets [][]byte
				okRec := true
				if vc == "hevc" {
					r := proj.ReadHevcSeqHeader(p)
					sets, okRec = r.Sets, !r.Bad && r.Trail == 0 && r.LenSize == 4
				} else {
					r := proj.ReadAvcSeqHeader(p)
					sets, okRec = r.Sets, !r.Bad && r.Trail == 0 && r.LenSize == 4
				}
				vs := []M{}
				for _, s := range sets {
					v := ingViewUnit(vc, s)
					vs = append(vs, M{"k": v["k"], "n": v["n"], "eq": v["eq"]})
				}
				msgs = append(msgs, M{"t": "vsh", "ts": tsl, "sets": vs, "ok": fine && okRec && key})
			} else {
				units, okSplit := proj.SplitAvcc(p[5:])
				us := []M{}
				for _, u := range units {
					us = append(us, ingViewUnit(vc, u))
				}
				msgs = append(msgs, M{"t": "v", "key": key, "ts": tsl, "us": us, "ok": fine && okSplit && p[1] == 1})
			}
		case 8:
			if len(p) < 1 {
				msgs = append(msgs, M{"t": "a", "fmt": 0, "ts": tsl, "us": []M{}, "ok": false})
				continue
			}
			if p[0]>>4 == 10 {
				if len(p) >= 2 && p[1] == 0 {
					v := proj.ViewAsc(p[2:], nil)
					msgs = append(msgs, M{"t": "ash", "ts": tsl, "asc": []int{v.Ot, v.Fi, v.Ch}, "ok": fine && len(p) == 4})
				} else if len(p) >= 2 {
					msgs = append(msgs, M{"t": "a", "fmt": int(p[0]), "ts": tsl, "us": []M{ingViewAu(p[2:])}, "ok": fine && p[1] == 1})
				} else {
					msgs = append(msgs, M{"t": "a", "fmt": int(p[0]), "ts": tsl, "us": []M{}, "ok": false})
				}
			} else {
				msgs = append(msgs, M{"t": "a", "fmt": int(p[0]), "ts": tsl, "us": []M{ingViewAu(p[1:])}, "ok": fine})
			}
		default:
			bad = append(bad, fmt.Sprintf("tag_type_%d", e.Tag.Type))
		}
	}
	return
}

// ingConn is an in-memory connection whose reader side reports when it has consumed everything
// that was fed and blocks for more: everything fed before has then been processed by the
// (single) goroutine that reads it.
type ingConn struct {
	*MemConn
	imu    sync.Mutex
	icond  *sync.Cond
	iin    []byte
	idle   bool
	closed bool
}

func newIngConn(name string) *ingConn {
	c := &ingConn{MemConn: NewMemConn(name)}
	c.icond = sync.NewCond(&c.imu)
	return c
}

func (c *ingConn) Read(b []byte) (int, error) {
	c.imu.Lock()
	defer c.imu.Unlock()
	for len(c.iin) == 0 && !c.closed {
		c.idle = true
		c.icond.Wait()
	}
	c.idle = false
	if len(c.iin) == 0 {
		return 0, fmt.Errorf("closed")
	}
	n := copy(b, c.iin)
	c.iin = c.iin[n:]
	return n, nil
}

func (c *ingConn) Feed(b []byte) {
	c.imu.Lock()
	c.idle = false
	c.iin = append(c.iin, b...)
	c.imu.Unlock()
	c.icond.Broadcast()
}

func (c *ingConn) Close() error {
	c.imu.Lock()
	c.closed = true
	c.imu.Unlock()
	c.icond.Broadcast()
	return c.MemConn.Close()
}

// WaitIdle returns true when the reader waits for input with nothing left, false if the
// connection was closed by the other side or nothing happened for 5 s.
func (c *ingConn) WaitIdle() bool {
	dl := time.Now().Add(5 * time.Second)
	for {
		c.imu.Lock()
		idle, closed := c.idle && len(c.iin) == 0, c.closed
		c.imu.Unlock()
		if closed {
			return false
		}
		if idle {
			return true
		}
		if time.Now().After(dl) {
			return false
		}
		time.Sleep(10 * time.Microsecond)
	}
}

type ingRtspObserver struct {
	g   *logic.Group
	pub *rtsp.PubSession
	err error
}

func (o *ingRtspObserver) OnNewRtspPubSession(session *rtsp.PubSession) error {
	o.pub = session
	o.err = o.g.AddRtspPubSession(session)
	return o.err
}
func (o *ingRtspObserver) OnNewRtspSubSessionDescribe(session *rtsp.SubSession) (bool, []byte) {
	return false, nil
}
func (o *ingRtspObserver) OnNewRtspSubSessionPlay(session *rtsp.SubSession) error { return nil }

// ---------------------------------------------------------------------------- the three paths

func ingGuard(f func()) (p string) {
	defer func() {
		if r := recover(); r != nil {
			p = fmt.Sprint(r)
			if os.Getenv("INGEST_STACK") != "" {
				os.Stderr.Write(debug.Stack())
			}
			if len(p) > 120 {
				p = p[:120]
			}
		}
	}()
	f()
	return ""
}

func ingAnnexB(units [][]byte, three bool) []byte {
	sc := make([]int, len(units))
	for i, u := range units {
		sc[i] = 4
		// Annex B: zero_byte is required before parameter sets and the first unit of an access unit
		if three && i > 0 && len(u) > 0 {
			sc[i] = 3
		}
	}
	return proj.WriteAnnexB(units, sc, 0)
}

func ingIsSet(vc string, u []byte) bool {
	k := ingKind(vc, u)
	return k == "vps" || k == "sps" || k == "pps"
}

func ingAnnexBSafe(vc string, units [][]byte, three bool) []byte {
	sc := make([]int, len(units))
	for i, u := range units {
		sc[i] = 4
		if three && i > 0 && !ingIsSet(vc, u) {
			sc[i] = 3
		}
	}
	return proj.WriteAnnexB(units, sc, 0)
}

// ingAudioPt: the RTP payload type of the audio track.  G.711 at 8 kHz has the static types 0 (PCMU) and 8 (PCMA) of
// RFC 3551, which is what cameras and ffmpeg send; every other scenario uses a dynamic one.
func ingAudioPt(sc *ingScenario) int {
	if sc.Arate == 8000 && sc.Sc%2 == 0 {
		switch sc.Ac {
		case "pcmu":
			return 0
		case "pcma":
			return 8
		}
	}
	return 97
}

func ingPt(codec string) base.AvPacketPt {
	switch codec {
	case "avc":
		return base.AvPacketPtAvc
	case "hevc":
		return base.AvPacketPtHevc
	case "aac":
		return base.AvPacketPtAac
	case "pcma":
		return base.AvPacketPtG711A
	case "pcmu":
		return base.AvPacketPtG711U
	case "opus":
		return base.AvPacketPtOpus
	}
	return base.AvPacketPtUnknown
}

func ingFrameUnits(sc *ingScenario, f *ingFrame) [][]byte {
	var us [][]byte
	for _, u := range f.Us {
		us = append(us, ingUnit(sc.Vc, u))
	}
	return us
}

func ingCust(sc *ingScenario, g *logic.Group, stream string) (bad []string) {
	ctx, err := g.AddCustomizePubSession(stream)
	if err != nil {
		return []string{"add_failed"}
	}
	defer g.DelCustomizePubSession(ctx)
	ctx.WithOption(func(o *base.AvPacketStreamOption) {
		o.VideoFormat = base.AvPacketStreamVideoFormatAnnexb
		if sc.Fmt == "avcc" {
			o.VideoFormat = base.AvPacketStreamVideoFormatAvcc
		}
		o.AudioFormat = base.AvPacketStreamAudioFormatRawAac
		if sc.Afmt == "adts" {
			o.AudioFormat = base.AvPacketStreamAudioFormatAdtsAac
		}
	})
	if sc.Ac == "aac" && sc.Afmt != "adts" {
		if err := ctx.FeedAudioSpecificConfig(ingAscBytes(sc.Asc)); err != nil {
			bad = append(bad, "asc_failed")
		}
	}
	for i := range sc.Frames {
		f := &sc.Frames[i]
		ms := int64(ingTs(f.Ts))
		pkt := base.AvPacket{Timestamp: ms, Pts: ms}
		us := ingFrameUnits(sc, f)
		if f.Trk == "v" {
			pkt.PayloadType = ingPt(sc.Vc)
			if sc.Fmt == "avcc" {
				pkt.Payload = proj.WriteAvcc(us)
			} else {
				pkt.Payload = ingAnnexBSafe(sc.Vc, us, sc.Fmt == "annexb3")
			}
		} else {
			pkt.PayloadType = ingPt(sc.Ac)
			pkt.Payload = us[0]
			if sc.Ac == "aac" && sc.Afmt == "adts" {
				pkt.Payload = ingAdts(sc.Asc, us[0])
			}
		}
		if err := ctx.FeedAvPacket(pkt); err != nil {
			bad = append(bad, "feed_failed")
		}
	}
	return
}

func ingSdpText(sc *ingScenario) string {
	e := func(b []byte) string { return base64.StdEncoding.EncodeToString(b) }
	s := "v=0\r\no=- 0 0 IN IP4 127.0.0.1\r\ns=ingest\r\nc=IN IP4 127.0.0.1\r\nt=0 0\r\na=tool:lalverif\r\n"
	set := map[string][]byte{}
	for _, x := range sc.Sdp {
		set[x.K] = ingSetBytes(sc.Vc, x.K, x.N)
	}
	id := 0
	if sc.Vc == "avc" {
		s += "m=video 0 RTP/AVP 96\r\na=rtpmap:96 H264/" + fmt.Sprint(sc.Vrate) + "\r\na=fmtp:96 packetization-mode=1"
		if len(sc.Sdp) > 0 {
			s += "; sprop-parameter-sets=" + e(set["sps"]) + "," + e(set["pps"]) + "; profile-level-id=640020"
		}
		s += fmt.Sprintf("\r\na=control:streamid=%d\r\n", id)
		id++
	} else if sc.Vc == "hevc" {
		s += "m=video 0 RTP/AVP 96\r\na=rtpmap:96 H265/" + fmt.Sprint(sc.Vrate) + "\r\n"
		if len(sc.Sdp) > 0 {
			s += "a=fmtp:96 sprop-vps=" + e(set["vps"]) + "; sprop-sps=" + e(set["sps"]) + "; sprop-pps=" + e(set["pps"]) + "\r\n"
		}
		s += fmt.Sprintf("a=control:streamid=%d\r\n", id)
		id++
	}
	switch sc.Ac {
	case "aac":
		s += fmt.Sprintf("m=audio 0 RTP/AVP 97\r\nb=AS:96\r\na=rtpmap:97 MPEG4-GENERIC/%d/%d\r\n", sc.Arate, sc.Asc[2])
		s += "a=fmtp:97 profile-level-id=1;mode=AAC-hbr;sizelength=13;indexlength=3;indexdeltalength=3; config=" +
			strings.ToUpper(hex.EncodeToString(ingAscBytes(sc.Asc))) + "\r\n"
		s += fmt.Sprintf("a=control:streamid=%d\r\n", id)
	case "pcma", "pcmu":
		pt := ingAudioPt(sc)
		s += fmt.Sprintf("m=audio 0 RTP/AVP %d\r\na=rtpmap:%d %s/%d/1\r\na=control:streamid=%d\r\n", pt, pt, strings.ToUpper(sc.Ac), sc.Arate, id)
	case "opus":
		s += fmt.Sprintf("m=audio 0 RTP/AVP 97\r\na=rtpmap:97 opus/%d/2\r\na=control:streamid=%d\r\n", sc.Arate, id)
	}
	return s
}

// ingRtpPackets builds the RTP packets of the plan; returns them with their track.
func ingRtpPackets(sc *ingScenario) (pk [][]byte, trk []string) {
	seq := map[string]int{"v": sc.S0v, "a": sc.S0a}
	for i, p := range sc.Plan {
		f := &sc.Frames[p.F-1]
		codec, pt, ssrc := sc.Vc, 96, uint32(0x11223344)
		if f.Trk == "a" {
			codec, pt, ssrc = sc.Ac, ingAudioPt(sc), 0x55667788
		}
		var units [][]byte
		for _, ui := range p.Us {
			units = append(units, ingUnit(sc.Vc, f.Us[ui-1]))
		}
		var pl []byte
		switch {
		case p.M > 1:
			pl = proj.RtpFragments(codec, units[0], p.M)[p.I-1]
		case len(units) > 1:
			pl = proj.RtpAggregate(codec, units)
		default:
			pl = proj.RtpWhole(codec, units[0])
		}
		// marker: last packet of the frame
		last := i+1 == len(sc.Plan) || sc.Plan[i+1].F != p.F
		b := proj.RtpWrap(last, pt, seq[f.Trk]&0xffff, uint32(ingTs(f.Ts)), ssrc, pl)
		if sc.Sc%4 == 1 && len(b) >= 12 {
			// RTP padding (RFC 3550 5.1): P bit, k-1 zero octets and the count k behind the payload - senders that
			// encrypt or align their packets add it; it is no part of the payload
			k := 1 + (seq[f.Trk]+i)%4
			b[0] |= 0x20
			b = append(b, make([]byte, k-1)...)
			b = append(b, byte(k))
		}
		pk = append(pk, b)
		trk = append(trk, f.Trk)
		seq[f.Trk]++
	}
	return
}

// ingArrival applies the arrival order of the perturbed track to the plan order.
func ingArrival(sc *ingScenario, trk []string) []int {
	if len(sc.Order) == 0 {
		arr := make([]int, len(trk))
		for i := range arr {
			arr[i] = i
		}
		return arr
	}
	var tIdx []int
	for i, t := range trk {
		if t == sc.Ptrk || sc.Ptrk == "all" {
			tIdx = append(tIdx, i)
		}
	}
	var arr []int
	j := 0
	for i, t := range trk {
		if t == sc.Ptrk || sc.Ptrk == "all" {
			if j < len(sc.Order) && sc.Order[j] >= 1 && sc.Order[j] <= len(tIdx) {
				arr = append(arr, tIdx[sc.Order[j]-1])
			}
			j++
		} else {
			arr = append(arr, i)
		}
	}
	for ; j < len(sc.Order); j++ {
		if sc.Order[j] >= 1 && sc.Order[j] <= len(tIdx) {
			arr = append(arr, tIdx[sc.Order[j]-1])
		}
	}
	return arr
}

func ingRtsp(sc *ingScenario, g *logic.Group, stream string, sub *MemConn) (bad []string, panicked string) {
	conn := newIngConn("rtsppub")
	obs := &ingRtspObserver{g: g}
	cmd := rtsp.NewServerCommandSession(obs, conn, rtsp.ServerAuthConfig{}, false, "")
	done := make(chan string, 1)
	go func() {
		done <- ingGuard(func() { _ = cmd.RunLoop() })
		conn.Close()
	}()
	url := "rtsp://127.0.0.1:5544/live/" + stream
	sdpText := ingSdpText(sc)
	cseq := 1
	req := func(method, uri, extra, body string) bool {
		s := fmt.Sprintf("%s %s RTSP/1.0\r\nCSeq: %d\r\nUser-Agent: lalverif\r\n%s", method, uri, cseq, extra)
		cseq++
		if body != "" {
			s += fmt.Sprintf("Content-Type: application/sdp\r\nContent-Length: %d\r\n", len(body))
		}
		conn.Feed([]byte(s + "\r\n" + body))
		return conn.WaitIdle()
	}
	sub.mu.Lock()
	n0 := len(sub.out)
	sub.mu.Unlock()
	ok := req("ANNOUNCE", url, "", sdpText)
	if ok && (sc.Ac == "aac" || len(sc.Sdp) > 0) {
		// Group.AddRtspPubSession hands the SDP to the group on a goroutine of its own
		// (BaseInSession.SetObserver): wait until what it emits has reached the subscriber
		dl := time.Now().Add(5 * time.Second)
		for {
			sub.mu.Lock()
			n := len(sub.out)
			sub.mu.Unlock()
			if n > n0 {
				// the group writes metadata and the sequence headers under one lock
				g.StringifyDebugStats(1)
				break
			}
			if time.Now().After(dl) {
				bad = append(bad, "onsdp_timeout")
				break
			}
			time.Sleep(10 * time.Microsecond)
		}
	} else if ok {
		time.Sleep(200 * time.Microsecond)
	}
	ch := 0
	if ok && sc.Vc != "none" {
		ok = req("SETUP", url+"/streamid=0", fmt.Sprintf("Transport: RTP/AVP/TCP;unicast;interleaved=%d-%d;mode=record\r\n", ch, ch+1), "")
		ch += 2
	}
	vch, ach := 0, ch
	if ok && sc.Ac != "none" {
		sid := 1
		if sc.Vc == "none" {
			sid = 0
		}
		ok = req("SETUP", fmt.Sprintf("%s/streamid=%d", url, sid), fmt.Sprintf("Transport: RTP/AVP/TCP;unicast;interleaved=%d-%d;mode=record\r\n", ch, ch+1), "")
	}
	if ok {
		ok = req("RECORD", url, "Range: npt=0.000-\r\nSession: 191201771\r\n", "")
	}
	if ok {
		pk, trk := ingRtpPackets(sc)
		for _, i := range ingArrival(sc, trk) {
			c := vch
			if trk[i] == "a" {
				c = ach
			}
			conn.Feed(append([]byte{'$', byte(c), byte(len(pk[i]) >> 8), byte(len(pk[i]))}, pk[i]...))
		}
		ok = conn.WaitIdle()
	}
	if !ok {
		bad = append(bad, "rtsp_session_ended")
	}
	conn.Close()
	select {
	case panicked = <-done:
	case <-time.After(5 * time.Second):
		bad = append(bad, "rtsp_loop_stuck")
	}
	if obs.pub != nil {
		g.DelRtspPubSession(obs.pub)
	}
	return
}

// ingCheckPsPlan: a malformed scenario is the generator's fault, never an observation of lal.  A riding entry
// must be an AAC audio frame whose position behind its head (Frames[].G) is what the plan says.
func ingCheckPsPlan(sc *ingScenario) error {
	if sc.Path != "ps" {
		for i := range sc.Frames {
			if sc.Frames[i].G != 0 {
				return fmt.Errorf("scenario %d: frame %d rides (g = %d) on path %s", sc.Sc, i+1, sc.Frames[i].G, sc.Path)
			}
		}
		return nil
	}
	run := -1 // riders behind the last audio head, -1 = no head yet
	for _, pf := range sc.Ps {
		if pf.F < 1 || pf.F > len(sc.Frames) {
			return fmt.Errorf("scenario %d: ps plan names frame %d", sc.Sc, pf.F)
		}
		f := &sc.Frames[pf.F-1]
		if f.Trk != "a" {
			if pf.Ride || f.G != 0 {
				return fmt.Errorf("scenario %d: video frame %d rides", sc.Sc, pf.F)
			}
			continue
		}
		if !pf.Ride {
			run = 0
			if f.G != 0 {
				return fmt.Errorf("scenario %d: frame %d has g = %d and a PES of its own", sc.Sc, pf.F, f.G)
			}
			continue
		}
		if run < 0 || sc.Ac != "aac" {
			return fmt.Errorf("scenario %d: frame %d rides without an AAC head frame", sc.Sc, pf.F)
		}
		run++
		if f.G != run {
			return fmt.Errorf("scenario %d: frame %d is rider %d of its PES, g = %d", sc.Sc, pf.F, run, f.G)
		}
	}
	return nil
}

// ingPsBytes writes the frames into program stream packs and slices them into RTP packets.
func ingPsPackets(sc *ingScenario) [][]byte {
	var packs [][]byte
	var pts []uint64
	var cs []int
	var cuts []int
	// the elementary-stream bytes behind the PES header(s) of an audio head frame: its own frame and its riders'
	riders := map[int][]byte{}
	head := -1
	for _, pf := range sc.Ps {
		f := &sc.Frames[pf.F-1]
		if f.Trk != "a" {
			continue
		}
		if !pf.Ride {
			head = pf.F
		} else if head > 0 {
			riders[head] = append(riders[head], ingAdts(sc.Asc, ingFrameUnits(sc, f)[0])...)
		}
	}
	for _, pf := range sc.Ps {
		if pf.Ride {
			continue
		}
		f := &sc.Frames[pf.F-1]
		t := ingTs(f.Ts) & ingPsMask
		dts := int64(-1)
		if pf.Dts {
			dts = int64((ingTs(f.Ts) - uint64(f.D)) & ingPsMask)
		}
		var b []byte
		if !pf.Join || len(packs) == 0 {
			scr := t
			if dts >= 0 {
				scr = uint64(dts)
			}
			b = proj.PsPackHeader(scr, pf.F%3)
		}
		if pf.Sys {
			b = append(b, proj.PsSystemHeader(sc.Ac != "none")...)
		}
		if pf.Psm {
			ac := sc.Ac
			if ac == "none" {
				ac = ""
			}
			b = append(b, proj.PsMap(sc.Vc, ac)...)
		}
		var es []byte
		sid := byte(0xe0)
		if f.Trk == "v" {
			es = ingAnnexBSafe(sc.Vc, ingFrameUnits(sc, f), sc.Fmt == "annexb3")
		} else {
			sid = 0xc0
			es = ingFrameUnits(sc, f)[0]
			if sc.Ac == "aac" {
				es = ingAdts(sc.Asc, es)
			}
			es = append(es, riders[pf.F]...)
		}
		m := pf.M
		dtsLen := 0
		if pf.Dts {
			dtsLen = 5
		}
		for m > 0 && (len(es)+m-1)/m > proj.PsPesMax(true)-dtsLen {
			m++
		}
		var parts [][]byte
		if pf.M == 0 {
			// as many full-size PES packets (PES_packet_length 0xFFFF) as fit, then the rest
			for len(es) > 0 {
				n := proj.PsPesMax(len(parts) == 0 || pf.Pall)
				if len(parts) == 0 || pf.Pall {
					n -= dtsLen
				}
				if n > len(es) {
					n = len(es)
				}
				parts = append(parts, es[:n])
				es = es[n:]
			}
		} else {
			parts = proj.EvenCut(es, m)
		}
		for i, part := range parts {
			if pf.Pph && i > 0 {
				scr := t
				if dts >= 0 {
					scr = uint64(dts)
				}
				b = append(b, proj.PsPackHeader(scr, pf.F%3)...)
			}
			if i == 0 || pf.Pall {
				b = append(b, proj.PsPesPd(sid, int64(t), dts, part)...)
			} else {
				b = append(b, proj.PsPes(sid, -1, part)...)
			}
		}
		if pf.Join && len(packs) > 0 {
			packs[len(packs)-1] = append(packs[len(packs)-1], b...)
		} else {
			packs = append(packs, b)
			pts = append(pts, t)
			cs = append(cs, pf.C)
			cuts = append(cuts, pf.Cut)
		}
	}
	var pk [][]byte
	seq := sc.S0v
	for i, b := range packs {
		parts := proj.EvenCut(b, cs[i])
		if cuts[i] > 0 && len(b) >= 2 {
			k := 1 + (cuts[i]-1)%(len(b)-1)
			parts = [][]byte{b[:k], b[k:]}
		}
		if (len(b)+cs[i]-1)/cs[i] > 1400 && cs[i] == 1 {
			// a pack too large for one datagram: 1400-byte slices, as GB28181 senders do
			parts = nil
			for o := 0; o < len(b); o += 1400 {
				e := o + 1400
				if e > len(b) {
					e = len(b)
				}
				parts = append(parts, b[o:e])
			}
		}
		for j, part := range parts {
			pk = append(pk, proj.RtpWrap(j == len(parts)-1, 96, seq&0xffff, uint32(pts[i]), 0x0badf00d, part))
			seq++
		}
	}
	return pk
}

func ingPsRun(sc *ingScenario, g *logic.Group, stream string) (bad []string, npk int) {
	ctx, err := g.AddCustomizePubSession(stream)
	if err != nil {
		return []string{"add_failed"}, 0
	}
	defer g.DelCustomizePubSession(ctx)
	// the wiring of logic.Group.StartRtpPub, without its socket
	r := remux.NewAvPacket2RtmpRemuxer()
	r.WithOption(func(option *base.AvPacketStreamOption) {
		option.VideoFormat = base.AvPacketStreamVideoFormatAnnexb
		option.AudioFormat = base.AvPacketStreamAudioFormatAdtsAac
	})
	r.WithOnRtmpMsg(func(msg base.RtmpMsg) { _ = ctx.FeedRtmpMsg(msg) })
	u := gb28181.NewPsUnpacker().WithOnAvPacket(func(pkt *base.AvPacket) { r.OnAvPacket(*pkt) })
	pk := ingPsPackets(sc)
	trk := make([]string, len(pk))
	for i := range trk {
		trk[i] = "all"
	}
	sc.Ptrk = "all"
	// as the TCP reader of gb28181.PubSession does: every packet is read into the same buffer, which holds the next
	// packet as soon as the call has returned - a packet waiting for its turn in the reorder list must be a copy
	var rbuf []byte
	for _, i := range ingArrival(sc, trk) {
		rbuf = append(rbuf[:0], pk[i]...)
		_ = u.FeedRtpPacket(rbuf)
		for j := range rbuf {
			rbuf[j] ^= 0x5a
		}
	}
	return nil, len(pk)
}

func runIngest(sc *ingScenario, tw *TraceWriter) {
	cfg := &logic.Config{}
	cfg.RtmpConfig.Enable = true
	cfg.HttpflvConfig.Enable = true
	stream := fmt.Sprintf("i%d", sc.Sc)
	g := logic.NewGroup("live", stream, cfg, logic.GroupOption{}, groupObserver{})
	sub := NewMemConn("sub")
	u, _ := base.ParseUrl("http://h/live/"+stream+".flv", 80)
	fs := httpflv.NewSubSession(sub, u, false, "")
	g.AddHttpflvSubSession(fs)
	// the observer is admitted at once: key-frame admission of subscribers is C01/C02's subject
	fs.ShouldWaitVideoKeyFrame = false
	var bad []string
	npk := 0
	var p string
	switch sc.Path {
	case "cust":
		p = ingGuard(func() { bad = ingCust(sc, g, stream) })
	case "rtsp":
		var p2 string
		p = ingGuard(func() { bad, p2 = ingRtsp(sc, g, stream, sub) })
		if p == "" {
			p = p2
		}
		npk = len(sc.Plan)
	case "ps":
		p = ingGuard(func() { bad, npk = ingPsRun(sc, g, stream) })
	}
	out, _ := sub.Drain()
	g.DelHttpflvSubSession(fs)
	msgs, bad2 := ingProject(sc.Vc, out)
	if bad == nil {
		bad = []string{}
	}
	bad = append(bad, bad2...)
	sdp := sc.Sdp
	if sdp == nil {
		sdp = []ingSet{}
	}
	asc := sc.Asc
	if asc == nil {
		asc = []int{}
	}
	tw.Emit(M{"ev": "reset", "sc": sc.Sc})
	tw.Emit(M{"ev": "Run", "sc": sc.Sc, "g": sc.G, "path": sc.Path, "vc": sc.Vc, "ac": sc.Ac, "vrate": sc.Vrate, "arate": sc.Arate,
		"asc": asc, "sdp": sdp, "frames": sc.Frames, "npk": npk, "out": msgs, "bad": bad, "panic": p})
}

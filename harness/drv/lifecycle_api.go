package drv

import (
	"bytes"
	"encoding/json"
	"fmt"
	"io"
	"net"
	"net/http"
	"net/url"
	"reflect"
	"time"
	"unsafe"

	"github.com/q191201771/lal/pkg/base"
	"github.com/q191201771/lal/pkg/logic"
)

// The HTTP API of the lifecycle driver (C17: "each API response reports what actually happened"): in three of four
// scenarios start_relay_pull, stop_relay_pull, kick_session and start_rtp_pub go through lal's own HTTP-API server
// (logic.HttpApiServer: Listen + RunLoop on loopback) as JSON written here, and the step's return class comes from the
// error_code of the JSON answer, decoded with field names written here.  Every field the model varies is explicit in
// the request (the values 0 and -1 included); in a third of the scenarios the optional fields are left out where the
// model's value is lal's documented default (pull_retry_num 0, auto_stop_pull_after_no_out_ms -1, rtsp_mode 0,
// pull_timeout_ms 10000).  The remaining scenarios call the ServerManager methods directly, as before.

type lcApi struct {
	sm      *logic.ServerManager
	addr    string // "" = direct calls
	ln      net.Listener
	cl      *http.Client
	omitDef bool
}

type lcApiAnswer struct {
	ErrorCode int    `json:"error_code"`
	Desp      string `json:"desp"`
	Data      struct {
		StreamName string `json:"stream_name"`
		SessionId  string `json:"session_id"`
		Port       int    `json:"port"`
	} `json:"data"`
}

func newLcApi(sm *logic.ServerManager, overHttp, omitDef bool) *lcApi {
	a := &lcApi{sm: sm, omitDef: omitDef}
	if !overHttp {
		return a
	}
	for try := 0; try < 20; try++ {
		l, err := net.Listen("tcp", "127.0.0.1:0")
		if err != nil {
			continue
		}
		addr := l.Addr().String()
		l.Close()
		srv := logic.NewHttpApiServer(addr, sm)
		if err := srv.Listen(); err != nil {
			continue
		}
		// lal's API server has no Dispose: the listener it opened is closed through the field that holds it, so that
		// thousands of scenarios in one process do not keep a socket and a goroutine each
		f := reflect.ValueOf(srv).Elem().FieldByName("ln")
		if f.IsValid() && f.CanAddr() {
			a.ln = *(*net.Listener)(unsafe.Pointer(f.UnsafeAddr()))
		}
		go func() { _ = srv.RunLoop() }()
		a.addr = addr
		a.cl = &http.Client{Timeout: 5 * time.Second, Transport: &http.Transport{MaxIdleConns: 1, MaxIdleConnsPerHost: 1}}
		break
	}
	return a
}

func (a *lcApi) close() {
	if a.cl != nil {
		a.cl.CloseIdleConnections()
	}
	if a.ln != nil {
		a.ln.Close()
	}
}

// do sends one request; an answer that is no JSON document of the expected shape has error_code -1.
func (a *lcApi) do(method, path string, body interface{}) (ans lcApiAnswer) {
	ans.ErrorCode = -1
	var rd io.Reader
	if body != nil {
		b, _ := json.Marshal(body)
		rd = bytes.NewReader(b)
	}
	req, err := http.NewRequest(method, "http://"+a.addr+path, rd)
	if err != nil {
		return
	}
	resp, err := a.cl.Do(req)
	if err != nil {
		return
	}
	defer resp.Body.Close()
	b, _ := io.ReadAll(resp.Body)
	var raw map[string]json.RawMessage
	if resp.StatusCode != 200 || json.Unmarshal(b, &raw) != nil {
		return
	}
	if _, ok := raw["error_code"]; !ok {
		return
	}
	if json.Unmarshal(b, &ans) != nil {
		ans.ErrorCode = -1
	}
	return
}

func (a *lcApi) startPull(rawUrl, stream string, timeoutMs, retry, autoStopMs int) (code int) {
	if a.addr == "" {
		return a.sm.CtrlStartRelayPull(base.ApiCtrlStartRelayPullReq{Url: rawUrl, StreamName: stream, RtspMode: 0,
			PullTimeoutMs: timeoutMs, PullRetryNum: retry, AutoStopPullAfterNoOutMs: autoStopMs}).ErrorCode
	}
	m := M{"url": rawUrl, "stream_name": stream}
	if !(a.omitDef && timeoutMs == 10000) {
		m["pull_timeout_ms"] = timeoutMs
	}
	if !(a.omitDef && retry == 0) {
		m["pull_retry_num"] = retry
	}
	if !(a.omitDef && autoStopMs == -1) {
		m["auto_stop_pull_after_no_out_ms"] = autoStopMs
	}
	if !a.omitDef {
		m["rtsp_mode"] = 0
	}
	return a.do("POST", "/api/ctrl/start_relay_pull", m).ErrorCode
}

func (a *lcApi) stopPull(stream string) int {
	if a.addr == "" {
		return a.sm.CtrlStopRelayPull(stream).ErrorCode
	}
	return a.do("GET", "/api/ctrl/stop_relay_pull?stream_name="+url.QueryEscape(stream), nil).ErrorCode
}

func (a *lcApi) kick(stream, id string) int {
	if a.addr == "" {
		return a.sm.CtrlKickSession(base.ApiCtrlKickSessionReq{StreamName: stream, SessionId: id}).ErrorCode
	}
	return a.do("POST", "/api/ctrl/kick_session", M{"stream_name": stream, "session_id": id}).ErrorCode
}

func (a *lcApi) startRtpPub(stream string, timeoutMs, tcp int) (code int, sid string, port int) {
	if a.addr == "" {
		r := a.sm.CtrlStartRtpPub(base.ApiCtrlStartRtpPubReq{StreamName: stream, Port: 0, TimeoutMs: timeoutMs, IsTcpFlag: tcp})
		return r.ErrorCode, r.Data.SessionId, r.Data.Port
	}
	m := M{"stream_name": stream, "timeout_ms": timeoutMs}
	if !(a.omitDef && tcp == 0) {
		m["is_tcp_flag"] = tcp
	}
	if !a.omitDef {
		m["port"] = 0
	}
	ans := a.do("POST", "/api/ctrl/start_rtp_pub", m)
	if ans.ErrorCode == 0 && ans.Data.StreamName != stream {
		return -1, "", 0
	}
	return ans.ErrorCode, ans.Data.SessionId, ans.Data.Port
}

var _ = fmt.Sprintf

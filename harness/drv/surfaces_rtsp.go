package drv

import (
	"encoding/json"
	"fmt"
	"net"
	"os"
	"path/filepath"
	"strings"
	"sync"
	"time"

	"github.com/q191201771/lal/pkg/base"
	"github.com/q191201771/lal/pkg/logic"
	"github.com/q191201771/lal/pkg/rtsp"

	"lalverif/proj"
)

// ---------------------------------------------------------------- element records

// sfEl is the generic classed element of spec/Surfaces.tla: kind k, class fields a, b, c, integer n.
type sfEl struct {
	K string `json:"k"`
	A string `json:"a"`
	B string `json:"b"`
	C string `json:"c"`
	N int    `json:"n"`
}

type sfObs struct {
	Codes []int  `json:"codes"`
	Alive bool   `json:"alive"`
	Panic bool   `json:"panic"`
	Note  string `json:"note"`
}

// ---------------------------------------------------------------- per-child environment

type sfEnv struct {
	once sync.Once
	sm   *logic.ServerManager
	base string
	tmp  string
}

func newSfEnv(base string) *sfEnv { return &sfEnv{base: base} }

func (e *sfEnv) server() *logic.ServerManager {
	e.once.Do(func() {
		e.tmp, _ = os.MkdirTemp(e.base, "srv") // below the parent's scratch directory, which the parent removes
		httpc := func(pat string) M {
			return M{"enable": true, "enable_https": false, "url_pattern": pat, "gop_num": 0, "single_gop_max_frame_num": 0}
		}
		h := httpc("/hls/")
		for k, v := range (M{"out_path": filepath.Join(e.tmp, "hls") + "/", "fragment_duration_ms": 3000, "fragment_num": 6,
			"delete_threshold": 6, "cleanup_mode": 0, "use_memory_as_disk_flag": true, "sub_session_timeout_ms": 30000,
			"sub_session_hash_key": "q191201771"}) {
			h[k] = v
		}
		conf := M{
			"conf_version": base.ConfVersion,
			"rtmp":         M{"enable": true, "addr": "127.0.0.1:0", "gop_num": 0, "single_gop_max_frame_num": 0, "merge_write_size": 0},
			"in_session":   M{"add_dummy_audio_enable": false, "add_dummy_audio_wait_audio_ms": 150},
			"default_http": M{"http_listen_addr": "127.0.0.1:0"},
			"httpflv":      httpc("/"),
			"httpts":       httpc("/"),
			"hls":          h,
			"rtsp":         M{"enable": true, "addr": "127.0.0.1:0", "out_wait_key_frame_flag": true},
			"record":       M{"enable_flv": false, "flv_out_path": e.tmp + "/", "enable_mpegts": false, "mpegts_out_path": e.tmp + "/"},
			"simple_auth":  M{"key": "k"},
			"log":          M{"level": sfLogLevel(), "filename": "", "is_to_stdout": true},
		}
		raw, _ := json.Marshal(conf)
		e.sm = logic.NewServerManager(func(option *logic.Option) { option.ConfRawContent = raw })
	})
	return e.sm
}

func sfLogLevel() int {
	if os.Getenv("LALVERIF_SF_LOG") != "" {
		return 0
	}
	return 5
}

func (e *sfEnv) cleanup() {
	if e.tmp != "" {
		os.RemoveAll(e.tmp)
	}
}

func (e *sfEnv) run(sc *sfScenario) []M {
	if sc.Cfg == nil {
		sc.Cfg = map[string]string{}
	}
	steps := sc.Steps
	if steps == nil {
		steps = []json.RawMessage{}
	}
	evs := []M{{"ev": "reset", "sc": sc.Sc, "surf": sc.Surf, "cfg": sc.Cfg, "steps": steps}}
	var obs []sfObs
	end := M{"ev": "end", "sc": sc.Sc, "died": false, "confirmed": false, "panic": false, "second": false, "bystander": false,
		"done": 0, "crash": "", "frame": "", "note": "", "res": "n/a"}
	switch sc.Surf {
	case "rtsp", "ws", "rtp", "sdp":
		obs = e.runRtspFamily(sc, end)
	case "ps":
		obs = e.runPs(sc, end)
	case "psq":
		obs = e.runPsq(sc, end)
	case "pst":
		obs = e.runPst(sc, end)
	case "udp":
		obs = e.runUdp(sc, end)
	case "client":
		obs = e.runClient(sc, end)
	case "http":
		obs = e.runHttp(sc, end)
	default:
		end["note"] = "unknown surface"
	}
	anyPanic := false
	for i, o := range obs {
		if o.Codes == nil {
			o.Codes = []int{}
		}
		anyPanic = anyPanic || o.Panic
		evs = append(evs, M{"ev": "step", "sc": sc.Sc, "i": i + 1, "el": sc.Steps[i], "obs": o})
	}
	end["done"] = len(obs)
	if anyPanic {
		end["panic"] = true
	}
	return append(evs, end)
}

// ---------------------------------------------------------------- in-memory connection with idle detection

type sfConn struct {
	mu     sync.Mutex
	cond   *sync.Cond
	in     []byte
	out    []byte
	idle   bool
	closed bool // closed by either side
	name   string
}

func newSfConn(name string) *sfConn {
	c := &sfConn{name: name}
	c.cond = sync.NewCond(&c.mu)
	return c
}

func (c *sfConn) Read(b []byte) (int, error) {
	c.mu.Lock()
	defer c.mu.Unlock()
	for len(c.in) == 0 && !c.closed {
		c.idle = true
		c.cond.Wait()
	}
	c.idle = false
	if len(c.in) == 0 {
		return 0, fmt.Errorf("EOF")
	}
	n := copy(b, c.in)
	c.in = c.in[n:]
	return n, nil
}

func (c *sfConn) Write(b []byte) (int, error) {
	c.mu.Lock()
	defer c.mu.Unlock()
	if c.closed {
		return 0, fmt.Errorf("closed")
	}
	c.out = append(c.out, b...)
	return len(b), nil
}

func (c *sfConn) Feed(b []byte) {
	c.mu.Lock()
	c.idle = false
	c.in = append(c.in, b...)
	c.mu.Unlock()
	c.cond.Broadcast()
}

func (c *sfConn) Close() error {
	c.mu.Lock()
	c.closed = true
	c.mu.Unlock()
	c.cond.Broadcast()
	return nil
}

func (c *sfConn) state() (out []byte, idle bool, closed bool) {
	c.mu.Lock()
	defer c.mu.Unlock()
	return append([]byte{}, c.out...), c.idle && len(c.in) == 0, c.closed
}

type sfAddr string

func (a sfAddr) Network() string                      { return "mem" }
func (a sfAddr) String() string                       { return string(a) }
func (c *sfConn) LocalAddr() net.Addr                  { return sfAddr("127.0.0.1:5544") }
func (c *sfConn) RemoteAddr() net.Addr                 { return sfAddr("127.0.0.1:" + c.name) }
func (c *sfConn) SetDeadline(t time.Time) error       { return nil }
func (c *sfConn) SetReadDeadline(t time.Time) error   { return nil }
func (c *sfConn) SetWriteDeadline(t time.Time) error  { return nil }

// ---------------------------------------------------------------- RTSP peer

type sfRtspObs struct {
	sm  *logic.ServerManager
	pub *rtsp.PubSession
	sub *rtsp.SubSession
}

func (o *sfRtspObs) OnNewRtspPubSession(s *rtsp.PubSession) error {
	o.pub = s // the command session links it before it asks the observer
	return o.sm.OnNewRtspPubSession(s)
}
func (o *sfRtspObs) OnNewRtspSubSessionDescribe(s *rtsp.SubSession) (bool, []byte) {
	o.sub = s
	return o.sm.OnNewRtspSubSessionDescribe(s)
}
func (o *sfRtspObs) OnNewRtspSubSessionPlay(s *rtsp.SubSession) error {
	return o.sm.OnNewRtspSubSessionPlay(s)
}

type sfPeer struct {
	obs      *sfRtspObs
	conn     *sfConn
	done     chan struct{}
	ws       bool
	seen     int // responses consumed
	panicked string
	probeN   int
}

// newPeer starts what rtsp.Server.handleTcpConnect (or WebsocketServer.HandleWebsocket, an HTTP
// handler, whose panics net/http recovers) does for an accepted connection.
func (e *sfEnv) newPeer(name string, ws bool) *sfPeer {
	sm := e.server()
	p := &sfPeer{conn: newSfConn(name), done: make(chan struct{}), ws: ws}
	o := &sfRtspObs{sm: sm}
	p.obs = o
	sess := rtsp.NewServerCommandSession(o, p.conn, rtsp.ServerAuthConfig{}, ws, "dGhlIHNhbXBsZSBub25jZQ==")
	sm.OnNewRtspSessionConnect(sess)
	go func() {
		defer close(p.done)
		if ws {
			defer func() {
				if r := recover(); r != nil {
					p.panicked = fmt.Sprint(r)
					p.conn.Close()
				}
			}()
		}
		_ = sess.RunLoop()
		if o.pub != nil {
			sm.OnDelRtspPubSession(o.pub)
			_ = o.pub.Dispose()
		} else if o.sub != nil {
			sm.OnDelRtspSubSession(o.sub)
			_ = o.sub.Dispose()
		}
		sm.OnDelRtspSession(sess)
	}()
	return p
}

type sfResp struct {
	Code      int
	Cseq      string
	Body      string
	Transport string
}

// sfSplitOut cuts what lal wrote into RTSP responses and "$" frames.
func sfSplitOut(b []byte) (rs []sfResp, frames int) {
	for len(b) > 0 {
		if b[0] == '$' {
			if len(b) < 4 {
				return
			}
			l := int(b[2])<<8 | int(b[3])
			if len(b) < 4+l {
				return
			}
			frames++
			b = b[4+l:]
			continue
		}
		k := strings.Index(string(b), "\r\n\r\n")
		if k < 0 {
			return
		}
		one, _ := proj.ParseRtspResponses(b)
		if len(one) == 0 {
			return
		}
		cl := 0
		fmt.Sscanf(one[0].Headers["content-length"], "%d", &cl)
		if len(b) < k+4+cl {
			return
		}
		rs = append(rs, sfResp{Code: one[0].Code, Cseq: one[0].Headers["cseq"], Body: one[0].Body, Transport: one[0].Headers["transport"]})
		b = b[k+4+cl:]
	}
	return
}

func (p *sfPeer) responses() []sfResp {
	out, _, _ := p.conn.state()
	if p.ws {
		out = proj.SfUnWs(out)
	}
	rs, _ := sfSplitOut(out)
	return rs
}

func (p *sfPeer) wrap(b []byte) []byte {
	if p.ws {
		form := "7"
		if len(b) > 125 {
			form = "16"
		}
		return proj.SfWsFrame(true, 2, true, form, b, -1)
	}
	return b
}

func sfReq(method, uri, cseq string, hdrs []string, body string) []byte {
	s := method + " " + uri + " RTSP/1.0\r\n"
	if cseq != "" {
		s += "CSeq: " + cseq + "\r\n"
	}
	s += "User-Agent: lalverif\r\n"
	for _, h := range hdrs {
		s += h + "\r\n"
	}
	if body != "" {
		s += fmt.Sprintf("Content-Type: application/sdp\r\nContent-Length: %d\r\n", len(body))
	}
	return []byte(s + "\r\n" + body)
}

func (p *sfPeer) ended() bool {
	select {
	case <-p.done:
		return true
	default:
		return false
	}
}

// send feeds raw bytes followed by an OPTIONS probe and waits until the probe is answered or the
// session is over.  Responses written before the probe's answer belong to the element.
func (p *sfPeer) send(raw []byte) sfObs {
	p.probeN++
	cseq := fmt.Sprint(9000 + p.probeN)
	p.conn.Feed(append(append([]byte{}, raw...), p.wrap(sfReq("OPTIONS", "rtsp://127.0.0.1:5544/live/probe", cseq, nil, ""))...))
	o := sfObs{Codes: []int{}}
	dl := time.Now().Add(8 * time.Second)
	for {
		rs := p.responses()
		for i := p.seen; i < len(rs); i++ {
			if rs[i].Cseq == cseq {
				for _, r := range rs[p.seen:i] {
					o.Codes = append(o.Codes, r.Code)
				}
				p.seen = i + 1
				o.Alive = rs[i].Code == 200
				return o
			}
		}
		if p.ended() {
			rs = p.responses()
			for _, r := range rs[p.seen:] {
				if r.Cseq != cseq {
					o.Codes = append(o.Codes, r.Code)
				}
			}
			p.seen = len(rs)
			if p.panicked != "" {
				o.Panic = true
				o.Note = sfShort(p.panicked)
			}
			return o
		}
		if time.Now().After(dl) {
			o.Note = "timeout"
			return o
		}
		time.Sleep(30 * time.Microsecond)
	}
}

// sendEof feeds raw bytes and ends the stream there (the peer disconnects).
func (p *sfPeer) sendEof(raw []byte) sfObs {
	p.conn.Feed(raw)
	p.conn.Close()
	o := sfObs{Codes: []int{}}
	if !waitDone(p.done, 8000) {
		o.Note = "timeout"
		o.Alive = true
		return o
	}
	rs := p.responses()
	for _, r := range rs[p.seen:] {
		o.Codes = append(o.Codes, r.Code)
	}
	p.seen = len(rs)
	if p.panicked != "" {
		o.Panic = true
		o.Note = sfShort(p.panicked)
	}
	return o
}

func (p *sfPeer) close() bool {
	p.conn.Close()
	return waitDone(p.done, 8000)
}

func sfShort(s string) string {
	if len(s) > 100 {
		s = s[:100]
	}
	return s
}

func sfURL(stream string) string { return "rtsp://127.0.0.1:5544/live/" + stream }

var sfGoodSdp = proj.SfSdp{Shape: "ok", V: "avc", Vr: "ok", Vf: "ok", A: "aac", Ar: "ok", Af: "ok", Ctl: "ok"}

func sfTransport(cls string) []string {
	switch cls {
	case "tcp01":
		return []string{"Transport: RTP/AVP/TCP;unicast;interleaved=0-1;mode=record"}
	case "tcp23":
		return []string{"Transport: RTP/AVP/TCP;unicast;interleaved=2-3;mode=record"}
	case "tcp_big":
		return []string{"Transport: RTP/AVP/TCP;unicast;interleaved=256-257"}
	case "tcp_garb":
		return []string{"Transport: RTP/AVP/TCP;unicast;interleaved=x-y"}
	case "tcp_one":
		return []string{"Transport: RTP/AVP/TCP;unicast;interleaved=0"}
	case "tcp_empty":
		return []string{"Transport: RTP/AVP/TCP;unicast;interleaved="}
	case "tcp_neg":
		return []string{"Transport: RTP/AVP/TCP;unicast;interleaved=-1--2"}
	case "udp":
		return []string{"Transport: RTP/AVP/UDP;unicast;client_port=30000-30001"}
	case "udp0":
		return []string{"Transport: RTP/AVP;unicast;client_port=0-0"}
	case "udp65535":
		return []string{"Transport: RTP/AVP;unicast;client_port=65535-65536"}
	case "udp_big":
		return []string{"Transport: RTP/AVP;unicast;client_port=70000-70001"}
	case "udp_garb":
		return []string{"Transport: RTP/AVP;unicast;client_port=a-b"}
	case "udp_one":
		return []string{"Transport: RTP/AVP;unicast;client_port=30000"}
	case "udp_noport":
		return []string{"Transport: RTP/AVP;unicast"}
	case "empty":
		return []string{"Transport: "}
	}
	return nil // "none": no Transport header
}

// rtspBytes concretises an element of the RTSP command machine.  eof = the stream ends after it.
func (e *sfEnv) rtspBytes(el *sfEl, i int, own, live string) (raw []byte, eof bool) {
	cseq := fmt.Sprint(i)
	u := sfURL(own)
	switch el.K {
	case "OPTIONS", "RECORD", "PLAY", "TEARDOWN", "GET_PARAMETER", "PAUSE", "FOO":
		return sfReq(el.K, u, cseq, []string{"Session: 191201771"}, ""), false
	case "ANNOUNCE":
		s := sfGoodSdp
		switch el.A {
		case "empty", "garbage", "nom":
			s.Shape = el.A
		case "hevc":
			s.V = "hevc"
		}
		if el.A == "empty" {
			return sfReq("ANNOUNCE", u, cseq, []string{"Content-Type: application/sdp", "Content-Length: 0"}, ""), false
		}
		return sfReq("ANNOUNCE", u, cseq, nil, proj.SfSdpText(&s)), false
	case "DESCRIBE":
		t := own
		if el.A == "live" {
			t = live
		}
		return sfReq("DESCRIBE", sfURL(t), cseq, []string{"Accept: application/sdp"}, ""), false
	case "SETUP":
		t := own
		if el.C == "live" {
			t = live
		}
		uri := sfURL(t)
		switch el.B {
		case "v":
			uri += "/streamid=0"
		case "a":
			uri += "/streamid=1"
		case "x":
			uri += "/streamid=7"
		}
		return sfReq("SETUP", uri, cseq, sfTransport(el.A), ""), false
	case "bad":
		switch el.A {
		case "nospace":
			return []byte("OPTIONS\r\n\r\n"), false
		case "binary":
			return []byte{0xff, 0xfe, 0x00, 0x01, 0x80, '\r', '\n', '\r', '\n'}, false
		case "emptyline":
			return []byte("\r\n"), false
		case "nocolon":
			return []byte("OPTIONS " + u + " RTSP/1.0\r\nCSeq " + cseq + "\r\nnocolonhere\r\n\r\n"), false
		case "nocseq":
			return sfReq("OPTIONS", u, "", nil, ""), false
		case "twospaces":
			return []byte("OPTIONS  " + u + "  RTSP/1.0\r\nCSeq: " + cseq + "\r\n\r\n"), false
		case "nouri":
			return []byte("DESCRIBE \r\nCSeq: " + cseq + "\r\n\r\n"), false
		case "baduri":
			return sfReq("DESCRIBE", "rtsp://%zz:x/\x7f", cseq, nil, ""), false
		case "nopath":
			return sfReq("ANNOUNCE", "rtsp://127.0.0.1:5544", cseq, nil, proj.SfSdpText(&sfGoodSdp)), false
		case "httpuri":
			return sfReq("DESCRIBE", "/live/x", cseq, nil, ""), false
		case "cl_neg":
			return []byte("ANNOUNCE " + u + " RTSP/1.0\r\nCSeq: " + cseq + "\r\nContent-Length: -1\r\n\r\n"), false
		case "cl_huge":
			return []byte("ANNOUNCE " + u + " RTSP/1.0\r\nCSeq: " + cseq + "\r\nContent-Length: 99999999999999999999\r\n\r\n"), false
		case "cl_2e62":
			return []byte("ANNOUNCE " + u + " RTSP/1.0\r\nCSeq: " + cseq + "\r\nContent-Length: 4611686018427387904\r\n\r\n"), false
		case "cl_nan":
			return []byte("ANNOUNCE " + u + " RTSP/1.0\r\nCSeq: " + cseq + "\r\nContent-Length: 12x\r\n\r\n"), false
		case "cl_short": // body longer than announced: the rest is read as the next request
			body := proj.SfSdpText(&sfGoodSdp)
			return []byte(fmt.Sprintf("ANNOUNCE %s RTSP/1.0\r\nCSeq: %s\r\nContent-Length: %d\r\n\r\n%s", u, cseq, 10, body)), false
		case "longline":
			return []byte("OPTIONS " + u + strings.Repeat("A", 70000) + " RTSP/1.0\r\nCSeq: " + cseq + "\r\n\r\n"), false
		case "manyhdr":
			s := "OPTIONS " + u + " RTSP/1.0\r\nCSeq: " + cseq + "\r\n"
			for k := 0; k < 2000; k++ {
				s += fmt.Sprintf("X-H%d: v\r\n", k)
			}
			return []byte(s + "\r\n"), false
		case "auth": // Authorization header on a server without authentication
			return sfReq("DESCRIBE", u, cseq, []string{"Authorization: Digest username=\"", "Authorization: Basic"}, ""), false
		}
	case "frame":
		ch := 0
		fmt.Sscanf(el.A, "%d", &ch)
		var body []byte
		switch el.B {
		case "0":
		case "1":
			body = []byte{0x80}
		case "2":
			body = []byte{0x80, 200}
		case "12":
			body = proj.SfRtpDatagram("nopl", 0, false, 96, 1, 0, 7, nil)
		case "rtp":
			body = proj.SfRtpDatagram("ok", 0, true, 96, i, 3000, 7, proj.SfPayload("avc", "single"))
		case "sr":
			body = proj.SfRtcp("sr", -1, 7)
		}
		return append([]byte{'$', byte(ch), byte(len(body) >> 8), byte(len(body))}, body...), false
	case "eof":
		switch el.A {
		case "now":
			return nil, true
		case "req_cut":
			return []byte("OPTIONS " + u + " RTSP/1.0\r\nCSeq: " + cseq + "\r\nUser-Age"), true
		case "line_cut":
			return []byte("OPTI"), true
		case "hdr_end_cut":
			return []byte("OPTIONS " + u + " RTSP/1.0\r\nCSeq: " + cseq + "\r\n"), true
		case "body_cut":
			body := proj.SfSdpText(&sfGoodSdp)
			return []byte(fmt.Sprintf("ANNOUNCE %s RTSP/1.0\r\nCSeq: %s\r\nContent-Length: %d\r\n\r\n%s", u, cseq, len(body)+50, body)), true
		case "cl_big":
			return []byte("ANNOUNCE " + u + " RTSP/1.0\r\nCSeq: " + cseq + "\r\nContent-Length: 100000\r\n\r\nv=0\r\n"), true
		case "frame1":
			return []byte{'$'}, true
		case "frame2":
			return []byte{'$', 0}, true
		case "frame3":
			return []byte{'$', 0, 0}, true
		case "frame_cut":
			return []byte{'$', 0, 0xff, 0xff, 0x80, 96, 0, 1}, true
		}
	}
	return []byte("BOGUS\r\n\r\n"), false
}

// wsBytes: one WebSocket frame (element k = "ws"): a = length form + mask flag ("7m", "16u", ...),
// b = opcode/fin class, c = inner message, n = cut (bytes kept; -1 whole).
func (e *sfEnv) wsBytes(el *sfEl, i int, own, live string) (raw []byte, eof bool) {
	var inner []byte
	switch el.C {
	case "OPTIONS":
		inner = sfReq("OPTIONS", sfURL(own), fmt.Sprint(i), nil, "")
	case "DESCRIBE":
		inner = sfReq("DESCRIBE", sfURL(live), fmt.Sprint(i), nil, "")
	case "SETUP":
		inner = sfReq("SETUP", sfURL(live)+"/streamid=0", fmt.Sprint(i), sfTransport("tcp01"), "")
	case "PLAY":
		inner = sfReq("PLAY", sfURL(live), fmt.Sprint(i), nil, "")
	case "TEARDOWN":
		inner = sfReq("TEARDOWN", sfURL(live), fmt.Sprint(i), nil, "")
	case "garbage":
		inner = []byte{0xff, 0x00, 0x01, '\r', '\n', '\r', '\n'}
	case "half":
		b := sfReq("OPTIONS", sfURL(own), fmt.Sprint(i), nil, "")
		inner = b[:len(b)/2]
	case "long":
		inner = sfReq("OPTIONS", sfURL(own), fmt.Sprint(i), []string{"X-Pad: " + strings.Repeat("p", 300)}, "")
	case "huge":
		inner = sfReq("OPTIONS", sfURL(own), fmt.Sprint(i), []string{"X-Pad: " + strings.Repeat("p", 70000)}, "")
	case "dollar":
		inner = []byte{'$', 0, 0, 4, 0x80, 96, 0, 1}
	case "empty":
	}
	masked := strings.HasSuffix(el.A, "m")
	form := strings.TrimSuffix(strings.TrimSuffix(el.A, "m"), "u")
	fin, op := true, 2
	switch el.B {
	case "text":
		op = 1
	case "bin":
	case "cont":
		op = 0
	case "close":
		op = 8
	case "ping":
		op = 9
	case "pong":
		op = 10
	case "rsv":
		op = 0x72 & 0xf
	case "nofin":
		fin = false
	}
	raw = proj.SfWsFrame(fin, op, masked, form, inner, el.N)
	eof = el.N >= 0 || form == "16big" || el.C == "half"
	return
}

// rtpBytes: an interleaved frame carrying an RTP / RTCP datagram of the classes of the element.
func sfRtpBytes(el *sfEl, i int, vc string, aud string) []byte {
	chV, chA := 0, 2
	codec, pt, ssrc := vc, 96, uint32(0x11111111)
	ch := chV
	if el.A == "a" {
		codec, pt, ssrc, ch = aud, 97, 0x22222222, chA
	}
	seq := 100 + i
	ts := uint32(90000 + 3000*i)
	var dg []byte
	switch el.K {
	case "rtp":
		pl := proj.SfPayload(codec, el.C)
		marker := true
		if strings.HasPrefix(el.C, "fuS") || strings.HasPrefix(el.C, "fuM") || el.C == "auFragS" || strings.HasSuffix(el.C, "S") {
			marker = false
		}
		if codec == "aac" && (el.C == "auFragS" || el.C == "auFragE" || el.C == "auFragOver") {
			ts = 90000 // fragments of one access unit share the timestamp
		}
		dg = proj.SfRtpDatagram(el.B, el.N, marker, pt, seq, ts, ssrc, pl)
	case "rtcp":
		ch++
		dg = proj.SfRtcp(el.B, el.N, ssrc)
	case "rtcp_on_rtp":
		dg = proj.SfRtcp(el.B, el.N, ssrc)
	case "rtp_on_rtcp":
		ch++
		dg = proj.SfRtpDatagram("ok", 0, true, pt, seq, ts, ssrc, proj.SfPayload(codec, el.C))
	case "rtcp_seq":
		var out []byte
		for _, d := range sfRtcpSeq(el.B, codec, pt, seq, ts, ssrc) {
			c := ch
			if d.rtcp {
				c++
			}
			out = append(out, '$', byte(c), byte(len(d.b)>>8), byte(len(d.b)))
			out = append(out, d.b...)
		}
		return out
	}
	return append([]byte{'$', byte(ch), byte(len(dg) >> 8), byte(len(dg))}, dg...)
}

type sfDg struct {
	rtcp bool
	b    []byte
}

// sfRtcpSeq: datagrams of a report interval in which the highest sequence number does not advance (see MC_Surfaces).
func sfRtcpSeq(k, codec string, pt, seq int, ts uint32, ssrc uint32) []sfDg {
	plc := "single"
	if codec == "aac" {
		plc = "auOk"
	}
	rtp := func(s int) sfDg {
		return sfDg{false, proj.SfRtpDatagram("ok", 0, true, pt, s&0xffff, ts, ssrc, proj.SfPayload(codec, plc))}
	}
	sr := sfDg{true, proj.SfRtcp("sr", -1, ssrc)}
	switch k {
	case "dup":
		return []sfDg{rtp(seq), sr, rtp(seq), sr, rtp(seq), rtp(seq), sr}
	case "old":
		return []sfDg{rtp(seq), sr, rtp(seq - 5), sr}
	case "none":
		return []sfDg{rtp(seq), sr, sr}
	default: // wrap
		return []sfDg{rtp(65535), sr, rtp(0), sr, rtp(0), sr, rtp(65535), sr}
	}
}

func sfOk(o sfObs) bool { return o.Alive && len(o.Codes) == 1 && o.Codes[0] == 200 }

// publish runs ANNOUNCE / SETUP / SETUP / RECORD with the given SDP on a fresh peer.
func (e *sfEnv) publish(p *sfPeer, stream string, s *proj.SfSdp) bool {
	if !sfOk(p.send(sfReq("ANNOUNCE", sfURL(stream), "1", nil, proj.SfSdpText(s)))) {
		return false
	}
	if s.V != "none" && !sfOk(p.send(sfReq("SETUP", sfURL(stream)+"/streamid=0", "2", sfTransport("tcp01"), ""))) {
		return false
	}
	if s.A != "none" && !sfOk(p.send(sfReq("SETUP", sfURL(stream)+"/streamid=1", "3", sfTransport("tcp23"), ""))) {
		return false
	}
	return sfOk(p.send(sfReq("RECORD", sfURL(stream), "4", []string{"Range: npt=0.000-"}, "")))
}

func (e *sfEnv) runRtspFamily(sc *sfScenario, end M) (obs []sfObs) {
	own, live, again := fmt.Sprintf("s%d", sc.Sc), fmt.Sprintf("b%d", sc.Sc), fmt.Sprintf("z%d", sc.Sc)
	// a bystander that publishes `live` before anything else happens
	by := e.newPeer("by", false)
	byOk := sfOk(by.send(sfReq("ANNOUNCE", sfURL(live), "1", nil, proj.SfSdpText(&sfGoodSdp))))
	p := e.newPeer("c", sc.Surf == "ws")
	vc, ac := sc.Cfg["vc"], sc.Cfg["ac"]
	if sc.Surf == "rtp" {
		s := sfGoodSdp
		s.V = vc
		if r := sc.Cfg["rate"]; r != "" {
			s.Vr, s.Ar = r, r // clock rate class of both tracks
		}
		switch ac {
		case "aac":
		case "pcma":
			s.A = "pcma"
		}
		if !e.publish(p, own, &s) {
			end["note"] = "prelude failed"
			p.close()
			by.close()
			return
		}
	}
	var sub *sfPeer
	if sc.Surf == "rtp" && sc.Cfg["sub"] == "y" {
		// an RTSP subscriber of the published stream that waits for a key frame: lal inspects every RTP
		// packet of the publisher for a frame boundary on its behalf
		// the SDP of the publisher reaches the group on a goroutine of its own: a DESCRIBE that overtakes it is
		// answered late (and the SETUP behind it refused); such an attempt is repeated on a new connection
		okS := false
		var tr []sfObs
		for attempt := 0; attempt < 20 && !okS; attempt++ {
			if sub != nil {
				sub.close()
				time.Sleep(2 * time.Millisecond)
			}
			sub = e.newPeer("sub", false)
			tr = nil
			tr = append(tr, sub.send(sfReq("DESCRIBE", sfURL(own), "1", []string{"Accept: application/sdp"}, "")))
			if !sfOk(tr[0]) {
				continue
			}
			tr = append(tr, sub.send(sfReq("SETUP", sfURL(own)+"/streamid=0", "2", sfTransport("tcp01"), "")))
			tr = append(tr, sub.send(sfReq("SETUP", sfURL(own)+"/streamid=1", "3", sfTransport("tcp23"), "")))
			tr = append(tr, sub.send(sfReq("PLAY", sfURL(own), "4", nil, "")))
			okS = sfOk(tr[1]) && sfOk(tr[2]) && sfOk(tr[3])
		}
		if !okS {
			end["note"] = fmt.Sprintf("subscriber prelude failed %+v", tr)
		}
		defer sub.close()
	}
	for i, raw := range sc.Steps {
		var el sfEl
		json.Unmarshal(raw, &el)
		var o sfObs
		switch {
		case el.K == "sdp":
			var s proj.SfSdp
			json.Unmarshal(raw, &s)
			if s.Shape == "empty" {
				o = p.send(sfReq("ANNOUNCE", sfURL(own), "1", []string{"Content-Length: 0"}, ""))
			} else {
				o = p.send(sfReq("ANNOUNCE", sfURL(own), "1", nil, proj.SfSdpText(&s)))
			}
		case el.K == "media":
			// what a publisher does after a successful ANNOUNCE: both SETUPs, RECORD, then media of both tracks
			var s proj.SfSdp
			json.Unmarshal(sc.Steps[0], &s)
			o1 := p.send(sfReq("SETUP", sfURL(own)+"/streamid=0", "2", sfTransport("tcp01"), ""))
			o = o1
			if o1.Alive {
				o2 := p.send(sfReq("SETUP", sfURL(own)+"/streamid=1", "3", sfTransport("tcp23"), ""))
				o.Codes = append(o.Codes, o2.Codes...)
				o.Alive = o2.Alive
			}
			if o.Alive {
				o3 := p.send(sfReq("RECORD", sfURL(own), "4", nil, ""))
				o.Codes = append(o.Codes, o3.Codes...)
				o.Alive = o3.Alive
			}
			if o.Alive {
				codec := "avc"
				if s.V == "hevc" {
					codec = "hevc"
				}
				var b []byte
				k := 0
				add := func(ch int, dg []byte) {
					b = append(b, '$', byte(ch), byte(len(dg)>>8), byte(len(dg)))
					b = append(b, dg...)
					k++
				}
				apt := proj.SfAudioPt(&s)
				for r := 0; r < 3; r++ {
					ts := uint32(90000 * r)
					if codec == "avc" {
						add(0, proj.SfRtpDatagram("ok", 0, false, 96, 10+3*r, ts, 1, proj.SfPayload(codec, "stapOk")))
					} else {
						add(0, proj.SfRtpDatagram("ok", 0, false, 96, 10+3*r, ts, 1, proj.SfPayload(codec, "apOk")))
					}
					add(0, proj.SfRtpDatagram("ok", 0, false, 96, 11+3*r, ts, 1, proj.SfPayload(codec, "fuS")))
					add(0, proj.SfRtpDatagram("ok", 0, true, 96, 12+3*r, ts, 1, proj.SfPayload(codec, "fuE")))
					if s.A == "aac" || s.A == "unk" || s.A == "none" {
						add(2, proj.SfRtpDatagram("ok", 0, true, apt, 20+2*r, uint32(44100*r), 2, proj.SfPayload("aac", "au2")))
						add(2, proj.SfRtpDatagram("ok", 0, true, apt, 21+2*r, uint32(44100*r+2048), 2, proj.SfPayload("aac", "auOk")))
					} else {
						add(2, proj.SfRtpDatagram("ok", 0, true, apt, 20+2*r, uint32(8000*r), 2, proj.SfPayload("raw", "ok")))
					}
					add(1, proj.SfRtcp("sr", -1, 1))
					add(3, proj.SfRtcp("sr", -1, 2))
				}
				o4 := p.send(b)
				o.Alive = o4.Alive
				o.Note = o4.Note
			}
		case sc.Surf == "rtp":
			o = p.send(sfRtpBytes(&el, i+1, vc, ac))
		case sc.Surf == "ws":
			b, eof := e.wsBytes(&el, i+1, own, live)
			if eof {
				o = p.sendEof(b)
			} else {
				o = p.send(b)
			}
		default:
			b, eof := e.rtspBytes(&el, i+1, own, live)
			if eof {
				o = p.sendEof(b)
			} else {
				o = p.send(b)
			}
		}
		obs = append(obs, o)
		if !o.Alive {
			break
		}
	}
	closedOk := p.close()
	if !closedOk {
		end["note"] = "session loop did not end"
	}
	if p.panicked != "" {
		end["panic"] = true
		end["note"] = sfShort(p.panicked)
	}
	// only the offending session was closed: the bystander still answers, a new session is served
	end["bystander"] = byOk && by.send(nil).Alive
	p2 := e.newPeer("n", false)
	end["second"] = e.publish(p2, again, &sfGoodSdp) && closedOk
	p2.close()
	by.close()
	return
}

package drv

import (
	"bufio"
	"bytes"
	"encoding/base64"
	"encoding/json"
	"fmt"
	"net"
	"net/http"
	"net/http/httptest"
	"os"
	"path/filepath"
	"regexp"
	"sort"
	"strings"
	"sync"
	"time"

	"github.com/q191201771/lal/pkg/base"
	"github.com/q191201771/lal/pkg/httpflv"
	"github.com/q191201771/lal/pkg/httpts"
	"github.com/q191201771/lal/pkg/logic"
	"github.com/q191201771/lal/pkg/rtmp"
	"github.com/q191201771/lal/pkg/rtsp"

	"lalverif/proj"
)

// Driver "auth" (C14): a real logic.ServerManager per scenario (never listening); requests are
// made the way the servers deliver them: RTMP handshake + commands on an in-memory connection
// read by rtmp.ServerSession.RunLoop, HTTP-FLV/TS through logic.HttpServerHandler.ServeSubSession
// with a hijackable writer, RTSP text on rtsp.ServerCommandSession.RunLoop, HLS through a
// http.ServeMux registered like base.HttpServerManager does.  The driver only projects what came
// back (bytes on the connection, the stat API, the file tree below a temporary directory).

type aStep struct {
	Conn  string `json:"conn"`
	Cred  string `json:"cred"`
	Nonce string `json:"nonce"`
}

// hpPath is one spelling of an HLS (or HTTP-FLV/TS) request path, component by component.
type hpPath struct {
	Shape  string `json:"shape"`
	Prefix string `json:"prefix"`
	Stream string `json:"stream"`
	Fname  string `json:"fname"`
	Ext    string `json:"ext"`
	Slash  string `json:"slash"`
}

type authScenario struct {
	Sc   int    `json:"sc"`
	Kind string `json:"kind"` // sa | ra | kick | bl | rd | wr
	// sa
	Flags []string `json:"flags"`
	Pd    string   `json:"pd"`
	Form  string   `json:"form"`
	Ovr   string   `json:"ovr"`
	// ra
	Enable bool    `json:"enable"`
	Method int     `json:"method"`
	Pass   string  `json:"pass"`
	Steps  []aStep `json:"steps"`
	// rd / wr
	Req   []string `json:"req"`
	Name  []string `json:"name"`
	Proto string   `json:"proto"`
	// bl
	Dur    int   `json:"dur"`
	Probes []int `json:"probes"`
	// kick
	Which string `json:"which"`
	Peers int    `json:"peers"`
	// bl
	Fam string `json:"fam"`
	// hp / sv
	Cfg    string `json:"cfg"`
	Listed bool   `json:"listed"`
	Hp     hpPath `json:"hp"`
}

const (
	authKey    = "q191201771"
	authStream = "cam1"
	authOther  = "cam2"
	authUpper  = "CAM1"
	authUser   = "admin"
	authSdp    = "v=0\r\no=- 0 0 IN IP4 127.0.0.1\r\ns=No Name\r\nc=IN IP4 127.0.0.1\r\nt=0 0\r\n" +
		"m=video 0 RTP/AVP 96\r\na=rtpmap:96 H264/90000\r\n" +
		"a=fmtp:96 packetization-mode=1; sprop-parameter-sets=Z2QAIKzZQMApsBEAAAMAAQAAAwAyDxgxlg==,aOvssiw=; profile-level-id=640020\r\n" +
		"a=control:streamid=0\r\n"
)

var authOvr = map[string]string{"none": "", "lower": "backdoor9", "mixed": "BackDoor9"}
var authPass = map[string]string{"plain": "pw1", "colon": "p:w"}

func init() { Registry["auth"] = authDriver }

type authEnv struct {
	sm                 *logic.ServerManager
	base, hls, flv, ts string
	rtspSrv            *rtsp.Server
	rtspBg             *rtspClient
	rtspAuth           rtsp.ServerAuthConfig
}

func newAuthEnv(dir string, sa M, ra M, record bool, hlsOpt ...M) *authEnv {
	e := &authEnv{base: dir}
	e.hls = filepath.Join(dir, "a", "b", "hls")
	e.flv = filepath.Join(dir, "a", "b", "flv")
	e.ts = filepath.Join(dir, "a", "b", "ts")
	for _, d := range []string{e.hls, e.flv, e.ts} {
		os.MkdirAll(d, 0755)
	}
	if sa == nil {
		sa = M{}
	}
	sa["key"] = authKey
	rc := M{"enable": true, "addr": "127.0.0.1:0", "out_wait_key_frame_flag": false}
	for k, v := range ra {
		rc[k] = v
	}
	httpc := func(pat string) M {
		return M{"enable": true, "enable_https": false, "url_pattern": pat, "gop_num": 0, "single_gop_max_frame_num": 0}
	}
	h := httpc("/hls/")
	for k, v := range (M{"out_path": e.hls + "/", "fragment_duration_ms": 3000, "fragment_num": 6, "delete_threshold": 6,
		"cleanup_mode": 0, "use_memory_as_disk_flag": false, "sub_session_timeout_ms": 0, "sub_session_hash_key": ""}) {
		h[k] = v
	}
	for _, o := range hlsOpt {
		for k, v := range o {
			h[k] = v
		}
	}
	conf := M{
		"conf_version": base.ConfVersion,
		"rtmp":         M{"enable": true, "addr": "127.0.0.1:0", "gop_num": 0, "single_gop_max_frame_num": 0, "merge_write_size": 0},
		"in_session":   M{"add_dummy_audio_enable": false, "add_dummy_audio_wait_audio_ms": 150},
		"default_http": M{"http_listen_addr": "127.0.0.1:0"},
		"httpflv":      httpc("/"),
		"httpts":       httpc("/"),
		"hls":          h,
		"rtsp":         rc,
		"record": M{"enable_flv": record, "flv_out_path": e.flv + "/", "enable_mpegts": record,
			"mpegts_out_path": e.ts + "/"},
		"simple_auth": sa,
		"log":         M{"level": 5, "filename": "", "is_to_stdout": true},
	}
	raw, _ := json.Marshal(conf)
	e.sm = logic.NewServerManager(func(option *logic.Option) { option.ConfRawContent = raw })
	e.rtspAuth = e.sm.Config().RtspConfig.ServerAuthConfig
	e.rtspSrv = rtsp.NewServer("", e.sm, e.rtspAuth)
	return e
}

// ---- RTMP client on a MemConn

type rtmpWrap struct {
	sm       *logic.ServerManager
	ch       chan error
	admitted bool
}

func (o *rtmpWrap) OnRtmpConnect(s *rtmp.ServerSession, opa rtmp.ObjectPairArray) {
	o.sm.OnRtmpConnect(s, opa)
}
func (o *rtmpWrap) OnNewRtmpPubSession(s *rtmp.ServerSession) error {
	err := o.sm.OnNewRtmpPubSession(s)
	o.admitted = err == nil
	o.ch <- err
	return err
}
func (o *rtmpWrap) OnNewRtmpSubSession(s *rtmp.ServerSession) error {
	err := o.sm.OnNewRtmpSubSession(s)
	o.admitted = err == nil
	o.ch <- err
	return err
}

type rtmpClient struct {
	conn *MemConn
	sess *rtmp.ServerSession
	done chan struct{}
	ch   chan error
	pub  bool
}

func rtmpCommand(csid, msid int, parts ...[]byte) []byte {
	var p []byte
	for _, x := range parts {
		p = append(p, x...)
	}
	return proj.RtmpMsgChunk(csid, 20, msid, 0, p)
}

// startRtmp performs handshake, connect, createStream and publish/play of `name` (raw string, as a
// client puts it into the command).  verdict: "ok" | "rejected" | "timeout" | "ended".
func (e *authEnv) startRtmp(cname string, pub bool, name string) (*rtmpClient, string) {
	c := &rtmpClient{conn: NewMemConn(cname), done: make(chan struct{}), ch: make(chan error, 4), pub: pub}
	obs := &rtmpWrap{sm: e.sm, ch: c.ch}
	c.sess = rtmp.NewServerSession(obs, c.conn)
	go func() {
		defer close(c.done)
		defer func() { recover() }()
		_ = c.sess.RunLoop()
		// what rtmp.Server.handleTcpConnect does when the loop ends
		if c.sess.DisposeByObserverFlag {
			return
		}
		if obs.admitted {
			if pub {
				e.sm.OnDelRtmpPubSession(c.sess)
			} else {
				e.sm.OnDelRtmpSubSession(c.sess)
			}
		}
	}()
	var b []byte
	c0c1 := make([]byte, 1537)
	c0c1[0] = 3
	b = append(b, c0c1...)
	b = append(b, make([]byte, 1536)...)
	b = append(b, proj.RtmpMsgChunk(2, 1, 0, 0, []byte{0, 0, 0x10, 0})...) // set chunk size 4096
	b = append(b, rtmpCommand(3, 0, proj.AmfStr("connect"), proj.AmfNum(1),
		proj.AmfObj("app", "live", "tcUrl", "rtmp://h/live"))...)
	b = append(b, rtmpCommand(3, 0, proj.AmfStr("createStream"), proj.AmfNum(2), proj.AmfNull())...)
	if pub {
		b = append(b, rtmpCommand(4, 1, proj.AmfStr("publish"), proj.AmfNum(3), proj.AmfNull(), proj.AmfStr(name), proj.AmfStr("live"))...)
	} else {
		b = append(b, rtmpCommand(4, 1, proj.AmfStr("play"), proj.AmfNum(3), proj.AmfNull(), proj.AmfStr(name))...)
	}
	c.conn.Feed(b)
	select {
	case err := <-c.ch:
		if err != nil {
			waitDone(c.done, 3000)
			return c, "rejected"
		}
		return c, "ok"
	case <-c.done:
		return c, "ended"
	case <-time.After(5 * time.Second):
		return c, "timeout"
	}
}

func waitDone(ch chan struct{}, ms int) bool {
	select {
	case <-ch:
		return true
	case <-time.After(time.Duration(ms) * time.Millisecond):
		return false
	}
}

func (c *rtmpClient) sendAv(msgs []base.RtmpMsg) {
	var b []byte
	for _, m := range msgs {
		b = append(b, proj.RtmpMsgChunk(m.Header.Csid, int(m.Header.MsgTypeId), 1, m.Header.TimestampAbs, m.Payload)...)
	}
	c.conn.Feed(b)
}

// received reports whether a video message arrived behind the handshake (3073 bytes S0S1S2).
func rtmpHasVideo(conn *MemConn) bool {
	conn.mu.Lock()
	out := append([]byte{}, conn.out...)
	conn.mu.Unlock()
	if len(out) < 3073 {
		return false
	}
	ms, _ := proj.ReadRtmpMessages(out[3073:], 128)
	for _, m := range ms {
		if m.Type == 9 {
			return true
		}
	}
	return false
}

func pollUntil(ms int, f func() bool) bool {
	dl := time.Now().Add(time.Duration(ms) * time.Millisecond)
	for {
		if f() {
			return true
		}
		if time.Now().After(dl) {
			return false
		}
		time.Sleep(200 * time.Microsecond)
	}
}

func authAv() []base.RtmpMsg {
	var ms []base.RtmpMsg
	ms = append(ms, BuildMsg(&AMsg{Id: 2, T: "meta"}, 0, 0))
	ms = append(ms, BuildMsg(&AMsg{Id: 3, T: "vsh", Hv: 1}, 0, 0))
	ms = append(ms, BuildMsg(&AMsg{Id: 4, T: "ash", Ha: 1}, 0, 0))
	ts := uint32(0)
	for i := 0; i < 6; i++ {
		t := "inter"
		if i == 0 {
			t = "key"
		}
		ms = append(ms, BuildMsg(&AMsg{Id: 10 + 2*i, T: t}, 200, ts))
		ms = append(ms, BuildMsg(&AMsg{Id: 11 + 2*i, T: "aud", Ha: 1}, 50, ts))
		ts += 40
	}
	return ms
}

// ---- HTTP-FLV / HTTP-TS through logic.HttpServerHandler

type httpWrap struct {
	sm *logic.ServerManager
	ch chan error
}

func (o *httpWrap) OnNewHttpflvSubSession(s *httpflv.SubSession) error {
	err := o.sm.OnNewHttpflvSubSession(s)
	o.ch <- err
	return err
}
func (o *httpWrap) OnDelHttpflvSubSession(s *httpflv.SubSession) { o.sm.OnDelHttpflvSubSession(s) }
func (o *httpWrap) OnNewHttptsSubSession(s *httpts.SubSession) error {
	err := o.sm.OnNewHttptsSubSession(s)
	o.ch <- err
	return err
}
func (o *httpWrap) OnDelHttptsSubSession(s *httpts.SubSession) { o.sm.OnDelHttptsSubSession(s) }

type hijackWriter struct {
	conn *MemConn
	hdr  http.Header
}

func (h *hijackWriter) Header() http.Header         { return h.hdr }
func (h *hijackWriter) Write(b []byte) (int, error) { return h.conn.Write(b) }
func (h *hijackWriter) WriteHeader(int)             {}
func (h *hijackWriter) Hijack() (net.Conn, *bufio.ReadWriter, error) {
	return h.conn, bufio.NewReadWriter(bufio.NewReader(bytes.NewReader(nil)), bufio.NewWriter(h.conn)), nil
}

func httpRequest(target string, remote string) (*http.Request, error) {
	raw := "GET " + target + " HTTP/1.1\r\nHost: h\r\nUser-Agent: lalverif\r\n\r\n"
	req, err := http.ReadRequest(bufio.NewReader(strings.NewReader(raw)))
	if err != nil {
		return nil, err
	}
	req.RemoteAddr = remote
	return req, nil
}

type httpClient struct {
	conn *MemConn
	done chan struct{}
}

func (e *authEnv) startHttpSub(cname string, target string) (*httpClient, string) {
	c := &httpClient{conn: NewMemConn(cname), done: make(chan struct{})}
	ch := make(chan error, 4)
	h := logic.NewHttpServerHandler(&httpWrap{sm: e.sm, ch: ch})
	req, err := httpRequest(target, c.conn.RemoteAddr().String())
	if err != nil {
		close(c.done)
		return c, "badreq"
	}
	go func() {
		defer close(c.done)
		defer func() { recover() }()
		h.ServeSubSession(&hijackWriter{conn: c.conn, hdr: http.Header{}}, req)
	}()
	select {
	case err := <-ch:
		if err != nil {
			waitDone(c.done, 3000)
			return c, "rejected"
		}
		return c, "ok"
	case <-c.done:
		return c, "ended"
	case <-time.After(5 * time.Second):
		return c, "timeout"
	}
}

func httpBody(conn *MemConn) []byte {
	conn.mu.Lock()
	out := append([]byte{}, conn.out...)
	conn.mu.Unlock()
	k := bytes.Index(out, []byte("\r\n\r\n"))
	if k < 0 {
		return nil
	}
	return out[k+4:]
}

func flvHasVideo(conn *MemConn) bool {
	b := httpBody(conn)
	elems, _ := proj.ParseFlvStream(b)
	for _, el := range elems {
		if el.Tag != nil && el.Tag.Type == 9 {
			return true
		}
	}
	return false
}

func tsHasMedia(conn *MemConn) bool {
	b := httpBody(conn)
	return len(b) >= 188 && b[0] == 0x47
}

// ---- RTSP text client on rtsp.ServerCommandSession

type rtspClient struct {
	conn *MemConn
	sess *rtsp.ServerCommandSession
	done chan struct{}
	seen int // responses already consumed
	cseq int
}

func (e *authEnv) newRtsp(cname string) *rtspClient {
	c := &rtspClient{conn: NewMemConn(cname), done: make(chan struct{})}
	c.sess = rtsp.NewServerCommandSession(e.rtspSrv, c.conn, e.rtspAuth, false, "")
	go func() {
		defer close(c.done)
		defer func() { recover() }()
		_ = c.sess.RunLoop()
	}()
	return c
}

// request sends one RTSP request and waits for one response or the end of the connection.
func (c *rtspClient) request(method, uri string, hdrs []string, body string, waitMs int) (*proj.RtspResponse, bool) {
	c.cseq++
	s := fmt.Sprintf("%s %s RTSP/1.0\r\nCSeq: %d\r\n", method, uri, c.cseq)
	for _, h := range hdrs {
		s += h + "\r\n"
	}
	if body != "" {
		s += fmt.Sprintf("Content-Type: application/sdp\r\nContent-Length: %d\r\n", len(body))
	}
	s += "\r\n" + body
	c.conn.Feed([]byte(s))
	var resp *proj.RtspResponse
	pollUntil(waitMs, func() bool {
		c.conn.mu.Lock()
		out := append([]byte{}, c.conn.out...)
		c.conn.mu.Unlock()
		rs, _ := proj.ParseRtspResponses(out)
		if len(rs) > c.seen {
			resp = &rs[c.seen]
			c.seen++
			return true
		}
		select {
		case <-c.done:
			// one more look: the response may have been written just before the loop ended
			c.conn.mu.Lock()
			out = append([]byte{}, c.conn.out...)
			c.conn.mu.Unlock()
			rs, _ = proj.ParseRtspResponses(out)
			if len(rs) > c.seen {
				resp = &rs[c.seen]
				c.seen++
			}
			return true
		default:
		}
		return false
	})
	closed := false
	select {
	case <-c.done:
		closed = true
	default:
	}
	return resp, closed
}

func rtspUri(stream, query string) string {
	u := "rtsp://h/live/" + stream
	if query != "" {
		u += "?" + query
	}
	return u
}

// ---- HLS through a ServeMux

func (e *authEnv) hlsGet(target, remote string) (code int, body []byte, note string) {
	code, body, _, note = e.hlsDo(target, remote)
	return
}

func (e *authEnv) hlsDo(target, remote string) (code int, body []byte, hdr http.Header, note string) {
	mux := http.NewServeMux()
	mux.HandleFunc(e.sm.Config().HlsConfig.UrlPattern, e.sm.VerifServeHls)
	req, err := httpRequest(target, remote)
	if err != nil {
		return 0, nil, nil, "badreq"
	}
	rec := httptest.NewRecorder()
	func() {
		defer func() {
			if x := recover(); x != nil {
				note = "panic: " + fmt.Sprint(x)
			}
		}()
		mux.ServeHTTP(rec, req)
	}()
	return rec.Code, rec.Body.Bytes(), rec.Header(), note
}

// ---- stat projection

func (e *authEnv) listed(stream, proto, cname string) (sub bool, pub bool, id string) {
	sg := e.sm.StatGroup(stream)
	if sg == nil {
		return
	}
	if sg.StatPub.SessionId != "" && strings.HasSuffix(sg.StatPub.RemoteAddr, ":"+cname) {
		pub = true
		id = sg.StatPub.SessionId
	}
	for _, s := range sg.StatSubs {
		if strings.HasSuffix(s.RemoteAddr, ":"+cname) && s.Protocol == proto {
			sub = true
			id = s.SessionId
		}
	}
	return
}

// ---- simple-auth query strings

func saQuery(form, stream, ovr string) string {
	right := proj.LalSecret(authKey, stream)
	wrong := proj.LalSecret(authKey+"x", stream)
	other := proj.LalSecret(authKey, authOther)
	o := authOvr[ovr]
	switch form {
	case "absent":
		return ""
	case "noParam":
		return "a=b"
	case "empty":
		return "lal_secret="
	case "wrong":
		return "lal_secret=" + wrong
	case "right":
		return "lal_secret=" + right
	case "rightUpper":
		return "lal_secret=" + strings.ToUpper(right)
	case "other":
		return "lal_secret=" + other
	case "rightAmongOthers":
		return "a=b&lal_secret=" + right + "&c=d"
	case "badEscape":
		return "lal_secret=%zz"
	case "nameCase":
		return "LAL_SECRET=" + right
	case "dupRightFirst":
		return "lal_secret=" + right + "&lal_secret=" + wrong
	case "dupWrongFirst":
		return "lal_secret=" + wrong + "&lal_secret=" + right
	case "badOther":
		return "x=%zz&lal_secret=" + right
	case "doubleQ":
		return "lal_secret=" + right + "?x=1"
	case "ovrExact":
		return "lal_secret=" + o
	case "ovrLower":
		return "lal_secret=" + strings.ToLower(o)
	case "ovrUpper":
		return "lal_secret=" + strings.ToUpper(o)
	}
	return ""
}

func withQ(p, q string) string {
	if q == "" {
		return p
	}
	return p + "?" + q
}

// writePlaylist plants what lal's muxer would have written for `stream`; every file carries a tag
// naming the stream and the kind of file, so that a response can be projected to (what, stream).
func (e *authEnv) writePlaylist(stream string) {
	d := filepath.Join(e.hls, stream)
	os.MkdirAll(d, 0755)
	for _, k := range []string{"playlist", "record"} {
		os.WriteFile(filepath.Join(d, k+".m3u8"), []byte("#EXTM3U\n#EXT-X-VERSION:3\n#TAG:"+stream+":"+k+":\n#EXTINF:3.000,\n"+stream+"-1-0.ts\n"), 0644)
	}
	seg := append([]byte{0x47}, []byte("TAG:"+stream+":ts:")...)
	seg = append(seg, bytes.Repeat([]byte{0x47}, 188-len(seg))...)
	os.WriteFile(filepath.Join(d, stream+"-1-0.ts"), seg, 0644)
}

var hlsTag = regexp.MustCompile(`TAG:([A-Za-z0-9]+):(playlist|record|ts):`)

// hlsProject names the planted file a response came from: ("none", "") when the response carries
// no file (no bytes, or the error / redirect page of a non-2xx status), ("other", "") for a 2xx
// response whose bytes are no planted file.
func hlsProject(code int, body []byte) (what, stream string) {
	if m := hlsTag.FindSubmatch(body); m != nil {
		return string(m[2]), string(m[1])
	}
	if len(body) == 0 || code < 200 || code > 299 {
		return "none", ""
	}
	return "other", ""
}

var spellFixed = map[string]map[string]string{
	"playlist": {"lower": "playlist", "upper": "PLAYLIST", "mixed": "Playlist", "esc": "%70laylist"},
	"record":   {"lower": "record", "upper": "RECORD", "mixed": "Record", "esc": "%72ecord"},
	"flv":      {"lower": "flv", "upper": "FLV", "esc": "fl%76"},
	"ts":       {"lower": "ts", "upper": "TS", "esc": "t%73"},
}

// hpTarget spells the request path of an hp / sv case.
func hpTarget(p hpPath) string {
	var rest string // below /<prefix>/
	switch p.Shape {
	case "flat":
		rest = p.Stream + "." + p.Ext
	case "dir":
		rest = p.Stream + "/" + spellFixed["playlist"][p.Fname] + "." + p.Ext
	case "rec":
		rest = p.Stream + "/" + spellFixed["record"][p.Fname] + "." + p.Ext
	case "tsflat":
		rest = p.Stream + "-1-0." + p.Ext
	case "tsdir":
		rest = p.Stream + "/" + p.Stream + "-1-0." + p.Ext
	case "live":
		rest = p.Stream + "." + p.Ext
	}
	switch p.Slash {
	case "trail":
		rest += "/"
	case "dupMid":
		if k := strings.LastIndexByte(rest, '/'); k >= 0 {
			rest = rest[:k] + "/" + rest[k:]
		} else {
			rest = "/" + rest
		}
	case "dupHead", "dup":
		rest = "/" + rest
	case "dot":
		rest = "./" + rest
	}
	return "/" + p.Prefix + "/" + rest
}

func hpQuery(form string) string {
	switch form {
	case "wrong":
		return "lal_secret=" + proj.LalSecret(authKey+"x", authStream)
	case "s_cam1":
		return "lal_secret=" + proj.LalSecret(authKey, authStream)
	case "s_CAM1":
		return "lal_secret=" + proj.LalSecret(authKey, authUpper)
	}
	return ""
}

var saFlagNames = []string{"pub_rtmp_enable", "sub_rtmp_enable", "sub_httpflv_enable", "sub_httpts_enable",
	"pub_rtsp_enable", "sub_rtsp_enable", "hls_m3u8_enable"}

func saFlags(on func(f string) bool) M {
	sa := M{"dangerous_lal_secret": ""}
	for _, f := range saFlagNames {
		sa[f] = on(f)
	}
	return sa
}

// request of one protocol-direction; returns the observation record and the connection handle.
type saObs struct {
	Resp, Listed, Pub, Closed bool
	Note                      string
	id                        string
	closeFn                   func()
	isClosed                  func() bool
}

func (e *authEnv) saRequest(pd, stream, query, cname string) (o saObs) {
	return e.saRequestAt(pd, stream, query, cname, "")
}

// saRequestAt: as saRequest; target (HTTP-FLV/TS only) replaces the documented request path.
func (e *authEnv) saRequestAt(pd, stream, query, cname, target string) (o saObs) {
	o.closeFn = func() {}
	o.isClosed = func() bool { return false }
	switch pd {
	case "rtmp_pub", "rtmp_sub":
		pub := pd == "rtmp_pub"
		if !pub {
			bg, err := e.sm.AddCustomizePubSession(stream)
			if err != nil {
				o.Note = "bg:" + err.Error()
				return
			}
			defer e.sm.DelCustomizePubSession(bg)
			c, v := e.startRtmp(cname, false, withQ(stream, query))
			o.Note = v
			if v == "ok" {
				for _, m := range authAv() {
					bg.FeedRtmpMsg(m)
				}
				o.Resp = pollUntil(3000, func() bool { return rtmpHasVideo(c.conn) })
			} else {
				for _, m := range authAv() {
					bg.FeedRtmpMsg(m)
				}
				o.Resp = rtmpHasVideo(c.conn)
			}
			o.Listed, _, o.id = e.listed(stream, "RTMP", cname)
			o.Closed = c.conn.Closed()
			o.closeFn = func() { c.conn.Close(); waitDone(c.done, 2000) }
			o.isClosed = c.conn.Closed
			return
		}
		c, v := e.startRtmp(cname, true, withQ(stream, query))
		o.Note = v
		_, o.Pub, o.id = e.listed(stream, "RTMP", cname)
		o.Listed = o.Pub
		o.Closed = c.conn.Closed()
		o.closeFn = func() { c.conn.Close(); waitDone(c.done, 2000) }
		o.isClosed = c.conn.Closed
	case "flv_sub", "ts_sub":
		bg, err := e.sm.AddCustomizePubSession(stream)
		if err != nil {
			o.Note = "bg:" + err.Error()
			return
		}
		defer e.sm.DelCustomizePubSession(bg)
		ext, proto := ".flv", "FLV"
		if pd == "ts_sub" {
			ext, proto = ".ts", "TS"
		}
		if target == "" {
			target = "/live/" + stream + ext
		}
		c, v := e.startHttpSub(cname, withQ(target, query))
		o.Note = v
		for _, m := range authAv() {
			bg.FeedRtmpMsg(m)
		}
		if pd == "flv_sub" {
			o.Resp = flvHasVideo(c.conn)
		} else {
			o.Resp = tsHasMedia(c.conn)
		}
		o.Listed, _, o.id = e.listed(stream, proto, cname)
		o.Closed = c.conn.Closed()
		o.closeFn = func() { c.conn.Close(); waitDone(c.done, 2000) }
		o.isClosed = c.conn.Closed
	case "rtsp_pub":
		c := e.newRtsp(cname)
		r, closed := c.request("ANNOUNCE", rtspUri(stream, query), nil, authSdp, 3000)
		o.Resp = r != nil && r.Code == 200
		o.Note = "noresp"
		if r != nil {
			o.Note = fmt.Sprint(r.Code)
		}
		_, o.Pub, o.id = e.listed(stream, "RTSP", cname)
		o.Listed = o.Pub
		o.Closed = closed
		o.closeFn = func() { c.conn.Close(); waitDone(c.done, 2000) }
		o.isClosed = c.conn.Closed
	case "rtsp_sub":
		// one background publisher per server: a second request of the scenario (kick with a peer) reuses it
		if e.rtspBg == nil {
			bg := e.newRtsp("bg")
			r0, _ := bg.request("ANNOUNCE", rtspUri(stream, "lal_secret="+proj.LalSecret(authKey, stream)), nil, authSdp, 3000)
			if r0 == nil || r0.Code != 200 {
				o.Note = "bg-announce-failed"
				return
			}
			e.rtspBg = bg
			defer func() { bg.conn.Close(); waitDone(bg.done, 2000) }()
		}
		c := e.newRtsp(cname)
		r, closed := c.request("DESCRIBE", rtspUri(stream, query), []string{"Accept: application/sdp"}, "", 3000)
		o.Resp = r != nil && r.Code == 200 && strings.Contains(r.Body, "m=video")
		o.Note = "noresp"
		if r != nil {
			o.Note = fmt.Sprint(r.Code)
		}
		o.Listed, _, o.id = e.listed(stream, "RTSP", cname)
		o.Closed = closed
		o.closeFn = func() { c.conn.Close(); waitDone(c.done, 2000) }
		o.isClosed = c.conn.Closed
	case "hls_m3u8", "hls_m3u8_dir":
		e.writePlaylist(stream)
		p := "/hls/" + stream + ".m3u8"
		if pd == "hls_m3u8_dir" {
			p = "/hls/" + stream + "/playlist.m3u8"
		}
		code, body, note := e.hlsGet(withQ(p, query), "10.0.0.7:1234")
		o.Note = fmt.Sprint(code) + note
		o.Resp = bytes.Contains(body, []byte("#EXTM3U"))
		sg := e.sm.StatGroup(stream)
		o.Listed = sg != nil && len(sg.StatSubs) > 0
	}
	return
}

// ---- RTSP authentication

func (e *authEnv) raRun(sc *authScenario) []M {
	pass := authPass[sc.Pass]
	bg := e.newRtsp("bg")
	r0, _ := bg.request("ANNOUNCE", rtspUri(authStream, ""), nil, authSdp, 3000)
	out := []M{}
	if r0 == nil || r0.Code != 200 {
		return append(out, M{"conn": "c1", "cred": "bg", "nonce": "", "code": -2, "sdp": false, "chal": "none", "fresh": false, "closed": true})
	}
	defer func() { bg.conn.Close(); waitDone(bg.done, 2000) }()
	uri := rtspUri(authStream, "")
	// the connections of the scenario are opened when first used and stay open to its end
	conns := map[string]*rtspClient{}
	conn := func(k string) *rtspClient {
		if conns[k] == nil {
			conns[k] = e.newRtsp(k)
		}
		return conns[k]
	}
	defer func() {
		for _, c := range conns {
			c.conn.Close()
			waitDone(c.done, 2000)
		}
	}()
	nonces := map[string][]string{} // challenges per connection
	var all []string                // every nonce the server has issued in this scenario
	realm := base.LalRtspRealm
	otherNonce := func() string {
		o := e.newRtsp("o")
		defer func() { o.conn.Close(); waitDone(o.done, 2000) }()
		r, _ := o.request("DESCRIBE", uri, []string{"Accept: application/sdp"}, "", 3000)
		if r == nil {
			return ""
		}
		n := proj.ParseChallenge(r.Headers["www-authenticate"]).Nonce
		all = append(all, n)
		return n
	}
	for _, st := range sc.Steps {
		if st.Conn == "" {
			st.Conn = "c1"
		}
		other := "c1"
		if st.Conn == "c1" {
			other = "c2"
		}
		c := conn(st.Conn)
		own := nonces[st.Conn]
		nonce := ""
		switch st.Nonce {
		case "last":
			if len(own) > 0 {
				nonce = own[len(own)-1]
			}
		case "first":
			if len(own) > 0 {
				nonce = own[0]
			}
		case "otherLive":
			// the challenge the other connection (still open) was given last
			if o := nonces[other]; len(o) > 0 && !conn(other).conn.Closed() {
				nonce = o[len(o)-1]
			}
		case "otherClosed":
			nonce = otherNonce()
		case "empty":
		case "forged":
			nonce = "00112233445566778899aabbccddeeff"
		}
		var hdr string
		switch st.Cred {
		case "none":
		case "basicRight":
			hdr = proj.BasicCredentials(authUser, pass)
		case "basicWrongPass":
			hdr = proj.BasicCredentials(authUser, pass+"x")
		case "basicWrongUser":
			hdr = proj.BasicCredentials("eve", pass)
		case "basicBadB64":
			hdr = "Basic !!!notbase64!!!"
		case "basicNoColon":
			hdr = "Basic " + base64.StdEncoding.EncodeToString([]byte(authUser+pass))
		case "digestRight":
			hdr = proj.DigestCredentials(authUser, realm, nonce, uri, proj.DigestResponse(authUser, realm, pass, nonce, "DESCRIBE", uri))
		case "digestWrongPass":
			hdr = proj.DigestCredentials(authUser, realm, nonce, uri, proj.DigestResponse(authUser, realm, pass+"x", nonce, "DESCRIBE", uri))
		case "digestWrongMethod":
			hdr = proj.DigestCredentials(authUser, realm, nonce, uri, proj.DigestResponse(authUser, realm, pass, nonce, "OPTIONS", uri))
		case "digestOtherUri":
			hdr = proj.DigestCredentials(authUser, realm, nonce, uri, proj.DigestResponse(authUser, realm, pass, nonce, "DESCRIBE", uri+"2"))
		case "bearer":
			hdr = "Bearer abcdef"
		}
		hs := []string{"Accept: application/sdp"}
		if hdr != "" {
			hs = append(hs, "Authorization: "+hdr)
		}
		r, closed := c.request("DESCRIBE", uri, hs, "", 3000)
		ev := M{"conn": st.Conn, "cred": st.Cred, "nonce": st.Nonce, "code": 0, "sdp": false, "chal": "none", "fresh": false, "closed": closed}
		if r != nil {
			ev["code"] = r.Code
			ev["sdp"] = r.Code == 200 && strings.Contains(r.Body, "m=video")
			if w, ok := r.Headers["www-authenticate"]; ok {
				ch := proj.ParseChallenge(w)
				ev["chal"] = ch.Scheme
				if ch.Scheme == "Digest" {
					fresh := ch.Nonce != ""
					for _, n := range all {
						if n == ch.Nonce {
							fresh = false
						}
					}
					ev["fresh"] = fresh
					nonces[st.Conn] = append(nonces[st.Conn], ch.Nonce)
					all = append(all, ch.Nonce)
				}
				if ch.Realm != "" {
					realm = ch.Realm
				}
			}
		}
		out = append(out, ev)
		if closed {
			break
		}
	}
	return out
}

// ---- path confinement

var rdFiles = []string{"playlist.m3u8", "record.m3u8", "name.m3u8", "...m3u8", "..-1-2.ts", "name-1-2.ts", "hls-1-2.ts", "..-1-2.TS"}

func relSegs(baseDir, p string) []string {
	r, err := filepath.Rel(baseDir, p)
	if err != nil {
		return []string{"?"}
	}
	return strings.Split(filepath.ToSlash(r), "/")
}

func (e *authEnv) plantSentinels(full bool) []string {
	dirs := []string{e.base, filepath.Join(e.base, "a"), filepath.Join(e.base, "a", "b"), e.hls,
		filepath.Join(e.hls, "name"), filepath.Join(e.hls, "hls"), filepath.Join(e.base, "name"),
		filepath.Join(e.base, "a", "name"), filepath.Join(e.base, "a", "b", "name")}
	names := rdFiles
	if !full {
		dirs = dirs[:3]
		names = rdFiles[:2]
	}
	var files []string
	for _, d := range dirs {
		os.MkdirAll(d, 0755)
		for _, f := range names {
			p := filepath.Join(d, f)
			os.WriteFile(p, []byte("SENTINEL:"+strings.Join(relSegs(e.base, p), "|")), 0644)
			files = append(files, p)
		}
	}
	return files
}

func tree(root string) map[string]bool {
	m := map[string]bool{}
	filepath.Walk(root, func(p string, info os.FileInfo, err error) error {
		if err == nil && p != root {
			m[p] = info.IsDir()
		}
		return nil
	})
	return m
}

func authDriver(env *Env) error {
	httpflv.SubSessionWriteChanSize = 0
	httpts.SubSessionWriteChanSize = 0
	tw, err := NewTraceWriter(env.Out)
	if err != nil {
		return err
	}
	defer tw.Close()
	tmpRoot := ""
	if st, e := os.Stat("/dev/shm"); e == nil && st.IsDir() {
		tmpRoot = "/dev/shm" // thousands of small files: keep them in memory when possible
	}
	tmp, err := os.MkdirTemp(tmpRoot, "lalverif-auth")
	if err != nil {
		return err
	}
	defer os.RemoveAll(tmp)
	// lal logs through a global logger to stdout: keep it out of the way
	devnull, _ := os.OpenFile(os.DevNull, os.O_WRONLY, 0)
	os.Stdout = devnull
	tw.Emit(M{"ev": "reset", "sc": 0})
	var mu sync.Mutex
	var wg sync.WaitGroup
	emit := func(ev M) {
		mu.Lock()
		tw.Emit(ev)
		mu.Unlock()
	}
	var rdEnv *authEnv
	hpEnv := map[string]*authEnv{}
	raSem := make(chan struct{}, 4)
	err = ReadScenarios(env.In, func(raw json.RawMessage) error {
		var sc authScenario
		if err := json.Unmarshal(raw, &sc); err != nil {
			return err
		}
		dir := filepath.Join(tmp, fmt.Sprintf("sc%d", sc.Sc))
		os.MkdirAll(dir, 0755)
		switch sc.Kind {
		case "sa":
			sa := M{"dangerous_lal_secret": authOvr[sc.Ovr]}
			for _, f := range []string{"pub_rtmp_enable", "sub_rtmp_enable", "sub_httpflv_enable", "sub_httpts_enable",
				"pub_rtsp_enable", "sub_rtsp_enable", "hls_m3u8_enable"} {
				sa[f] = false
			}
			for _, f := range sc.Flags {
				sa[f] = true
			}
			e := newAuthEnv(dir, sa, nil, false)
			o := e.saRequest(sc.Pd, authStream, saQuery(sc.Form, authStream, sc.Ovr), "c")
			o.closeFn()
			flags := sc.Flags
			if flags == nil {
				flags = []string{}
			}
			emit(M{"ev": "Sa", "sc": sc.Sc, "flags": flags, "pd": sc.Pd, "form": sc.Form, "ovr": sc.Ovr,
				"obs": M{"resp": o.Resp, "listed": o.Listed, "pub": o.Pub, "closed": o.Closed}, "note": o.Note})
			os.RemoveAll(dir)
		case "ra":
			// every scenario has its own server and its time goes into request round trips: a few side by side
			raSem <- struct{}{}
			wg.Add(1)
			go func(sc authScenario) {
				defer wg.Done()
				defer func() { <-raSem }()
				e := newAuthEnv(dir, nil, M{"auth_enable": sc.Enable, "auth_method": sc.Method, "username": authUser,
					"password": authPass[sc.Pass]}, false)
				steps := e.raRun(&sc)
				emit(M{"ev": "Ra", "sc": sc.Sc, "enable": sc.Enable, "method": sc.Method, "pass": sc.Pass, "steps": steps})
				os.RemoveAll(dir)
			}(sc)
		case "kick":
			if sc.Pd == "hls_sub" {
				// an HLS session has no connection: it is "connected" while its session id is served.
				// lal sweeps disposed sessions once a second: run beside the other cases.
				wg.Add(1)
				go func(sc authScenario) {
					defer wg.Done()
					e := newAuthEnv(dir, nil, nil, false, M{"sub_session_hash_key": "k1", "sub_session_timeout_ms": 20000})
					e.writePlaylist(authStream)
					open := func(remote string) (sid string) {
						_, _, hdr, _ := e.hlsDo("/hls/"+authStream+".m3u8", remote)
						if k := strings.Index(hdr.Get("Location"), "session_id="); k >= 0 {
							sid = hdr.Get("Location")[k+len("session_id="):]
						}
						return
					}
					served := func(sid, remote string) bool {
						code, b, _ := e.hlsGet("/hls/"+authStream+".m3u8?session_id="+sid, remote)
						w, _ := hlsProject(code, b)
						return w == "playlist"
					}
					idOf := func(remote string) string {
						if sg := e.sm.StatGroup(authStream); sg != nil {
							for _, x := range sg.StatSubs {
								if x.RemoteAddr == remote && x.Protocol == "HLS" {
									return x.SessionId
								}
							}
						}
						return ""
					}
					peerSid, peerClosed := "", false
					if sc.Peers > 0 {
						peerSid = open("10.0.0.8:1")
					}
					sid := open("10.0.0.7:1")
					id := idOf("10.0.0.7:1")
					had := sid != "" && id != "" && served(sid, "10.0.0.7:1")
					if sc.Which == "unknown" {
						id = id + "999"
					} else if sc.Which == "prefix" && len(id) > 1 {
						id = id[:len(id)-1]
					}
					ret := e.sm.CtrlKickSession(base.ApiCtrlKickSessionReq{StreamName: authStream, SessionId: id})
					wait := 3000
					if sc.Which != "real" {
						wait = 30
					}
					closed := false
					for dl := time.Now().Add(time.Duration(wait) * time.Millisecond); ; time.Sleep(20 * time.Millisecond) {
						if closed = !served(sid, "10.0.0.7:1"); closed || time.Now().After(dl) {
							break
						}
					}
					if peerSid != "" {
						peerClosed = !served(peerSid, "10.0.0.8:1")
					}
					emit(M{"ev": "Kick", "sc": sc.Sc, "pd": sc.Pd, "which": sc.Which, "peers": sc.Peers, "had": had,
						"ok": ret.ErrorCode == base.ErrorCodeSucc, "closed": closed, "peerClosed": peerClosed})
					os.RemoveAll(dir)
				}(sc)
				break
			}
			e := newAuthEnv(dir, nil, nil, false)
			var peer saObs
			if sc.Peers > 0 {
				peer = e.saRequest(sc.Pd, authStream, "", "p")
			}
			o := e.saRequest(sc.Pd, authStream, "", "c")
			id := o.id
			if sc.Which == "unknown" {
				id = id + "999"
			} else if sc.Which == "prefix" && len(id) > 1 {
				// names no session, unless it happens to be the peer's id: then an id that names nobody
				if id = id[:len(id)-1]; sc.Peers > 0 && id == peer.id {
					id = id + "x"
				}
			}
			ret := e.sm.CtrlKickSession(base.ApiCtrlKickSessionReq{StreamName: authStream, SessionId: id})
			wait := 3000
			if sc.Which != "real" {
				wait = 30
			}
			closed := pollUntil(wait, o.isClosed)
			peerClosed := sc.Peers > 0 && peer.isClosed()
			emit(M{"ev": "Kick", "sc": sc.Sc, "pd": sc.Pd, "which": sc.Which, "peers": sc.Peers,
				"had": o.id != "" && !o.Closed && (sc.Peers == 0 || (peer.id != "" && peer.id != o.id)),
				"ok":  ret.ErrorCode == base.ErrorCodeSucc, "closed": closed, "peerClosed": peerClosed})
			o.closeFn()
			if sc.Peers > 0 {
				peer.closeFn()
			}
			os.RemoveAll(dir)
		case "bl":
			wg.Add(1)
			go func(sc authScenario) {
				defer wg.Done()
				e := newAuthEnv(dir, nil, nil, false)
				e.writePlaylist(authStream)
				// a: listed for Dur seconds, c: listed beyond the last probe, b: never listed
				ips := map[string]string{"a": "10.1.0.1", "b": "10.1.0.2", "c": "10.1.0.3"}
				if sc.Fam == "v6" {
					ips = map[string]string{"a": "fd00::1", "b": "fd00::2", "c": "fd00::3"}
				}
				listed := map[string]string{"a": ips["a"], "c": ips["c"]}
				switch sc.Fam {
				case "v6x":
					ips = map[string]string{"a": "fd00::1", "b": "fd00::2", "c": "fd00::3"}
					listed = map[string]string{"a": "fd00:0:0:0:0:0:0:1", "c": "FD00:0000:0000:0000:0000:0000:0000:0003"}
				case "v4m":
					listed = map[string]string{"a": "::ffff:10.1.0.1", "c": "::ffff:a01:3"}
				}
				t0 := time.Now()
				e.sm.CtrlAddIpBlacklist(base.ApiCtrlAddIpBlacklistReq{Ip: listed["a"], DurationSec: sc.Dur})
				e.sm.CtrlAddIpBlacklist(base.ApiCtrlAddIpBlacklistReq{Ip: listed["c"], DurationSec: sc.Dur + 5})
				paths := []string{"/hls/" + authStream + ".m3u8", "/hls/" + authStream + "/playlist.m3u8", "/hls/" + authStream + "/record.m3u8",
					"/hls/" + authStream + "-1-0.ts", "/hls/" + authStream + "/" + authStream + "-1-0.ts"}
				probes := []M{}
				for _, k := range sc.Probes {
					time.Sleep(time.Until(t0.Add(time.Duration(k)*time.Second + 500*time.Millisecond)))
					for _, ip := range []string{"a", "b", "c"} {
						got := []bool{}
						for _, p := range paths {
							code, b, _ := e.hlsGet(p, net.JoinHostPort(ips[ip], "5000"))
							w, _ := hlsProject(code, b)
							got = append(got, w != "none")
						}
						probes = append(probes, M{"k": k, "ip": ip, "got": got})
					}
				}
				emit(M{"ev": "Bl", "sc": sc.Sc, "dur": sc.Dur, "fam": sc.Fam, "probes": probes})
			}(sc)
		case "hp":
			// read-only: one server per flag configuration serves every spelling
			key := sc.Cfg
			if sc.Listed {
				key += "-listed"
			}
			e := hpEnv[key]
			if e == nil {
				cfg := sc.Cfg
				e = newAuthEnv(filepath.Join(tmp, "hp-"+key), saFlags(func(f string) bool {
					return cfg == "all" || (cfg == "hls") == (f == "hls_m3u8_enable") && cfg != "none"
				}), nil, false)
				e.writePlaylist(authStream)
				e.writePlaylist(authUpper)
				e.sm.CtrlAddIpBlacklist(base.ApiCtrlAddIpBlacklistReq{Ip: "10.2.0.9", DurationSec: 360000})
				hpEnv[key] = e
			}
			remote := "10.0.0.7:1234"
			if sc.Listed {
				remote = "10.2.0.9:1234"
			}
			target := withQ(hpTarget(sc.Hp), hpQuery(sc.Form))
			code, body, note := e.hlsGet(target, remote)
			what, stream := hlsProject(code, body)
			emit(M{"ev": "Hp", "sc": sc.Sc, "cfg": sc.Cfg, "hp": sc.Hp, "form": sc.Form, "listed": sc.Listed,
				"obs": M{"what": what, "stream": stream}, "code": code, "target": target, "note": note})
			os.RemoveAll(dir)
		case "sv":
			pd := sc.Pd
			e := newAuthEnv(dir, saFlags(func(f string) bool {
				return sc.Enable && (pd == "flv_sub" && f == "sub_httpflv_enable" || pd == "ts_sub" && f == "sub_httpts_enable")
			}), nil, false)
			p := sc.Hp
			kind := "flv"
			if pd == "ts_sub" {
				kind = "ts"
			}
			p.Ext = spellFixed[kind][sc.Hp.Ext]
			target := hpTarget(p)
			// the publisher exists for cam1 only, whatever the request names
			o := e.saRequestAt(pd, authStream, hpQuery(sc.Form), "c", target)
			o.closeFn()
			emit(M{"ev": "Sv", "sc": sc.Sc, "pd": pd, "on": sc.Enable, "hp": sc.Hp, "form": sc.Form,
				"obs": M{"resp": o.Resp, "listed": o.Listed, "pub": o.Pub, "closed": o.Closed}, "target": target, "note": o.Note})
			os.RemoveAll(dir)
		case "rd":
			// read-only: one server and one planted tree serve every request
			if rdEnv == nil {
				rdEnv = newAuthEnv(filepath.Join(tmp, "rd"), nil, nil, false)
				rdEnv.plantSentinels(true)
			}
			e := rdEnv
			target := "/hls/" + strings.Join(sc.Req, "/")
			code, body, note := e.hlsGet(target, "10.0.0.7:1234")
			served := []string{}
			if bytes.HasPrefix(body, []byte("SENTINEL:")) {
				served = strings.Split(string(body[len("SENTINEL:"):]), "|")
			} else if len(body) > 0 && code == 200 {
				served = []string{"?"}
			}
			emit(M{"ev": "Rd", "sc": sc.Sc, "req": sc.Req, "code": code, "served": served, "note": note})
			os.RemoveAll(dir)
		case "wr":
			e := newAuthEnv(dir, nil, nil, true)
			sent := e.plantSentinels(false)
			before := tree(e.base)
			name := strings.Join(sc.Name, "/")
			verdict := ""
			switch sc.Proto {
			case "rtmp":
				c, v := e.startRtmp("c", true, name)
				verdict = v
				if v == "ok" {
					// everything fed is processed before the read loop sees the end of the connection;
					// when the publisher is gone lal closes fragments and files
					c.sendAv(authAv())
				}
				c.conn.Close()
				waitDone(c.done, 3000)
			case "rtsp":
				c := e.newRtsp("c")
				r, _ := c.request("ANNOUNCE", "rtsp://h/live/"+name, nil, authSdp, 3000)
				verdict = "noresp"
				if r != nil {
					verdict = fmt.Sprint(r.Code)
				}
				c.conn.Close()
				waitDone(c.done, 3000)
			}
			after := tree(e.base)
			created := [][]string{}
			var keys []string
			for p := range after {
				if _, ok := before[p]; !ok {
					keys = append(keys, p)
				}
			}
			sort.Strings(keys)
			for _, p := range keys {
				created = append(created, relSegs(e.base, p))
			}
			deleted := [][]string{}
			for _, p := range sent {
				if _, err := os.Stat(p); err != nil {
					deleted = append(deleted, relSegs(e.base, p))
				}
			}
			emit(M{"ev": "Wr", "sc": sc.Sc, "name": sc.Name, "proto": sc.Proto, "verdict": verdict,
				"created": created, "deleted": deleted})
			os.RemoveAll(dir)
		}
		return nil
	})
	wg.Wait()
	return err
}

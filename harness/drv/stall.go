package drv

import (
	"bytes"
	"crypto/sha1"
	"encoding/json"
	"fmt"
	"net"
	"os"
	"runtime"
	"strings"
	"sync"
	"time"

	"github.com/q191201771/lal/pkg/base"
	"github.com/q191201771/lal/pkg/httpflv"
	"github.com/q191201771/lal/pkg/httpts"
	"github.com/q191201771/lal/pkg/logic"
	"github.com/q191201771/lal/pkg/rtmp"
	"github.com/q191201771/naza/pkg/nazalog"

	"lalverif/proj"
)

// Driver "stall" (C15): a bare logic.Group with a real publisher and real subscriber sessions of
// one protocol whose asynchronous write queue (naza connection, WriteChanSize = N) drains into a
// GATED in-memory connection: conn.Write blocks until the driver releases exactly one write (the
// consumer "reads" it), lets it time out (the write deadline "fires" on the connection's virtual
// clock) or opens the gate (the consumer reads at line rate).  A third consumer "h" has the
// production queue size and an open gate: what it is handed per publish defines the write units of
// that step, and the time until it has them is the delivery latency.
//
// Real goroutines are involved (the connection's write loop), so every step ends with a
// quiescence barrier that does not depend on time: all goroutines running runWriteLoop are either
// parked in their select (queue empty) or blocked inside the gate.  Observations are taken only
// at quiescence.

type stCfg struct {
	Proto   string `json:"proto"` // rtmp | flv | wsflv | ts | wsts
	N       int    `json:"n"`
	BoundUs int64  `json:"boundUs"`
}

type stStep struct {
	Name string `json:"name"`
	C    string `json:"c"`
	T    string `json:"t"`
	N    int    `json:"n"` // body length of the published frame (0 = default pool)
}

type stScenario struct {
	Sc    int      `json:"sc"`
	Cfg   stCfg    `json:"cfg"`
	CfgId string   `json:"cfgId"`
	Steps []stStep `json:"steps"`
}

// ---------------------------------------------------------------------------- gated connection

type gWrite struct {
	b     []byte
	armed bool
	rel   chan error
}

type gateConn struct {
	mu       sync.Mutex
	name     string
	open     bool
	waiting  *gWrite
	wire     [][]byte
	last     time.Time // completion time of the last write
	nseen    int       // writes already reported
	closed   bool
	closedCh chan struct{}
	dl       time.Time
}

func newGateConn(name string) *gateConn {
	return &gateConn{name: name, open: true, closedCh: make(chan struct{})}
}

func (c *gateConn) Read(b []byte) (int, error) {
	<-c.closedCh
	return 0, net.ErrClosed
}

func (c *gateConn) Write(b []byte) (int, error) {
	c.mu.Lock()
	if c.closed {
		c.mu.Unlock()
		return 0, net.ErrClosed
	}
	cp := append([]byte{}, b...)
	if c.open {
		c.wire = append(c.wire, cp)
		c.last = time.Now()
		c.mu.Unlock()
		return len(b), nil
	}
	w := &gWrite{b: cp, armed: !c.dl.IsZero(), rel: make(chan error, 1)}
	c.waiting = w
	c.mu.Unlock()
	err := <-w.rel
	c.mu.Lock()
	defer c.mu.Unlock()
	c.waiting = nil
	if err != nil {
		return 0, err
	}
	c.wire = append(c.wire, cp)
	c.last = time.Now()
	return len(b), nil
}

// releaseOne lets the blocked write (if any) complete with err (nil = the consumer read it).
func (c *gateConn) releaseOne(err error) bool {
	c.mu.Lock()
	w := c.waiting
	c.mu.Unlock()
	if w == nil {
		return false
	}
	select {
	case w.rel <- err:
	default:
	}
	return true
}

func (c *gateConn) setOpen(open bool) {
	c.mu.Lock()
	c.open = open
	w := c.waiting
	c.mu.Unlock()
	if open && w != nil {
		select {
		case w.rel <- nil:
		default:
		}
	}
}

func (c *gateConn) Close() error {
	c.mu.Lock()
	if c.closed {
		c.mu.Unlock()
		return nil
	}
	c.closed = true
	w := c.waiting
	close(c.closedCh)
	c.mu.Unlock()
	if w != nil {
		select {
		case w.rel <- net.ErrClosed:
		default:
		}
	}
	return nil
}

func (c *gateConn) isClosed() bool {
	c.mu.Lock()
	defer c.mu.Unlock()
	return c.closed
}

func (c *gateConn) LocalAddr() net.Addr               { return memAddr("local") }
func (c *gateConn) RemoteAddr() net.Addr              { return memAddr("10.0.0.2:" + c.name) }
func (c *gateConn) SetDeadline(t time.Time) error     { return nil }
func (c *gateConn) SetReadDeadline(t time.Time) error { return nil }
func (c *gateConn) SetWriteDeadline(t time.Time) error {
	c.mu.Lock()
	c.dl = t
	c.mu.Unlock()
	return nil
}

type timeoutErr struct{}

func (timeoutErr) Error() string   { return "i/o timeout (virtual write deadline)" }
func (timeoutErr) Timeout() bool   { return true }
func (timeoutErr) Temporary() bool { return true }

// ---------------------------------------------------------------------------- quiescence

type gState struct {
	writersQuiet bool
	pubBlocked   bool // the goroutine running the watched call into lal is parked on a channel / lock
	pubSeen      bool
}

var stackBuf = make([]byte, 256<<10) // only the driver's main goroutine looks at goroutine states

func goroutineStates() gState {
	var buf []byte
	for {
		n := runtime.Stack(stackBuf, true)
		if n < len(stackBuf) {
			buf = stackBuf[:n]
			break
		}
		stackBuf = make([]byte, 2*len(stackBuf))
	}
	st := gState{writersQuiet: true}
	for _, blk := range strings.Split(string(buf), "\n\n") {
		if !strings.HasPrefix(blk, "goroutine ") {
			continue
		}
		i, j := strings.Index(blk, "["), strings.Index(blk, "]")
		if i < 0 || j < i {
			continue
		}
		state := blk[i+1 : j]
		// a write loop is recognised by where it was started (a goroutine that has not run yet shows
		// only a compiler-generated wrapper as its frame)
		if strings.Contains(blk, "created by github.com/q191201771/naza/pkg/connection.") {
			if strings.Contains(blk, "drv.(*gateConn).Write") {
				if !strings.HasPrefix(state, "chan receive") {
					st.writersQuiet = false
				}
			} else if !strings.Contains(blk, "connection.(*connection).runWriteLoop") || !strings.HasPrefix(state, "select") {
				st.writersQuiet = false
			}
		}
		if strings.Contains(blk, "lalverif/drv.watchedCall") {
			st.pubSeen = true
			if strings.HasPrefix(state, "chan send") || strings.HasPrefix(state, "chan receive") ||
				strings.HasPrefix(state, "select") || strings.HasPrefix(state, "sync.Mutex.Lock") ||
				strings.HasPrefix(state, "semacquire") {
				st.pubBlocked = true
			}
		}
	}
	return st
}

// watchedCall is the frame by which the goroutine that runs a call into lal is recognised in a
// goroutine dump.
//
//go:noinline
func watchedCall(fn func()) { fn() }

// quiesce waits until every connection write loop is parked (idle or inside the gate).
func quiesce() error {
	dead := time.Now().Add(20 * time.Second)
	for k := 0; ; k++ {
		if goroutineStates().writersQuiet {
			return nil
		}
		if time.Now().After(dead) {
			return fmt.Errorf("write loops did not become quiescent")
		}
		if k < 50 {
			runtime.Gosched()
		} else {
			time.Sleep(50 * time.Microsecond)
		}
	}
}

// ---------------------------------------------------------------------------- projection

// stPart is one write as the gate sees it.  A write that is a whole number of protocol units has its
// own kind; a write that is the i-th of `of` consecutive writes which only together form a unit is a
// "piece" of that unit (uk = kind, id, len of the unit): which writes belong together is learnt at the
// healthy consumer, which is handed every write of a call, and recognised elsewhere by content.
type stPart struct {
	K   string `json:"k"`
	Uk  string `json:"uk"`
	Id  int    `json:"id"`
	Len int    `json:"len"`
	I   int    `json:"i"`
	Of  int    `json:"of"`
}

func classifyU(proto string, b []byte) stPart {
	p := classify(proto, b)
	p.Uk = p.K
	return p
}

// groupPieces classifies consecutive writes, joining runs that are no units by themselves.
func groupPieces(proto string, ws [][]byte, reg map[[20]byte]stPart) []stPart {
	out := make([]stPart, 0, len(ws))
	for i := 0; i < len(ws); {
		p := classifyU(proto, ws[i])
		if p.K != "frag" {
			out = append(out, p)
			i++
			continue
		}
		joined := append([]byte{}, ws[i]...)
		found := 0
		for j := i + 1; j < len(ws) && j < i+64; j++ {
			joined = append(joined, ws[j]...)
			if u := classifyU(proto, joined); u.K != "frag" {
				for k := i; k <= j; k++ {
					pc := stPart{K: "piece", Uk: u.K, Id: u.Id, Len: u.Len, I: k - i + 1, Of: j - i + 1}
					reg[sha1.Sum(ws[k])] = pc
					out = append(out, pc)
				}
				found = j - i + 1
				break
			}
		}
		if found == 0 {
			out = append(out, p)
			found = 1
		}
		i += found
	}
	return out
}

// posCodeId finds the first position-coded run (id, block 0)(id, block 1) in b.
func posCodeId(b []byte) (id int, at int) {
	for i := 0; i+12 <= len(b); i++ {
		if b[i+2] == 0 && b[i+3] == 0 && b[i+4] == 0 && b[i+5] == 0 && b[i+6] == b[i] && b[i+7] == b[i+1] &&
			b[i+8] == 0 && b[i+9] == 0 && b[i+10] == 0 && b[i+11] == 1 && (b[i] != 0 || b[i+1] != 0) {
			return int(b[i])<<8 | int(b[i+1]), i
		}
	}
	return 0, -1
}

func tsAligned(b []byte) bool {
	if len(b) == 0 || len(b)%188 != 0 {
		return false
	}
	for q := 0; q < len(b); q += 188 {
		if b[q] != 0x47 {
			return false
		}
	}
	return true
}

func flvTagTs(t *proj.FlvTagFields) uint32 { return uint32(t.TsExt)<<24 | uint32(t.TsLow) }

// classifyInner classifies the bytes of one write of a non-WebSocket stream (or a WebSocket payload).
func classifyInner(proto string, b []byte) stPart {
	p := stPart{K: "frag", Len: len(b)}
	if len(b) == 0 {
		p.K = "empty"
		return p
	}
	switch proto {
	case "rtmp":
		ms, inc := proj.ReadRtmpMessages(b, 4096)
		if !inc && len(ms) >= 1 {
			p.K = "msg"
			p.Id, _ = IdentifyMsg(ms[0].Type, ms[0].Payload, ms[0].Ts)
		}
	case "flv", "wsflv":
		if bytes.Equal(b, []byte{'F', 'L', 'V', 1, 5, 0, 0, 0, 9, 0, 0, 0, 0}) {
			p.K = "flvh"
			return p
		}
		pos, first := 0, true
		for pos < len(b) {
			t, pl, n := proj.ParseFlvTag(b[pos:])
			if t == nil || t.Prev != 11+t.Size {
				return p
			}
			if first {
				p.Id, _ = IdentifyMsg(t.Type, pl, flvTagTs(t))
				first = false
			}
			pos += n
		}
		p.K = "tag"
	case "ts", "wsts":
		if tsAligned(b) {
			p.K = "ts"
			p.Id, _ = posCodeId(b)
		}
	}
	return p
}

func classify(proto string, b []byte) stPart {
	if bytes.HasPrefix(b, []byte("HTTP/1.1 ")) && bytes.HasSuffix(b, []byte("\r\n\r\n")) {
		return stPart{K: "http", Len: len(b)}
	}
	in := classifyInner(proto, b)
	if in.K != "frag" || (proto != "wsflv" && proto != "wsts") {
		if (proto == "wsflv" || proto == "wsts") && in.K == "empty" {
			return in
		}
		return in
	}
	f, decl := proj.ParseWsHeader(b)
	if f == nil || f.Fin != 1 || f.Rsv != 0 || f.Opcode != 2 || f.Masked != 0 {
		return in
	}
	if len(b) == f.HdrSize {
		return stPart{K: "wsh", Len: decl}
	}
	if len(b) == f.HdrSize+decl {
		pl := classifyInner(proto, b[f.HdrSize:])
		if pl.K != "frag" {
			return stPart{K: "wsf", Id: pl.Id, Len: decl}
		}
	}
	return in
}

type stSent struct {
	msg   base.RtmpMsg
	woSdf []byte
	body  int // length of the position-coded body (frames)
}

// projectStream runs everything a consumer received through the independent protocol readers.
func projectStream(proto string, all []byte, sent map[int]*stSent) (ids []int, left int, bad []string) {
	ids, bad = []int{}, []string{}
	checkMsg := func(typ int, ts uint32, payload []byte) {
		id, sdf := IdentifyMsg(typ, payload, ts)
		ids = append(ids, id)
		s := sent[id]
		if s == nil {
			bad = append(bad, "unknown_message")
			return
		}
		want := s.msg.Payload
		if typ == 18 {
			want = s.woSdf
			if sdf {
				bad = append(bad, "meta_with_sdf")
			}
		}
		if !bytes.Equal(want, payload) {
			bad = append(bad, "payload_differs")
		}
		if ts != s.msg.Header.TimestampAbs || typ != int(s.msg.Header.MsgTypeId) {
			bad = append(bad, "header_differs")
		}
	}
	if proto == "rtmp" {
		ms, inc := proj.ReadRtmpMessages(all, 4096)
		if inc {
			left = 1
		}
		for _, m := range ms {
			checkMsg(m.Type, m.Ts, m.Payload)
		}
		return
	}
	b := all
	if len(b) == 0 {
		return
	}
	k := bytes.Index(b, []byte("\r\n\r\n"))
	if k < 0 || !bytes.HasPrefix(b, []byte("HTTP/1.1 ")) {
		bad = append(bad, "no_http_response_header")
		return
	}
	b = b[k+4:]
	if proto == "wsflv" || proto == "wsts" {
		frames, pl, l := proj.Deframe(b)
		for _, f := range frames {
			if f.Fin != 1 || f.Rsv != 0 || f.Opcode != 2 || f.Masked != 0 {
				bad = append(bad, "ws_bad_frame_header")
				break
			}
		}
		if l != 0 {
			bad = append(bad, "ws_partial_or_garbled_frame")
			left = l
		}
		b = pl
	}
	if proto == "flv" || proto == "wsflv" {
		if len(b) == 0 {
			return
		}
		hasHdr := len(b) >= 13 && bytes.Equal(b[:3], []byte("FLV"))
		pos := 0
		if hasHdr {
			pos = 13
		}
		for pos < len(b) {
			t, pl, n := proj.ParseFlvTag(b[pos:])
			if t == nil {
				left += len(b) - pos
				bad = append(bad, "flv_partial_tag")
				break
			}
			if t.Prev != 11+t.Size || t.Sid != 0 {
				bad = append(bad, "flv_bad_tag")
			}
			checkMsg(t.Type, flvTagTs(t), pl)
			pos += n
		}
		return
	}
	// MPEG-TS: packets, then PES groups of the video PID
	if len(b)%188 != 0 {
		left += len(b) % 188
		bad = append(bad, "ts_partial_packet")
		b = b[:len(b)-len(b)%188]
	}
	var es []byte
	have := false
	lastCc := -1
	flush := func() {
		if !have {
			return
		}
		id, at := posCodeId(es)
		ids = append(ids, id)
		s := sent[id]
		if s == nil || at < 0 {
			bad = append(bad, "ts_unknown_frame")
		} else if len(es)-at != s.body || !proj.IsPayload(es[at:], id, 0) {
			bad = append(bad, "ts_frame_incomplete")
		}
		es, have = nil, false
	}
	for q := 0; q < len(b); q += 188 {
		p := proj.ParseTsPacket(b[q:q+188], true)
		if !p.Sync || p.Bad {
			bad = append(bad, "ts_bad_packet")
			continue
		}
		if p.Pid != 0x100 {
			continue
		}
		if p.Pusi == 1 {
			flush()
			have = true
		} else if have && p.Cc != (lastCc+1)&0xf {
			bad = append(bad, "ts_cc_gap_inside_pes")
		} else if !have {
			bad = append(bad, "ts_continuation_without_start")
		}
		lastCc = p.Cc
		es = append(es, p.Payload...)
	}
	flush()
	return
}

// ---------------------------------------------------------------------------- scenario

type stCons struct {
	name string
	conn *gateConn
	rs   *rtmp.ServerSession
	fs   *httpflv.SubSession
	ts   *httpts.SubSession
}

func init() { Registry["stall"] = stallDriver }

func stallDriver(env *Env) error {
	_ = nazalog.Init(func(o *nazalog.Option) { o.Level = nazalog.LevelLogNothing })
	tw, err := NewTraceWriter(env.Out)
	if err != nil {
		return err
	}
	defer tw.Close()
	oldF, oldT := httpflv.SubSessionWriteChanSize, httpts.SubSessionWriteChanSize
	defer func() { httpflv.SubSessionWriteChanSize, httpts.SubSessionWriteChanSize = oldF, oldT }()
	base.LogicCheckSessionAliveIntervalSec = 1
	nblocked := 0
	return ReadScenarios(env.In, func(raw json.RawMessage) error {
		var sc stScenario
		if err := json.Unmarshal(raw, &sc); err != nil {
			return err
		}
		var evs []M
		for attempt := 0; attempt < 3; attempt++ {
			var slow, blocked bool
			var err error
			evs, slow, blocked, err = runStallScenario(&sc, env.Seed, nblocked >= 8)
			if err != nil {
				return fmt.Errorf("scenario %d: %v", sc.Sc, err)
			}
			if blocked {
				nblocked++
			}
			if !slow {
				break
			}
			fmt.Fprintf(os.Stderr, "scenario %d attempt %d: latency above the bound, retrying\n", sc.Sc, attempt)
		}
		for _, e := range evs {
			tw.Emit(e)
		}
		return nil
	})
}

var stNames = []string{"s1", "s2", "h"}

func runStallScenario(sc *stScenario, seed int64, skipBlocked bool) (evs []M, slow bool, blockedSeen bool, err error) {
	proto := sc.Cfg.Proto
	ws := proto == "wsflv" || proto == "wsts"
	cfg := &logic.Config{}
	cfg.RtmpConfig.Enable = true
	cfg.HttpflvConfig.Enable = proto == "flv" || proto == "wsflv"
	cfg.HttptsConfig.Enable = proto == "ts" || proto == "wsts"
	stream := fmt.Sprintf("b%d", sc.Sc)
	g := logic.NewGroup("live", stream, cfg, logic.GroupOption{}, groupObserver{})
	cons := map[string]*stCons{}
	sent := map[int]*stSent{}
	var pub *rtmp.ServerSession
	tick := uint32(0)
	nextId := 1
	emit := func(m M) { evs = append(evs, m) }
	emit(M{"ev": "reset", "sc": sc.Sc, "cfgId": sc.CfgId, "proto": proto, "ws": ws, "n": sc.Cfg.N, "boundUs": sc.Cfg.BoundUs})

	defer func() {
		for _, c := range cons {
			c.conn.setOpen(true)
			switch {
			case c.rs != nil:
				g.DelRtmpSubSession(c.rs)
				c.rs.Dispose()
			case c.fs != nil:
				g.DelHttpflvSubSession(c.fs)
				c.fs.Dispose()
			case c.ts != nil:
				g.DelHttptsSubSession(c.ts)
				c.ts.Dispose()
			}
		}
		if pub != nil {
			g.DelRtmpPubSession(pub)
			pub.Dispose()
		}
		if e := quiesce(); e != nil && err == nil {
			err = e
		}
	}()

	// snapshot: per consumer the part blocked in the gate, the parts written since the last snapshot, closed
	pieces := map[[20]byte]stPart{}
	one := func(b []byte) stPart {
		p := classifyU(proto, b)
		if p.K == "frag" {
			if pc, ok := pieces[sha1.Sum(b)]; ok {
				return pc
			}
		}
		return p
	}
	snap := func(m M) {
		infl, wire, closed := M{}, M{}, M{}
		for _, n := range []string{"h", "s1", "s2"} { // h first: it shows which writes form a unit together
			c := cons[n]
			fl, w := []stPart{}, []stPart{}
			cl := false
			if c != nil {
				c.conn.mu.Lock()
				if n == "h" {
					w = groupPieces(proto, c.conn.wire[c.conn.nseen:], pieces)
				} else {
					if c.conn.waiting != nil {
						fl = append(fl, one(c.conn.waiting.b))
					}
					for _, b := range c.conn.wire[c.conn.nseen:] {
						w = append(w, one(b))
					}
				}
				c.conn.nseen = len(c.conn.wire)
				cl = c.conn.closed
				c.conn.mu.Unlock()
			}
			infl[n], wire[n], closed[n] = fl, w, cl
		}
		m["infl"], m["wire"], m["closed"] = infl, wire, closed
		emit(m)
	}
	// watched runs one call into lal on its own goroutine and waits until it has returned and the write
	// loops are quiescent, or until the call is parked for good: its goroutine waits on a channel or a
	// lock while every write loop is parked as well, so nothing in the process can wake it (no timer).
	watched := func(fn func()) (blocked bool, callUs, latUs int64, e error) {
		done := make(chan struct{})
		t0 := time.Now()
		var t1 time.Time
		go func() {
			watchedCall(fn)
			t1 = time.Now()
			close(done)
		}()
		for k := 0; ; k++ {
			select {
			case <-done:
			default:
				if k > 20 {
					st := goroutineStates()
					if st.pubSeen && st.pubBlocked && st.writersQuiet {
						// confirm: still parked on a second look
						time.Sleep(200 * time.Microsecond)
						st2 := goroutineStates()
						select {
						case <-done:
						default:
							if st2.pubSeen && st2.pubBlocked && st2.writersQuiet {
								blocked = true
							}
						}
					}
				}
				if !blocked {
					if k < 20 {
						runtime.Gosched()
					} else {
						time.Sleep(20 * time.Microsecond)
					}
					continue
				}
			}
			break
		}
		if blocked {
			for _, c := range cons {
				c.conn.setOpen(true)
			}
			select {
			case <-done:
			case <-time.After(20 * time.Second):
				return true, 0, 0, fmt.Errorf("call stayed blocked after all gates were opened")
			}
			return true, time.Since(t0).Microseconds(), 0, nil
		}
		if e = quiesce(); e != nil {
			return
		}
		callUs = t1.Sub(t0).Microseconds()
		if h := cons["h"]; h != nil {
			h.conn.mu.Lock()
			if len(h.conn.wire) > h.conn.nseen {
				latUs = h.conn.last.Sub(t0).Microseconds()
			}
			h.conn.mu.Unlock()
		}
		return
	}

	publish := func(t string, sz int) (blocked bool, callUs, latUs int64, e error) {
		id := nextId
		nextId++
		m := &AMsg{Id: id, T: t, Hv: 1, Ha: 2}
		if (proto == "ts" || proto == "wsts") && t == "aud" {
			m.T = "inter"
		}
		n := 700 + (id*37+int(seed)*11+sc.Sc*5)%300
		if id%4 == 0 {
			n = 4000 + (id*13+int(seed)*7+sc.Sc*3)%3000 // several RTMP chunks
		}
		if sz > 0 {
			n = sz + (id*3)%50 // units well above any piece size a session might cut its writes into
		}
		msg := BuildMsg(m, n, uint32(40*id))
		s := &stSent{msg: msg.Clone(), woSdf: msg.Payload, body: n}
		if m.T == "meta" && id%2 == 1 {
			s.woSdf = msg.Payload[16:]
		}
		sent[id] = s
		return watched(func() { g.OnReadRtmpAvMsg(msg) })
	}

	for _, st := range sc.Steps {
		switch st.Name {
		case "PubArrive":
			pub = rtmp.NewServerSession(nullObserver{}, NewMemConn("pub"))
			ok := false
			blocked, callUs, _, e := watched(func() { ok = g.AddRtmpPubSession(pub) == nil })
			if e != nil {
				err = e
				return
			}
			snap(M{"ev": "PubArrive", "ok": ok, "blocked": blocked, "callUs": callUs})
			if blocked {
				blockedSeen = true
				return
			}
		case "PubLeave":
			if pub == nil {
				continue
			}
			p0 := pub
			pub = nil
			blocked, callUs, _, e := watched(func() { g.DelRtmpPubSession(p0) })
			if e != nil {
				err = e
				return
			}
			p0.Dispose()
			snap(M{"ev": "PubLeave", "blocked": blocked, "callUs": callUs})
			if blocked {
				blockedSeen = true
				return
			}
		case "Join":
			for _, n := range stNames {
				c := &stCons{name: n, conn: newGateConn(n)}
				size := sc.Cfg.N
				if n == "h" {
					size = 1024
				}
				switch proto {
				case "rtmp":
					c.rs = rtmp.NewServerSession(nullObserver{}, c.conn)
					old := rtmp.VerifSetWChanSize(size)
					c.rs.VerifStartPlay()
					rtmp.VerifSetWChanSize(old)
					g.AddRtmpSubSession(c.rs)
				case "flv", "wsflv":
					u, _ := base.ParseUrl("http://h/live/"+stream+".flv", 80)
					httpflv.SubSessionWriteChanSize = size
					c.fs = httpflv.NewSubSession(c.conn, u, ws, "dGhlIHNhbXBsZSBub25jZQ==")
					g.AddHttpflvSubSession(c.fs)
				case "ts", "wsts":
					u, _ := base.ParseUrl("http://h/live/"+stream+".ts", 80)
					httpts.SubSessionWriteChanSize = size
					c.ts = httpts.NewSubSession(c.conn, u, ws, "dGhlIHNhbXBsZSBub25jZQ==")
					g.AddHttptsSubSession(c.ts)
				default:
					return nil, false, false, fmt.Errorf("unknown protocol %q", proto)
				}
				cons[n] = c
			}
			if err = quiesce(); err != nil {
				return
			}
			snap(M{"ev": "Join"})
		case "Publish":
			t := st.T
			if t == "" {
				t = "key"
			}
			blocked, callUs, latUs, e := publish(t, st.N)
			if e != nil {
				err = e
				return
			}
			if blocked {
				blockedSeen = true
			} else if sc.Cfg.BoundUs > 0 && (callUs > sc.Cfg.BoundUs || latUs > sc.Cfg.BoundUs) {
				slow = true
			}
			snap(M{"ev": "Publish", "id": nextId - 1, "blocked": blocked, "callUs": callUs, "latUs": latUs})
			if blocked {
				return
			}
		case "Stall":
			if c := cons[st.C]; c != nil {
				c.conn.setOpen(false)
			}
			snap(M{"ev": "Stall", "c": st.C})
		case "Resume":
			if c := cons[st.C]; c != nil {
				c.conn.setOpen(true)
			}
			if err = quiesce(); err != nil {
				return
			}
			snap(M{"ev": "Resume", "c": st.C})
		case "Read":
			rel := false
			if c := cons[st.C]; c != nil {
				rel = c.conn.releaseOne(nil)
			}
			if err = quiesce(); err != nil {
				return
			}
			snap(M{"ev": "Read", "c": st.C, "released": rel})
		case "Fire":
			armed, had := false, false
			if c := cons[st.C]; c != nil {
				c.conn.mu.Lock()
				w := c.conn.waiting
				c.conn.mu.Unlock()
				if w != nil {
					had, armed = true, w.armed
					if armed {
						c.conn.releaseOne(timeoutErr{})
						select {
						case <-c.conn.closedCh:
						case <-time.After(10 * time.Second):
						}
					}
				}
			}
			if err = quiesce(); err != nil {
				return
			}
			snap(M{"ev": "Fire", "c": st.C, "had": had, "armed": armed})
		case "Sweep":
			tick++
			tk := tick
			blocked, callUs, _, e := watched(func() { g.Tick(tk) })
			if e != nil {
				err = e
				return
			}
			snap(M{"ev": "Sweep", "blocked": blocked, "callUs": callUs})
			if blocked {
				blockedSeen = true
				return
			}
		}
	}
	// drain: every consumer that is still connected reads everything that is queued for it
	for _, c := range cons {
		c.conn.setOpen(true)
	}
	if err = quiesce(); err != nil {
		return
	}
	ids, left, bad := M{}, M{}, M{}
	for _, n := range stNames {
		i, l, b := []int{}, 0, []string{}
		if c := cons[n]; c != nil {
			c.conn.mu.Lock()
			all := bytes.Join(c.conn.wire, nil)
			c.conn.mu.Unlock()
			i, l, b = projectStream(proto, all, sent)
		}
		ids[n], left[n], bad[n] = i, l, b
	}
	snap(M{"ev": "Drain", "ids": ids, "left": left, "bad": bad})
	return
}

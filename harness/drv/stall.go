package drv

import (
	"bytes"
	"crypto/sha1"
	"encoding/binary"
	"encoding/json"
	"fmt"
	"math"
	"net"
	"os"
	"regexp"
	"runtime"
	"strings"
	"sync"
	"time"

	"github.com/q191201771/lal/pkg/base"
	"github.com/q191201771/lal/pkg/httpflv"
	"github.com/q191201771/lal/pkg/httpts"
	"github.com/q191201771/lal/pkg/logic"
	"github.com/q191201771/lal/pkg/rtmp"
	"github.com/q191201771/lal/pkg/rtsp"
	"github.com/q191201771/naza/pkg/nazalog"

	"lalverif/proj"
)

// Driver "stall" (C15): a bare logic.Group with a real publisher and real subscriber sessions of
// one protocol whose asynchronous write queue (naza connection, WriteChanSize = N) drains into a
// GATED in-memory connection: conn.Write blocks until the driver releases exactly one write (the
// consumer "reads" it), lets it time out (the write deadline "fires" on the connection's virtual
// clock) or opens the gate (the consumer reads at line rate).  A third consumer "h" has the
// production queue size and an open gate: what it is handed per publish defines the write units of
// that step, and the time until it has them is the delivery latency.
//
// Real goroutines are involved (the connection's write loop), so every step ends with a
// quiescence barrier that does not depend on time: all goroutines running runWriteLoop are either
// parked in their select (queue empty) or blocked inside the gate.  Observations are taken only
// at quiescence.

type stCfg struct {
	Proto   string `json:"proto"` // rtmp | rtmpmw | flv | wsflv | ts | wsts | rtsp | wsrtsp
	Two     bool   `json:"two"`   // a second stream (another Group) under one logic.ServerManager
	Gop     int    `json:"gop"`   // gop_num of the rtmp / http-flv / http-ts caches (0 = no cache)
	Tcp     bool   `json:"tcp"`   // consumers on real loopback TCP connections (stall_tcp.go); n = stalled consumers
	N       int    `json:"n"`
	BoundUs int64  `json:"boundUs"`
}

type stStep struct {
	Name string `json:"name"`
	C    string `json:"c"`
	T    string `json:"t"`
	N    int    `json:"n"` // body length of the published frame (0 = default pool)
	K    string `json:"k"` // Cmd: ping | cs | opt
	V    int    `json:"v"` // Cmd: the value the answer echoes (timestamp, transaction id, CSeq)
}

type stScenario struct {
	Sc    int      `json:"sc"`
	Cfg   stCfg    `json:"cfg"`
	CfgId string   `json:"cfgId"`
	Steps []stStep `json:"steps"`
}

// ---------------------------------------------------------------------------- gated connection

type gWrite struct {
	b     []byte
	armed bool
	rel   chan error
}

type gateConn struct {
	mu          sync.Mutex
	name        string
	open        bool
	waiting     *gWrite
	in          []byte // sent by the consumer, not yet read by the session
	rcond       *sync.Cond
	readWaiting bool
	wire        [][]byte
	wireEl      []int // queue element each write belongs to
	curEl       int
	everDl      bool
	last        time.Time // completion time of the last write
	nseen       int       // writes already reported
	closed      bool
	closedCh    chan struct{}
	dl          time.Time
}

func newGateConn(name string) *gateConn {
	c := &gateConn{name: name, open: true, closedCh: make(chan struct{})}
	c.rcond = sync.NewCond(&c.mu)
	return c
}

// Read hands the session's read loop what the consumer has sent (Feed); it waits while there is nothing.
func (c *gateConn) Read(b []byte) (int, error) {
	c.mu.Lock()
	defer c.mu.Unlock()
	for len(c.in) == 0 && !c.closed {
		c.readWaiting = true
		c.rcond.Wait()
	}
	c.readWaiting = false
	if len(c.in) == 0 {
		return 0, net.ErrClosed
	}
	n := copy(b, c.in)
	c.in = c.in[n:]
	return n, nil
}

// Feed: the consumer sends bytes.
func (c *gateConn) Feed(b []byte) {
	c.mu.Lock()
	c.in = append(c.in, b...)
	c.mu.Unlock()
	c.rcond.Broadcast()
}

// readerIdle: the read loop has taken everything that was sent and waits for more (or the connection is closed).
func (c *gateConn) readerIdle() bool {
	c.mu.Lock()
	defer c.mu.Unlock()
	return c.closed || (len(c.in) == 0 && c.readWaiting)
}

func (c *gateConn) Write(b []byte) (int, error) {
	c.mu.Lock()
	if c.closed {
		c.mu.Unlock()
		return 0, net.ErrClosed
	}
	cp := append([]byte{}, b...)
	if !c.everDl {
		c.curEl++ // no per-element deadline call on this connection: it only uses Write, one write per element
	}
	el := c.curEl
	if c.open {
		c.wire = append(c.wire, cp)
		c.wireEl = append(c.wireEl, el)
		c.last = time.Now()
		c.mu.Unlock()
		return len(b), nil
	}
	w := &gWrite{b: cp, armed: !c.dl.IsZero(), rel: make(chan error, 1)}
	c.waiting = w
	c.mu.Unlock()
	err := <-w.rel
	c.mu.Lock()
	defer c.mu.Unlock()
	c.waiting = nil
	if err != nil {
		return 0, err
	}
	c.wire = append(c.wire, cp)
	c.wireEl = append(c.wireEl, el)
	c.last = time.Now()
	return len(b), nil
}

// releaseOne lets the blocked write (if any) complete with err (nil = the consumer read it).
func (c *gateConn) releaseOne(err error) bool {
	c.mu.Lock()
	w := c.waiting
	c.mu.Unlock()
	if w == nil {
		return false
	}
	select {
	case w.rel <- err:
	default:
	}
	return true
}

func (c *gateConn) setOpen(open bool) {
	c.mu.Lock()
	c.open = open
	w := c.waiting
	c.mu.Unlock()
	if open && w != nil {
		select {
		case w.rel <- nil:
		default:
		}
	}
}

func (c *gateConn) Close() error {
	c.mu.Lock()
	if c.closed {
		c.mu.Unlock()
		return nil
	}
	c.closed = true
	w := c.waiting
	// the write parked in the gate ends with the connection: it is no longer "waiting" from this instant on, whenever its
	// goroutine gets to run (a snapshot or a Read step in between must not see it)
	c.waiting = nil
	close(c.closedCh)
	c.mu.Unlock()
	c.rcond.Broadcast()
	if w != nil {
		select {
		case w.rel <- net.ErrClosed:
		default:
		}
	}
	return nil
}

func (c *gateConn) isClosed() bool {
	c.mu.Lock()
	defer c.mu.Unlock()
	return c.closed
}

func (c *gateConn) LocalAddr() net.Addr               { return memAddr("local") }
func (c *gateConn) RemoteAddr() net.Addr              { return memAddr("10.0.0.2:" + c.name) }
func (c *gateConn) SetDeadline(t time.Time) error     { return nil }
func (c *gateConn) SetReadDeadline(t time.Time) error { return nil }

// SetWriteDeadline: naza's connection arms the deadline once per queue element, before the write (Write)
// or writes (Writev, one per buffer) of that element: the call marks the element boundaries.
func (c *gateConn) SetWriteDeadline(t time.Time) error {
	c.mu.Lock()
	c.dl = t
	c.everDl = true
	c.curEl++
	c.mu.Unlock()
	return nil
}

type timeoutErr struct{}

func (timeoutErr) Error() string   { return "i/o timeout (virtual write deadline)" }
func (timeoutErr) Timeout() bool   { return true }
func (timeoutErr) Temporary() bool { return true }

// ---------------------------------------------------------------------------- quiescence

type gState struct {
	writersQuiet bool
	pubBlocked   bool // the goroutine running the watched call into lal is parked on a channel / lock
	pubSeen      bool
	rdBlocked    bool // a session's read loop is parked on a channel / lock (not waiting for input)
}

var stackBuf = make([]byte, 256<<10) // only the driver's main goroutine looks at goroutine states

func goroutineStates() gState {
	var buf []byte
	for {
		n := runtime.Stack(stackBuf, true)
		if n < len(stackBuf) {
			buf = stackBuf[:n]
			break
		}
		stackBuf = make([]byte, 2*len(stackBuf))
	}
	st := gState{writersQuiet: true}
	for _, blk := range strings.Split(string(buf), "\n\n") {
		if !strings.HasPrefix(blk, "goroutine ") {
			continue
		}
		i, j := strings.Index(blk, "["), strings.Index(blk, "]")
		if i < 0 || j < i {
			continue
		}
		state := blk[i+1 : j]
		// a write loop is recognised by where it was started (a goroutine that has not run yet shows
		// only a compiler-generated wrapper as its frame)
		if strings.Contains(blk, "created by github.com/q191201771/naza/pkg/connection.") {
			if strings.Contains(blk, "drv.(*gateConn).Write") {
				if !strings.HasPrefix(state, "chan receive") {
					st.writersQuiet = false
				}
			} else if !strings.Contains(blk, "connection.(*connection).runWriteLoop") || !strings.HasPrefix(state, "select") {
				st.writersQuiet = false
			}
		}
		if (strings.Contains(blk, "rtmp.(*ServerSession).RunLoop") || strings.Contains(blk, "rtsp.(*ServerCommandSession).RunLoop")) &&
			!strings.Contains(blk, "drv.(*gateConn).Read") {
			if strings.HasPrefix(state, "chan send") || strings.HasPrefix(state, "chan receive") ||
				strings.HasPrefix(state, "select") || strings.HasPrefix(state, "semacquire") {
				st.rdBlocked = true
			}
		}
		if strings.Contains(blk, "lalverif/drv.watchedCall") {
			st.pubSeen = true
			if strings.HasPrefix(state, "chan send") || strings.HasPrefix(state, "chan receive") ||
				strings.HasPrefix(state, "select") || strings.HasPrefix(state, "sync.Mutex.Lock") ||
				strings.HasPrefix(state, "semacquire") {
				st.pubBlocked = true
			}
		}
	}
	return st
}

// watchedCall is the frame by which the goroutine that runs a call into lal is recognised in a
// goroutine dump.
//
//go:noinline
func watchedCall(fn func()) { fn() }

// quiesce waits until every connection write loop is parked (idle or inside the gate).
func quiesce() error {
	dead := time.Now().Add(20 * time.Second)
	for k := 0; ; k++ {
		if goroutineStates().writersQuiet {
			return nil
		}
		if time.Now().After(dead) {
			return fmt.Errorf("write loops did not become quiescent")
		}
		if k < 50 {
			runtime.Gosched()
		} else {
			time.Sleep(50 * time.Microsecond)
		}
	}
}

// ---------------------------------------------------------------------------- projection

// stPart is one write as the gate sees it.  A write that is a whole number of protocol units has its
// own kind; a write that is the i-th of `of` consecutive writes which only together form a unit is a
// "piece" of that unit (uk = kind, id, len of the unit): which writes belong together is learnt at the
// healthy consumer, which is handed every write of a call, and recognised elsewhere by content.
type stPart struct {
	K   string `json:"k"`
	Uk  string `json:"uk"`
	Id  int    `json:"id"`
	Len int    `json:"len"`
	I   int    `json:"i"`
	Of  int    `json:"of"`
}

func classifyU(proto string, b []byte) stPart {
	p := classify(proto, b)
	p.Uk = p.K
	return p
}

// groupPieces classifies consecutive writes, joining runs that are no units by themselves.
func groupPieces(proto string, ws [][]byte, reg map[[20]byte]stPart) []stPart {
	out := make([]stPart, 0, len(ws))
	for i := 0; i < len(ws); {
		p := classifyU(proto, ws[i])
		if p.K != "frag" {
			out = append(out, p)
			i++
			continue
		}
		joined := append([]byte{}, ws[i]...)
		found := 0
		for j := i + 1; j < len(ws) && j < i+64; j++ {
			joined = append(joined, ws[j]...)
			if u := classifyU(proto, joined); u.K != "frag" {
				for k := i; k <= j; k++ {
					pc := stPart{K: "piece", Uk: u.K, Id: u.Id, Len: u.Len, I: k - i + 1, Of: j - i + 1}
					reg[sha1.Sum(ws[k])] = pc
					out = append(out, pc)
				}
				found = j - i + 1
				break
			}
		}
		if found == 0 {
			out = append(out, p)
			found = 1
		}
		i += found
	}
	return out
}

// posCodeId finds the first position-coded run (id, block 0)(id, block 1) in b.
func posCodeId(b []byte) (id int, at int) {
	for i := 0; i+12 <= len(b); i++ {
		if b[i+2] == 0 && b[i+3] == 0 && b[i+4] == 0 && b[i+5] == 0 && b[i+6] == b[i] && b[i+7] == b[i+1] &&
			b[i+8] == 0 && b[i+9] == 0 && b[i+10] == 0 && b[i+11] == 1 && (b[i] != 0 || b[i+1] != 0) {
			return int(b[i])<<8 | int(b[i+1]), i
		}
	}
	return 0, -1
}

// posCodeAny finds two consecutive code groups (id, block k)(id, block k+1) anywhere in b.
func posCodeAny(b []byte) int {
	for i := 0; i+12 <= len(b); i++ {
		if b[i+6] == b[i] && b[i+7] == b[i+1] && (b[i] != 0 || b[i+1] != 0) {
			k0 := uint32(b[i+2])<<24 | uint32(b[i+3])<<16 | uint32(b[i+4])<<8 | uint32(b[i+5])
			k1 := uint32(b[i+8])<<24 | uint32(b[i+9])<<16 | uint32(b[i+10])<<8 | uint32(b[i+11])
			if k1 == k0+1 && k0 < 1<<20 {
				return int(b[i])<<8 | int(b[i+1])
			}
		}
	}
	return 0
}

// interleaved reports whether b is exactly one '$'-framed interleaved packet (RFC 2326 10.12).
func interleaved(b []byte) bool {
	return len(b) >= 4 && b[0] == '$' && len(b) == 4+(int(b[2])<<8|int(b[3]))
}

// Identities of the replies a session writes to its own consumer (the echoed value makes a reply
// recognisable by content): ping response 100000 + timestamp, _result 200000 + transaction id, RTSP
// response 300000 + CSeq.
const stReplyBase = 100000

// rtmpUnitId: media messages carry their message id, signalling replies the value they echo.
func rtmpUnitId(typ int, payload []byte, ts uint32) int {
	switch typ {
	case 4: // user control: event type(2) data
		if len(payload) == 6 && payload[0] == 0 && payload[1] == 7 {
			return stReplyBase + int(uint32(payload[2])<<24|uint32(payload[3])<<16|uint32(payload[4])<<8|uint32(payload[5]))%100000
		}
		return 0
	case 20: // AMF0 command: string name, number transaction id
		if len(payload) >= 3 && payload[0] == 2 {
			n := int(payload[1])<<8 | int(payload[2])
			if len(payload) >= 3+n+9 && string(payload[3:3+n]) == "_result" && payload[3+n] == 0 {
				f := math.Float64frombits(binary.BigEndian.Uint64(payload[4+n:]))
				if f >= 0 && f < 100000 {
					return 2*stReplyBase + int(f)
				}
			}
		}
		return 0
	case 8, 9, 18:
		id, _ := IdentifyMsg(typ, payload, ts)
		return id
	}
	return 0
}

// rtspResponse parses one RTSP response at the start of b (status line, headers, Content-Length body) and
// returns its length (0 if b does not start with a complete response) and 300000 + CSeq.
func rtspResponse(b []byte) (n int, id int) {
	if !bytes.HasPrefix(b, []byte("RTSP/1.0 ")) {
		return 0, 0
	}
	k := bytes.Index(b, []byte("\r\n\r\n"))
	if k < 0 {
		return 0, 0
	}
	clen, cseq := 0, 0
	for _, l := range strings.Split(string(b[:k]), "\r\n") {
		if i := strings.Index(l, ":"); i > 0 {
			v := strings.TrimSpace(l[i+1:])
			switch strings.ToLower(l[:i]) {
			case "content-length":
				fmt.Sscanf(v, "%d", &clen)
			case "cseq":
				fmt.Sscanf(v, "%d", &cseq)
			}
		}
	}
	if k+4+clen > len(b) {
		return 0, 0
	}
	return k + 4 + clen, 3*stReplyBase + cseq%100000
}

func isWsProto(proto string) bool { return proto == "wsflv" || proto == "wsts" || proto == "wsrtsp" }

func tsAligned(b []byte) bool {
	if len(b) == 0 || len(b)%188 != 0 {
		return false
	}
	for q := 0; q < len(b); q += 188 {
		if b[q] != 0x47 {
			return false
		}
	}
	return true
}

func flvTagTs(t *proj.FlvTagFields) uint32 { return uint32(t.TsExt)<<24 | uint32(t.TsLow) }

// classifyInner classifies the bytes of one write of a non-WebSocket stream (or a WebSocket payload).
func classifyInner(proto string, b []byte) stPart {
	p := stPart{K: "frag", Len: len(b)}
	if len(b) == 0 {
		p.K = "empty"
		return p
	}
	switch proto {
	case "rtmp", "rtmpmw":
		if len(b) == 3073 && b[0] == 3 {
			p.K = "hs" // S0 S1 S2
			return p
		}
		ms, inc := proj.ReadRtmpMessages(b, 4096)
		if !inc && len(ms) >= 1 {
			p.K = "msg"
			p.Id = rtmpUnitId(ms[0].Type, ms[0].Payload, ms[0].Ts)
		}
	case "flv", "wsflv":
		if bytes.Equal(b, []byte{'F', 'L', 'V', 1, 5, 0, 0, 0, 9, 0, 0, 0, 0}) {
			p.K = "flvh"
			return p
		}
		pos, first := 0, true
		for pos < len(b) {
			t, pl, n := proj.ParseFlvTag(b[pos:])
			if t == nil || t.Prev != 11+t.Size {
				return p
			}
			if first {
				p.Id, _ = IdentifyMsg(t.Type, pl, flvTagTs(t))
				first = false
			}
			pos += n
		}
		p.K = "tag"
	case "ts", "wsts":
		if tsAligned(b) {
			p.K = "ts"
			p.Id, _ = posCodeId(b)
		}
	case "rtsp", "wsrtsp":
		if interleaved(b) {
			p.K = "rtp"
			p.Id = posCodeAny(b[4:])
		} else if n, id := rtspResponse(b); n == len(b) {
			p.K = "rtspr"
			p.Id = id
		}
	}
	return p
}

func classify(proto string, b []byte) stPart {
	if bytes.HasPrefix(b, []byte("HTTP/1.1 ")) && bytes.HasSuffix(b, []byte("\r\n\r\n")) {
		return stPart{K: "http", Len: len(b)}
	}
	in := classifyInner(proto, b)
	if in.K != "frag" || !isWsProto(proto) {
		return in
	}
	f, decl := proj.ParseWsHeader(b)
	if f == nil || f.Fin != 1 || f.Rsv != 0 || f.Opcode != 2 || f.Masked != 0 {
		return in
	}
	if len(b) == f.HdrSize && decl > 0 {
		return stPart{K: "wsh", Len: decl}
	}
	if len(b) == f.HdrSize+decl {
		pl := classifyInner(proto, b[f.HdrSize:])
		if pl.K != "frag" {
			return stPart{K: "wsf", Id: pl.Id, Len: decl}
		}
	}
	return in
}

type stSent struct {
	msg   base.RtmpMsg
	woSdf []byte
	body  int // length of the position-coded body (frames)
}

// projectStream runs everything a consumer received through the independent protocol readers.
func projectStream(proto string, all []byte, sent map[int]*stSent) (ids []int, left int, bad []string) {
	ids, bad = []int{}, []string{}
	checkMsg := func(typ int, ts uint32, payload []byte) {
		id, sdf := IdentifyMsg(typ, payload, ts)
		ids = append(ids, id)
		s := sent[id]
		if s == nil {
			bad = append(bad, "unknown_message")
			return
		}
		want := s.msg.Payload
		if typ == 18 {
			want = s.woSdf
			if sdf {
				bad = append(bad, "meta_with_sdf")
			}
		}
		if !bytes.Equal(want, payload) {
			bad = append(bad, "payload_differs")
		}
		if ts != s.msg.Header.TimestampAbs || typ != int(s.msg.Header.MsgTypeId) {
			bad = append(bad, "header_differs")
		}
	}
	if proto == "rtmp" || proto == "rtmpmw" {
		if len(all) >= 3073 && all[0] == 3 {
			all = all[3073:] // S0 S1 S2 of a session that went through the handshake
		}
		ms, inc := proj.ReadRtmpMessages(all, 4096)
		if inc {
			left = 1
		}
		for _, m := range ms {
			if m.Type == 8 || m.Type == 9 || m.Type == 18 {
				checkMsg(m.Type, m.Ts, m.Payload)
			} else if id := rtmpUnitId(m.Type, m.Payload, m.Ts); id != 0 {
				ids = append(ids, id) // a signalling reply, recognised by the value it echoes
			}
		}
		return
	}
	b := all
	if len(b) == 0 {
		return
	}
	if proto == "rtsp" || proto == "wsrtsp" {
		if proto == "wsrtsp" {
			frames, pl, l := proj.Deframe(b)
			for _, f := range frames {
				if f.Fin != 1 || f.Rsv != 0 || f.Opcode != 2 || f.Masked != 0 {
					bad = append(bad, "ws_bad_frame_header")
					break
				}
			}
			if l != 0 {
				bad = append(bad, "ws_partial_or_garbled_frame")
				left = l
			}
			b = pl
		}
		// RFC 2326 10.12: '$' channel length(2) packet
		for pos := 0; pos < len(b); {
			if n, id := rtspResponse(b[pos:]); n > 0 { // a response to a request of the consumer
				ids = append(ids, id)
				pos += n
				continue
			}
			if b[pos] != '$' {
				bad = append(bad, "interleaved_frame_lost")
				left += len(b) - pos
				break
			}
			if pos+4 > len(b) || pos+4+(int(b[pos+2])<<8|int(b[pos+3])) > len(b) {
				bad = append(bad, "interleaved_partial_frame")
				left += len(b) - pos
				break
			}
			n := int(b[pos+2])<<8 | int(b[pos+3])
			pkt := b[pos+4 : pos+4+n]
			if n > 0 && (n < 8 || pkt[0]>>6 != 2) {
				bad = append(bad, "interleaved_not_rtp")
			}
			if id := posCodeAny(pkt); id != 0 {
				ids = append(ids, id)
			}
			pos += 4 + n
		}
		return
	}
	k := bytes.Index(b, []byte("\r\n\r\n"))
	if k < 0 || !bytes.HasPrefix(b, []byte("HTTP/1.1 ")) {
		bad = append(bad, "no_http_response_header")
		return
	}
	b = b[k+4:]
	if isWsProto(proto) {
		frames, pl, l := proj.Deframe(b)
		for _, f := range frames {
			if f.Fin != 1 || f.Rsv != 0 || f.Opcode != 2 || f.Masked != 0 {
				bad = append(bad, "ws_bad_frame_header")
				break
			}
		}
		if l != 0 {
			bad = append(bad, "ws_partial_or_garbled_frame")
			left = l
		}
		b = pl
	}
	if proto == "flv" || proto == "wsflv" {
		if len(b) == 0 {
			return
		}
		hasHdr := len(b) >= 13 && bytes.Equal(b[:3], []byte("FLV"))
		pos := 0
		if hasHdr {
			pos = 13
		}
		for pos < len(b) {
			t, pl, n := proj.ParseFlvTag(b[pos:])
			if t == nil {
				left += len(b) - pos
				bad = append(bad, "flv_partial_tag")
				break
			}
			if t.Prev != 11+t.Size || t.Sid != 0 {
				bad = append(bad, "flv_bad_tag")
			}
			checkMsg(t.Type, flvTagTs(t), pl)
			pos += n
		}
		return
	}
	// MPEG-TS: packets, then PES groups of the video PID
	if len(b)%188 != 0 {
		left += len(b) % 188
		bad = append(bad, "ts_partial_packet")
		b = b[:len(b)-len(b)%188]
	}
	var es []byte
	have := false
	lastCc := -1
	flush := func() {
		if !have {
			return
		}
		id, at := posCodeId(es)
		ids = append(ids, id)
		s := sent[id]
		if s == nil || at < 0 {
			bad = append(bad, "ts_unknown_frame")
		} else if len(es)-at != s.body || !proj.IsPayload(es[at:], id, 0) {
			bad = append(bad, "ts_frame_incomplete")
		}
		es, have = nil, false
	}
	for q := 0; q < len(b); q += 188 {
		p := proj.ParseTsPacket(b[q:q+188], true)
		if !p.Sync || p.Bad {
			bad = append(bad, "ts_bad_packet")
			continue
		}
		if p.Pid != 0x100 {
			continue
		}
		if p.Pusi == 1 {
			flush()
			have = true
		} else if have && p.Cc != (lastCc+1)&0xf {
			bad = append(bad, "ts_cc_gap_inside_pes")
		} else if !have {
			bad = append(bad, "ts_continuation_without_start")
		}
		lastCc = p.Cc
		es = append(es, p.Payload...)
	}
	flush()
	return
}

// ---------------------------------------------------------------------------- scenario

type stCons struct {
	name string
	conn *gateConn
	rs   *rtmp.ServerSession
	fs   *httpflv.SubSession
	ts   *httpts.SubSession
	rsub *rtsp.SubSession
	rcmd *rtsp.ServerCommandSession
	done chan struct{} // closed when the session's read loop has ended and its departure has been reported
	enc  *proj.RsEnc   // the consumer's own RTMP chunk encoder
	ncmd int
}

// null hands the session a unit without media (no bytes, or the protocol's empty frame) through its own
// write path: it occupies the connection's writer like any other unit.
func (c *stCons) null() {
	switch {
	case c.rs != nil:
		_ = c.rs.Write([]byte{})
	case c.fs != nil:
		c.fs.Write([]byte{})
	case c.ts != nil:
		c.ts.Write([]byte{})
	case c.rsub != nil:
		_ = c.rsub.WriteInterleavedPacket([]byte{}, 0)
	}
}

// stWire is the observer of the sessions that run their real read loop (rtmp.Server's per-connection routine,
// ServerCommandSession.RunLoop): it does what logic.ServerManager does with the callbacks, on the bare Group
// or through the ServerManager of the scenario.
type stWire struct {
	g      *logic.Group
	sm     *logic.ServerManager
	cur    *stCons // the consumer that is joining
	joined chan error
}

func (w *stWire) OnRtmpConnect(session *rtmp.ServerSession, opa rtmp.ObjectPairArray) {
	if w.sm != nil {
		w.sm.OnRtmpConnect(session, opa)
	}
}
func (w *stWire) OnNewRtmpPubSession(session *rtmp.ServerSession) error {
	return fmt.Errorf("the stall driver publishes through the group")
}
func (w *stWire) OnDelRtmpPubSession(session *rtmp.ServerSession) {}
func (w *stWire) OnNewRtmpSubSession(session *rtmp.ServerSession) (err error) {
	w.cur.rs = session
	if w.sm != nil {
		err = w.sm.OnNewRtmpSubSession(session)
	} else {
		w.g.AddRtmpSubSession(session)
	}
	w.joined <- err
	return err
}
func (w *stWire) OnDelRtmpSubSession(session *rtmp.ServerSession) {
	if w.sm != nil {
		w.sm.OnDelRtmpSubSession(session)
	} else {
		w.g.DelRtmpSubSession(session)
	}
}
func (w *stWire) OnNewRtspPubSession(session *rtsp.PubSession) error {
	return fmt.Errorf("the stall driver publishes through the group")
}
func (w *stWire) OnNewRtspSubSessionDescribe(session *rtsp.SubSession) (ok bool, sdp []byte) {
	w.cur.rsub = session
	if w.sm != nil {
		return w.sm.OnNewRtspSubSessionDescribe(session)
	}
	return w.g.HandleNewRtspSubSessionDescribe(session)
}
func (w *stWire) OnNewRtspSubSessionPlay(session *rtsp.SubSession) (err error) {
	if w.sm != nil {
		err = w.sm.OnNewRtspSubSessionPlay(session)
	} else {
		w.g.HandleNewRtspSubSessionPlay(session)
	}
	w.joined <- err
	return err
}

// AMF0 values and WebSocket client frames of the consumer's side
func stAmfStr(v string) []byte { return append([]byte{2, byte(len(v) >> 8), byte(len(v))}, v...) }
func stAmfNum(f float64) []byte {
	b := make([]byte, 9)
	binary.BigEndian.PutUint64(b[1:], math.Float64bits(f))
	return b
}

// stWsClientFrame: one masked text frame (RFC 6455 5.3; mask key zero leaves the payload as it is).
func stWsClientFrame(p []byte) []byte {
	b := []byte{0x81}
	switch {
	case len(p) < 126:
		b = append(b, 0x80|byte(len(p)))
	default:
		b = append(b, 0x80|126, byte(len(p)>>8), byte(len(p)))
	}
	b = append(b, 0, 0, 0, 0)
	return append(b, p...)
}

var stControlRe = regexp.MustCompile(`a=control:(streamid=\d+)`)

// errJoinLost: the session closed the connection while the consumer was setting it up, because an answer could
// not be queued
var errJoinLost = fmt.Errorf("the session dropped an answer and closed the connection during setup")

type rtspNullObserver struct{}

func (rtspNullObserver) OnNewRtspPubSession(session *rtsp.PubSession) error { return nil }
func (rtspNullObserver) OnNewRtspSubSessionDescribe(session *rtsp.SubSession) (ok bool, sdp []byte) {
	return false, nil
}
func (rtspNullObserver) OnNewRtspSubSessionPlay(session *rtsp.SubSession) error { return nil }

func init() { Registry["stall"] = stallDriver }

func stallDriver(env *Env) error {
	_ = nazalog.Init(func(o *nazalog.Option) { o.Level = nazalog.LevelLogNothing })
	tw, err := NewTraceWriter(env.Out)
	if err != nil {
		return err
	}
	defer tw.Close()
	oldF, oldT := httpflv.SubSessionWriteChanSize, httpts.SubSessionWriteChanSize
	defer func() { httpflv.SubSessionWriteChanSize, httpts.SubSessionWriteChanSize = oldF, oldT }()
	base.LogicCheckSessionAliveIntervalSec = 1
	nblocked := 0
	return ReadScenarios(env.In, func(raw json.RawMessage) error {
		var sc stScenario
		if err := json.Unmarshal(raw, &sc); err != nil {
			return err
		}
		var evs []M
		for attempt := 0; attempt < 3; attempt++ {
			var slow, blocked bool
			var err error
			if sc.Cfg.Tcp {
				evs, err = runTcpScenario(&sc, env.Seed)
				for _, e := range evs {
					if us, ok := e["callUs"].(int64); ok && sc.Cfg.BoundUs > 0 && us > sc.Cfg.BoundUs {
						slow = true
					}
				}
			} else {
				evs, slow, blocked, err = runStallScenario(&sc, env.Seed, nblocked >= 8)
			}
			if err != nil {
				return fmt.Errorf("scenario %d: %v", sc.Sc, err)
			}
			if blocked {
				nblocked++
			}
			if !slow {
				break
			}
			fmt.Fprintf(os.Stderr, "scenario %d attempt %d: latency above the bound, retrying\n", sc.Sc, attempt)
		}
		for _, e := range evs {
			tw.Emit(e)
		}
		return nil
	})
}

var stNames = []string{"h", "hb", "s1", "s2"} // healthy ones first: they show which writes form a unit together

var stManagers = map[int]*logic.ServerManager{}

const stConf = `{"conf_version":"v0.4.1","rtmp":{"enable":true,"gop_num":0,"merge_write_size":%d},
 "httpflv":{"enable":true,"gop_num":0},"httpts":{"enable":true,"gop_num":0},
 "rtsp":{"enable":true,"out_wait_key_frame_flag":true},
 "log":{"level":5,"filename":"","is_to_stdout":false,"assert_behavior":1}}`

func runStallScenario(sc *stScenario, seed int64, skipBlocked bool) (evs []M, slow bool, blockedSeen bool, err error) {
	proto := sc.Cfg.Proto
	ws := isWsProto(proto)
	isRtsp := proto == "rtsp" || proto == "wsrtsp"
	mw := 0
	if proto == "rtmpmw" {
		mw = 3000
	}
	streamA, streamB := fmt.Sprintf("b%d", sc.Sc), fmt.Sprintf("o%d", sc.Sc)
	// either a bare Group, or two streams under one ServerManager (no listeners are started)
	var g *logic.Group
	var sm *logic.ServerManager
	if sc.Cfg.Two {
		// one ServerManager per configuration for the whole run (every scenario has its own stream names; a
		// ServerManager leaves goroutines behind when disposed, which would slow every goroutine dump down)
		if sm = stManagers[mw]; sm == nil {
			sm = logic.NewServerManager(func(option *logic.Option) {
				option.ConfRawContent = []byte(fmt.Sprintf(stConf, mw))
			})
			stManagers[mw] = sm
		}
	} else {
		cfg := &logic.Config{}
		cfg.RtmpConfig.Enable = true
		cfg.RtmpConfig.MergeWriteSize = mw
		cfg.RtmpConfig.GopNum = sc.Cfg.Gop
		cfg.HttpflvConfig.GopNum = sc.Cfg.Gop
		cfg.HttptsConfig.GopNum = sc.Cfg.Gop
		cfg.HttpflvConfig.Enable = proto == "flv" || proto == "wsflv"
		cfg.HttptsConfig.Enable = proto == "ts" || proto == "wsts"
		cfg.RtspConfig.Enable = isRtsp
		cfg.RtspConfig.OutWaitKeyFrameFlag = true
		g = logic.NewGroup("live", streamA, cfg, logic.GroupOption{}, groupObserver{})
	}
	groupOf := func(stream string) *logic.Group {
		if sm != nil {
			return sm.GetGroup("live", stream)
		}
		return g
	}
	cons := map[string]*stCons{}
	sent := map[int]*stSent{}
	var pub, pubB *rtmp.ServerSession
	tick := uint32(0)
	nextId := 1
	nstep := 0
	emit := func(m M) { evs = append(evs, m) }
	emit(M{"ev": "reset", "sc": sc.Sc, "cfgId": sc.CfgId, "proto": proto, "ws": ws, "enq": isRtsp, "dl": !isRtsp,
		"two": sc.Cfg.Two, "n": sc.Cfg.N, "boundUs": sc.Cfg.BoundUs})

	delSub := func(c *stCons, stream string) {
		if c.done != nil {
			// a session that runs its own read loop: the consumer closes the connection, the loop ends and the
			// per-connection routine reports the departure
			c.conn.Close()
			select {
			case <-c.done:
			case <-time.After(10 * time.Second):
				if err == nil {
					err = fmt.Errorf("the read loop of %s did not end after its connection was closed", c.name)
				}
			}
			return
		}
		switch {
		case c.rs != nil:
			if sm != nil {
				sm.OnDelRtmpSubSession(c.rs)
			} else {
				g.DelRtmpSubSession(c.rs)
			}
			c.rs.Dispose()
		case c.fs != nil:
			if sm != nil {
				sm.OnDelHttpflvSubSession(c.fs)
			} else {
				g.DelHttpflvSubSession(c.fs)
			}
			c.fs.Dispose()
		case c.ts != nil:
			if sm != nil {
				sm.OnDelHttptsSubSession(c.ts)
			} else {
				g.DelHttptsSubSession(c.ts)
			}
			c.ts.Dispose()
		case c.rsub != nil:
			if sm != nil {
				sm.OnDelRtspSubSession(c.rsub)
			} else {
				g.DelRtspSubSession(c.rsub)
			}
			c.rsub.Dispose()
			c.rcmd.Dispose()
		}
	}
	defer func() {
		for n, c := range cons {
			c.conn.setOpen(true)
			st := streamA
			if n == "hb" {
				st = streamB
			}
			delSub(c, st)
		}
		for _, p := range []*rtmp.ServerSession{pub, pubB} {
			if p != nil {
				if sm != nil {
					sm.OnDelRtmpPubSession(p)
				} else {
					g.DelRtmpPubSession(p)
				}
				p.Dispose()
			}
		}
		if sm != nil {
			sm.VerifTick(1) // removes the groups of this scenario, now without sessions
		}
		if e := quiesce(); e != nil && err == nil {
			err = e
		}
	}()

	pieces := map[[20]byte]stPart{}
	one := func(b []byte) stPart {
		p := classifyU(proto, b)
		if p.K == "frag" {
			if pc, ok := pieces[sha1.Sum(b)]; ok {
				return pc
			}
		}
		return p
	}
	// snapshot: per consumer the part blocked in the gate, the parts written since the last snapshot, closed;
	// for the healthy consumers also how their writes group into queue elements
	snap := func(m M) {
		infl, wire, closed, el := M{}, M{}, M{}, M{}
		for _, n := range stNames {
			c := cons[n]
			fl, w, sizes := []stPart{}, []stPart{}, []int{}
			cl := false
			if c != nil {
				c.conn.mu.Lock()
				if n == "h" || n == "hb" {
					w = groupPieces(proto, c.conn.wire[c.conn.nseen:], pieces)
					last := -1
					for _, e := range c.conn.wireEl[c.conn.nseen:] {
						if e != last {
							sizes = append(sizes, 0)
							last = e
						}
						sizes[len(sizes)-1]++
					}
				} else {
					// (a connection that has been closed releases the write parked in its gate; whether that goroutine
					//  has already returned when the snapshot is taken is a race of the driver, not an observation)
					if c.conn.waiting != nil && !c.conn.closed {
						fl = append(fl, one(c.conn.waiting.b))
					}
					for _, b := range c.conn.wire[c.conn.nseen:] {
						w = append(w, one(b))
					}
				}
				c.conn.nseen = len(c.conn.wire)
				cl = c.conn.closed
				c.conn.mu.Unlock()
			}
			infl[n], wire[n], closed[n] = fl, w, cl
			if n == "h" || n == "hb" {
				el[n] = sizes
			}
		}
		m["infl"], m["wire"], m["closed"], m["el"] = infl, wire, closed, el
		if _, ok := m["primed"]; !ok {
			m["primed"] = M{"s1": []stPart{}, "s2": []stPart{}}
		}
		emit(m)
	}
	// prime keeps the writer goroutine of every stalled consumer that is idle busy with a null unit, so that the
	// burst of the next call meets a writer blocked in the socket (deterministic) instead of one that is just
	// waking up (a race between two goroutines).  Some steps are left unprimed on purpose.
	prime := func(only string) (M, error) {
		pr := M{"s1": []stPart{}, "s2": []stPart{}}
		nstep++
		if sc.Cfg.Gop == 0 && (sc.Sc+nstep)%4 == 0 { // with a GOP cache every call meets primed writers (bursts are long)
			return pr, nil
		}
		did := map[string]bool{}
		for _, n := range []string{"s1", "s2"} {
			c := cons[n]
			if c == nil || (only != "" && only != n) {
				continue
			}
			c.conn.mu.Lock()
			idle := !c.conn.open && !c.conn.closed && c.conn.waiting == nil
			c.conn.mu.Unlock()
			if idle {
				c.null()
				did[n] = true
			}
		}
		if len(did) == 0 {
			return pr, nil
		}
		if e := quiesce(); e != nil {
			return pr, e
		}
		for _, n := range []string{"s1", "s2"} {
			if c := cons[n]; c != nil && did[n] {
				c.conn.mu.Lock()
				if w := c.conn.waiting; w != nil && !c.conn.open {
					if p := one(w.b); p.Id == 0 && len(w.b) <= 8 {
						pr[n] = []stPart{p}
					}
				}
				c.conn.mu.Unlock()
			}
		}
		return pr, nil
	}
	// watched runs one call into lal on its own goroutine and waits until it has returned and the write
	// loops are quiescent, or until the call is parked for good: its goroutine waits on a channel or a
	// lock while every write loop is parked as well, so nothing in the process can wake it (no timer).
	// latUs: when the healthy consumer hn had the last byte this call handed to it.
	watched := func(hn string, fn func()) (blocked bool, callUs, latUs int64, e error) {
		done := make(chan struct{})
		t0 := time.Now()
		var t1 time.Time
		go func() {
			watchedCall(fn)
			t1 = time.Now()
			close(done)
		}()
		for k := 0; ; k++ {
			select {
			case <-done:
			default:
				if k > 20 {
					st := goroutineStates()
					if st.pubSeen && st.pubBlocked && st.writersQuiet {
						// confirm: still parked on a second look
						time.Sleep(200 * time.Microsecond)
						st2 := goroutineStates()
						select {
						case <-done:
						default:
							if st2.pubSeen && st2.pubBlocked && st2.writersQuiet {
								blocked = true
							}
						}
					}
				}
				if !blocked {
					if k < 20 {
						runtime.Gosched()
					} else {
						time.Sleep(20 * time.Microsecond)
					}
					continue
				}
			}
			break
		}
		if blocked {
			for _, c := range cons {
				c.conn.setOpen(true)
			}
			select {
			case <-done:
			case <-time.After(20 * time.Second):
				return true, 0, 0, fmt.Errorf("call stayed blocked after all gates were opened")
			}
			return true, time.Since(t0).Microseconds(), 0, nil
		}
		if e = quiesce(); e != nil {
			return
		}
		callUs = t1.Sub(t0).Microseconds()
		if h := cons[hn]; h != nil {
			h.conn.mu.Lock()
			if len(h.conn.wire) > h.conn.nseen {
				latUs = h.conn.last.Sub(t0).Microseconds()
			}
			h.conn.mu.Unlock()
		}
		return
	}
	build := func(t string, sz int) base.RtmpMsg {
		id := nextId
		nextId++
		m := &AMsg{Id: id, T: t, Hv: 1, Ha: 2}
		if (proto == "ts" || proto == "wsts") && t == "aud" {
			m.T = "inter"
		}
		n := 700 + (id*37+int(seed)*11+sc.Sc*5)%300
		if id%4 == 0 {
			n = 4000 + (id*13+int(seed)*7+sc.Sc*3)%3000 // several RTMP chunks
		}
		if sz > 0 {
			n = sz + (id*3)%50 // units well above any piece size a session might cut its writes into
		}
		if isRtsp && m.T == "aud" && n > 1200 {
			n = 700 + id%300 // an AAC frame travels in one RTP packet
		}
		msg := BuildMsg(m, n, uint32(40*id))
		s := &stSent{msg: msg.Clone(), woSdf: msg.Payload, body: n}
		if m.T == "meta" && id%2 == 1 {
			s.woSdf = msg.Payload[16:]
		}
		sent[id] = s
		return msg
	}
	publish := func(stream, hn, t string, sz int) (blocked bool, callUs, latUs int64, e error) {
		msg := build(t, sz)
		return watched(hn, func() {
			if gg := groupOf(stream); gg != nil {
				gg.OnReadRtmpAvMsg(msg)
			}
		})
	}
	addPub := func(stream string) (*rtmp.ServerSession, func()) {
		p := rtmp.NewServerSession(nullObserver{}, NewMemConn("pub"))
		return p, func() {
			if sm != nil {
				p.VerifSetIdentity("live", stream, "", true)
			}
		}
	}
	wire := &stWire{g: g, sm: sm, joined: make(chan error, 4)}
	rtmpSrv := rtmp.NewServer("", wire)
	// settle waits until the read loops of the given consumers have taken everything that was sent to them and
	// wait for more (or have ended), and the write loops are quiescent; blocked = a read loop is parked for good
	// while it answers (same criterion as for a watched call)
	settle := func(cs ...*stCons) (blocked bool, e error) {
		dead := time.Now().Add(20 * time.Second)
		for k := 0; ; k++ {
			idle := true
			for _, c := range cs {
				if !c.conn.readerIdle() {
					idle = false
				}
			}
			if idle {
				return false, quiesce()
			}
			if k > 40 && k%10 == 0 {
				if st := goroutineStates(); st.rdBlocked && st.writersQuiet {
					time.Sleep(200 * time.Microsecond)
					if st2 := goroutineStates(); st2.rdBlocked && st2.writersQuiet {
						return true, nil
					}
				}
			}
			if time.Now().After(dead) {
				return false, fmt.Errorf("a session read loop neither finished a request nor parked")
			}
			if k < 20 {
				runtime.Gosched()
			} else {
				time.Sleep(20 * time.Microsecond)
			}
		}
	}
	waitJoined := func() error {
		select {
		case e := <-wire.joined:
			return e
		case <-time.After(10 * time.Second):
			return fmt.Errorf("the session never reached play")
		}
	}
	rtspReq := func(text string) []byte {
		if ws {
			return stWsClientFrame([]byte(text))
		}
		return []byte(text)
	}
	join := func(n, stream string, size int) error {
		c := &stCons{name: n, conn: newGateConn(n)}
		wire.cur = c
		switch proto {
		case "rtmp", "rtmpmw":
			// the server's per-connection routine on the gated connection: handshake, connect, createStream and
			// play are sent by the independent client-side encoder, the session's own read loop answers them
			cons[n] = c
			c.done = make(chan struct{})
			go func() { rtmpSrv.VerifHandleTcpConnect(c.conn); close(c.done) }()
			c.enc = proj.NewRsEnc(seed)
			old := rtmp.VerifSetWChanSize(size)
			for _, m := range []proj.RsMsg{{M: "c0c1", A: "simple"}, {M: "c2"}, {M: "cmd", A: "connect", S: "ok"},
				{M: "cmd", A: "createStream", S: "ok"}, {M: "cmd", A: "play", S: "ok"}} {
				b, _ := c.enc.Bytes(m, stream)
				c.conn.Feed(b)
				if _, e := settle(c); e != nil {
					rtmp.VerifSetWChanSize(old)
					return e
				}
			}
			e := waitJoined()
			rtmp.VerifSetWChanSize(old)
			if e != nil {
				return e
			}
		case "flv", "wsflv":
			u, _ := base.ParseUrl("http://h/live/"+stream+".flv", 80)
			httpflv.SubSessionWriteChanSize = size
			c.fs = httpflv.NewSubSession(c.conn, u, ws, "dGhlIHNhbXBsZSBub25jZQ==")
			if sm != nil {
				_ = sm.OnNewHttpflvSubSession(c.fs)
			} else {
				g.AddHttpflvSubSession(c.fs)
			}
		case "ts", "wsts":
			u, _ := base.ParseUrl("http://h/live/"+stream+".ts", 80)
			httpts.SubSessionWriteChanSize = size
			c.ts = httpts.NewSubSession(c.conn, u, ws, "dGhlIHNhbXBsZSBub25jZQ==")
			if sm != nil {
				_ = sm.OnNewHttptsSubSession(c.ts)
			} else {
				g.AddHttptsSubSession(c.ts)
			}
		case "rtsp", "wsrtsp":
			// the command loop of a real ServerCommandSession on the gated connection: DESCRIBE, SETUP (interleaved:
			// RTP/AVP/TCP) per track and PLAY are sent by the consumer, the session answers them on the same connection
			old, ok := stSetRtspWChan(size)
			if !ok {
				return fmt.Errorf("rtsp hook VerifSetServerCommandSessionWriteChanSize is not in this tree")
			}
			c.rcmd = rtsp.NewServerCommandSession(wire, c.conn, rtsp.ServerAuthConfig{}, ws, "dGhlIHNhbXBsZSBub25jZQ==")
			stSetRtspWChan(old)
			cons[n] = c
			c.done = make(chan struct{})
			go func() {
				_ = c.rcmd.RunLoop()
				if c.rsub != nil { // as rtsp.Server does when the command loop has ended
					if sm != nil {
						sm.OnDelRtspSubSession(c.rsub)
					} else {
						g.DelRtspSubSession(c.rsub)
					}
					_ = c.rsub.Dispose()
				}
				close(c.done)
			}()
			uri := "rtsp://h/live/" + stream
			c.ncmd = 1
			c.conn.Feed(rtspReq(fmt.Sprintf("DESCRIBE %s RTSP/1.0\r\nCSeq: %d\r\nAccept: application/sdp\r\n\r\n", uri, c.ncmd)))
			if _, e := settle(c); e != nil {
				return e
			}
			c.conn.mu.Lock()
			got := bytes.Join(c.conn.wire, nil)
			c.conn.mu.Unlock()
			ctrls := stControlRe.FindAllSubmatch(got, -1)
			if len(ctrls) == 0 {
				if c.conn.isClosed() {
					return errJoinLost
				}
				return fmt.Errorf("no sdp in the answer to DESCRIBE")
			}
			for i, m := range ctrls {
				c.ncmd++
				c.conn.Feed(rtspReq(fmt.Sprintf("SETUP %s/%s RTSP/1.0\r\nCSeq: %d\r\nTransport: RTP/AVP/TCP;unicast;interleaved=%d-%d\r\n\r\n",
					uri, m[1], c.ncmd, 2*i, 2*i+1)))
				if _, e := settle(c); e != nil {
					return e
				}
			}
			c.ncmd++
			c.conn.Feed(rtspReq(fmt.Sprintf("PLAY %s RTSP/1.0\r\nCSeq: %d\r\nRange: npt=0.000-\r\n\r\n", uri, c.ncmd)))
			if _, e := settle(c); e != nil {
				return e
			}
			if c.conn.isClosed() {
				return errJoinLost
			}
			if e := waitJoined(); e != nil {
				return e
			}
		default:
			return fmt.Errorf("unknown protocol %q", proto)
		}
		cons[n] = c
		return nil
	}
	// one call into lal that is not a publish: blocked / duration are observations of the event
	call := func(ev M, fn func()) (stop bool) {
		pr, e := prime("")
		if e != nil {
			err = e
			return true
		}
		blocked, callUs, _, e := watched("h", fn)
		if e != nil {
			err = e
			return true
		}
		ev["blocked"], ev["callUs"], ev["primed"] = blocked, callUs, pr
		snap(ev)
		if blocked {
			blockedSeen = true
		}
		return blocked
	}

	for _, st := range sc.Steps {
		switch st.Name {
		case "PubArrive":
			p, ident := addPub(streamA)
			ident()
			pub = p
			ok := false
			ev := M{"ev": "PubArrive"}
			stop := call(ev, func() {
				if sm != nil {
					ok = sm.OnNewRtmpPubSession(p) == nil
				} else {
					ok = g.AddRtmpPubSession(p) == nil
				}
			})
			ev["ok"] = ok
			if stop {
				return
			}
		case "PubLeave":
			if pub == nil {
				continue
			}
			p0 := pub
			pub = nil
			stop := call(M{"ev": "PubLeave"}, func() {
				if sm != nil {
					sm.OnDelRtmpPubSession(p0)
				} else {
					g.DelRtmpPubSession(p0)
				}
			})
			p0.Dispose()
			if stop {
				return
			}
		case "Join":
			for _, n := range []string{"s1", "s2", "h"} {
				size := sc.Cfg.N
				if n == "h" {
					size = 1024
				}
				if err = join(n, streamA, size); err != nil {
					if err == errJoinLost {
						// an answer of the session to its own consumer could not be queued during setup and the
						// session hung up: an observation, not a failure of the driver
						err = quiesce()
						snap(M{"ev": "Join", "lost": n})
					}
					return
				}
			}
			if sm != nil {
				// the other stream: its own publisher (sequence headers sent) and one healthy consumer
				p, ident := addPub(streamB)
				ident()
				if sm.OnNewRtmpPubSession(p) != nil {
					err = fmt.Errorf("publisher of the other stream refused")
					return
				}
				pubB = p
				for _, t := range []string{"vsh", "ash"} {
					msg := build(t, 0)
					if gg := groupOf(streamB); gg != nil {
						gg.OnReadRtmpAvMsg(msg)
					}
				}
				if err = join("hb", streamB, 1024); err != nil {
					return
				}
			}
			if err = quiesce(); err != nil {
				return
			}
			snap(M{"ev": "Join", "lost": ""})
		case "RR":
			// the consumer sends an RTCP receiver report on the RTCP channel of its first track ('$'-framed on the
			// command connection); the session has nothing to answer
			c := cons[st.C]
			if c == nil || c.done == nil || c.rcmd == nil || ws || c.conn.isClosed() {
				continue
			}
			rr := []byte{0x80, 201, 0, 1, 0x12, 0x34, 0x56, byte(sc.Sc)}
			c.conn.Feed(append([]byte{'$', 1, 0, byte(len(rr))}, rr...))
			blocked, e := settle(c)
			if e != nil {
				err = e
				return
			}
			snap(M{"ev": "RR", "c": st.C, "blocked": blocked})
			if blocked {
				blockedSeen = true
				return
			}
		case "Cmd":
			// the consumer sends a request while data is queued for it; the healthy consumer sends the same request
			// and shows what the answer looks like when nothing is queued
			c, h := cons[st.C], cons["h"]
			if c == nil || h == nil || c.done == nil || c.conn.isClosed() || h.conn.isClosed() {
				continue
			}
			var req func(x *stCons) []byte
			switch {
			case st.K == "ping" && c.enc != nil:
				req = func(x *stCons) []byte {
					b, _ := x.enc.Split(2, 4, 0, 0, []byte{0, 6, byte(st.V >> 24), byte(st.V >> 16), byte(st.V >> 8), byte(st.V)})
					return b
				}
			case st.K == "cs" && c.enc != nil:
				req = func(x *stCons) []byte {
					p := append(append(stAmfStr("createStream"), stAmfNum(float64(st.V))...), 5)
					b, _ := x.enc.Split(3, 20, 0, 0, p)
					return b
				}
			case st.K == "opt" && c.rcmd != nil:
				req = func(x *stCons) []byte {
					return rtspReq(fmt.Sprintf("OPTIONS rtsp://h/live/%s RTSP/1.0\r\nCSeq: %d\r\n\r\n", streamA, st.V))
				}
			default:
				continue
			}
			h.conn.Feed(req(h))
			if _, e := settle(h); e != nil {
				err = e
				return
			}
			c.conn.Feed(req(c))
			blocked, e := settle(c)
			if e != nil {
				err = e
				return
			}
			if blocked {
				for _, x := range cons {
					x.conn.setOpen(true)
				}
				if _, e := settle(c); e != nil {
					err = e
					return
				}
				blockedSeen = true
			}
			snap(M{"ev": "Cmd", "c": st.C, "req": M{"k": st.K, "v": st.V}, "blocked": blocked})
			if blocked {
				return
			}
		case "Publish", "PublishB":
			t := st.T
			if t == "" {
				t = "key"
			}
			stream, hn := streamA, "h"
			if st.Name == "PublishB" {
				if sm == nil {
					continue
				}
				stream, hn = streamB, "hb"
			}
			pr, e := prime("")
			if e != nil {
				err = e
				return
			}
			blocked, callUs, latUs, e := publish(stream, hn, t, st.N)
			if e != nil {
				err = e
				return
			}
			if blocked {
				blockedSeen = true
			} else if sc.Cfg.BoundUs > 0 && (callUs > sc.Cfg.BoundUs || latUs > sc.Cfg.BoundUs) {
				slow = true
			}
			snap(M{"ev": st.Name, "id": nextId - 1, "blocked": blocked, "callUs": callUs, "latUs": latUs, "primed": pr})
			if blocked {
				return
			}
		case "Stat":
			if sm == nil {
				continue
			}
			if call(M{"ev": "Stat"}, func() { _ = sm.StatAllGroup() }) {
				return
			}
		case "Stall":
			pr := M{"s1": []stPart{}, "s2": []stPart{}}
			if c := cons[st.C]; c != nil {
				c.conn.setOpen(false)
				if pr, err = prime(st.C); err != nil {
					return
				}
			}
			snap(M{"ev": "Stall", "c": st.C, "primed": pr})
		case "Resume":
			if c := cons[st.C]; c != nil {
				c.conn.setOpen(true)
			}
			if err = quiesce(); err != nil {
				return
			}
			snap(M{"ev": "Resume", "c": st.C})
		case "Read":
			rel := false
			if c := cons[st.C]; c != nil {
				rel = c.conn.releaseOne(nil)
			}
			if err = quiesce(); err != nil {
				return
			}
			snap(M{"ev": "Read", "c": st.C, "released": rel})
		case "Fire":
			armed, had := false, false
			if c := cons[st.C]; c != nil {
				c.conn.mu.Lock()
				w := c.conn.waiting
				c.conn.mu.Unlock()
				if w != nil {
					had, armed = true, w.armed
					if armed {
						c.conn.releaseOne(timeoutErr{})
						select {
						case <-c.conn.closedCh:
						case <-time.After(10 * time.Second):
						}
					}
				}
			}
			if err = quiesce(); err != nil {
				return
			}
			snap(M{"ev": "Fire", "c": st.C, "had": had, "armed": armed})
		case "Sweep":
			tick++
			tk := tick
			ev := M{"ev": "Sweep"}
			blocked, callUs, _, e := watched("h", func() {
				if sm != nil {
					sm.VerifTick(tk)
				} else {
					g.Tick(tk)
				}
			})
			if e != nil {
				err = e
				return
			}
			ev["blocked"], ev["callUs"] = blocked, callUs
			snap(ev)
			if blocked {
				blockedSeen = true
				return
			}
		}
	}
	// drain: every consumer that is still connected reads everything that is queued for it
	for _, c := range cons {
		c.conn.setOpen(true)
	}
	if err = quiesce(); err != nil {
		return
	}
	ids, left, bad := M{}, M{}, M{}
	for _, n := range stNames {
		i, l, b := []int{}, 0, []string{}
		if c := cons[n]; c != nil {
			c.conn.mu.Lock()
			all := bytes.Join(c.conn.wire, nil)
			c.conn.mu.Unlock()
			i, l, b = projectStream(proto, all, sent)
		}
		ids[n], left[n], bad[n] = i, l, b
	}
	snap(M{"ev": "Drain", "ids": ids, "left": left, "bad": bad})
	return
}

package drv

import (
	"bytes"
	"encoding/json"
	"fmt"
	"io"
	"net"
	"net/http"
	"os"
	"path/filepath"
	"runtime"
	"sort"
	"strings"
	"sync"
	"sync/atomic"
	"time"

	"github.com/q191201771/lal/pkg/base"
	"github.com/q191201771/lal/pkg/httpflv"
	"github.com/q191201771/lal/pkg/httpts"
	"github.com/q191201771/lal/pkg/logic"
	"github.com/q191201771/lal/pkg/rtmp"
	"github.com/q191201771/lal/pkg/rtsp"
	"lalverif/proj"
)

// Driver "lifecycle" (C03, C16, C17): a real logic.ServerManager (no listeners) driven through the
// observer callbacks and API methods the network layers call; notifications are recorded by an
// INotifyHandler, the per-input pipeline by a stream hook, relay-pull attempts by a gated origin.

type lcCfg struct {
	RtmpPubs    []string `json:"rtmpPubs"`
	RtspPubs    []string `json:"rtspPubs"`
	CustPubs    []string `json:"custPubs"`
	PsPubs      []string `json:"psPubs"`
	RtmpSubs    []string `json:"rtmpSubs"`
	FlvSubs     []string `json:"flvSubs"`
	PullRetry   int      `json:"pullRetry"`
	PullAutoMs  int      `json:"pullAutoMs"`
	Hook        bool     `json:"hook"`
	Outputs     bool     `json:"outputs"` // HLS, HTTP-TS, FLV and TS recording enabled (C16)
	Leak        int      `json:"leak"`
	PushTargets []string `json:"pushTargets"` // relay push targets (one gated stub RTMP server each)
	ParamLen    int      `json:"paramLen"`    // length of the URL parameters of RTMP publishers
	TsSubs      []string `json:"tsSubs"`      // HTTP-TS subscribers
	RtspWire    bool     `json:"rtspWire"`    // RTSP publishers are set up completely (SETUP interleaved, RECORD)
	HttpNotify  bool     `json:"httpNotify"`  // notifications through lal's own HttpNotify worker to a stub web hook
	WirePubs    []string `json:"wirePubs"`    // RTMP publishers on real loopback connections served by the server's own routine
	HlsSubs     []string `json:"hlsSubs"`     // HLS subscribers (sessions keyed by session_id, see lifecycle_hls.go)
	HlsSettle   bool     `json:"hlsSettle"`   // HlsBlacklist waits for a sweep of the HLS handler before it reports
	Players     []string `json:"players"`     // RTSP players that stay (at most one): which description does the stream hand out
	PullRtsp    bool     `json:"pullRtsp"`    // the relay pull goes to an rtsp:// origin (over TCP), see lifecycle_rtsporigin.go
}

type lcStep struct {
	Name string `json:"name"`
	X    string `json:"x"`
	// hints from the model (only used to decide how long to wait for asynchronous effects; the
	// verdict is TLC's, on what was observed)
	ExpAttempts int    `json:"expAttempts"`
	ExpNotif    int    `json:"expNotif"`
	ExpHook     int    `json:"expHook"`
	How         string `json:"how"` // Misuse: announce | describe
	K           int    `json:"k"`   // Describe: number of DESCRIBE requests the player sends
}

type lcScenario struct {
	Sc    int      `json:"sc"`
	Cfg   lcCfg    `json:"cfg"`
	CfgId string   `json:"cfgId"`
	Steps []lcStep `json:"steps"`
}

// ---- notification recorder
type lcNotify struct {
	mu     sync.Mutex
	evs    []M
	marker chan string
	name   func(id string) string
}

func (n *lcNotify) add(ev, id string) {
	n.mu.Lock()
	n.evs = append(n.evs, M{"ev": ev, "id": n.name(id)})
	n.mu.Unlock()
}
func (n *lcNotify) OnServerStart(info base.LalInfo)          {}
func (n *lcNotify) OnUpdate(info base.UpdateInfo)            {}
func (n *lcNotify) OnPubStart(info base.PubStartInfo)        { n.add("pub_start", info.SessionId) }
func (n *lcNotify) OnPubStop(info base.PubStopInfo)          { n.add("pub_stop", info.SessionId) }
func (n *lcNotify) OnSubStart(info base.SubStartInfo)        { n.add("sub_start", info.SessionId) }
func (n *lcNotify) OnSubStop(info base.SubStopInfo)          { n.add("sub_stop", info.SessionId) }
func (n *lcNotify) OnRelayPullStart(info base.PullStartInfo) { n.add("pull_start", info.SessionId) }
func (n *lcNotify) OnRelayPullStop(info base.PullStopInfo)   { n.add("pull_stop", info.SessionId) }
func (n *lcNotify) OnRtmpConnect(info base.RtmpConnectInfo)  {}
func (n *lcNotify) OnHlsMakeTs(info base.HlsMakeTsInfo) {
	// used as a FIFO barrier: the single notify worker delivers it after everything queued before
	if strings.HasPrefix(info.Event, "verif-marker") {
		n.marker <- info.Event
	}
}

// ---- stream hook recorder (one context per input epoch)
type lcHook struct {
	key  string // lal unique key of the input the hook context was created for
	name func(string) string
	rec  *lcHookRec
}
type lcHookRec struct {
	mu  sync.Mutex
	evs []M
}

func (r *lcHookRec) add(ev, id string) {
	r.mu.Lock()
	r.evs = append(r.evs, M{"ev": ev, "id": id})
	r.mu.Unlock()
}
func (r *lcHookRec) count() int {
	r.mu.Lock()
	defer r.mu.Unlock()
	return len(r.evs)
}
func (h *lcHook) OnMsg(msg base.RtmpMsg) { h.rec.add("hook_msg", "?"+h.key) }
func (h *lcHook) OnStop()                { h.rec.add("hook_stop", "?"+h.key) }

type lcSession struct {
	kind   string
	key    string // lal unique key
	conn   *MemConn
	rtmp   *rtmp.ServerSession
	rpub   *rtsp.PubSession
	cmd    *rtsp.ServerCommandSession
	cust   logic.ICustomizePubSessionContext
	flv    *httpflv.SubSession
	ts     *httpts.SubSession
	psPort int
	done   chan struct{}
	push   *rtmp.PushSession   // wire publisher: the client end
	wsess  *rtmp.ServerSession // wire publisher: the session the server's routine created
	cseq   int                 // rtsp publisher: last CSeq used on the command connection
	sent   uint64              // wire publisher: bytes written by the client after the publish
	keep   *[]byte             // rtsp: everything the peer has written so far (when set)
	wbase  uint64              // wire publisher: bytes the server session had read when the publish was accepted
	psConn net.Conn            // GB28181 input in TCP mode: the device's connection to the port lal listens on
	psGone bool                // GB28181 input: the session has ended (kick)
	psSeq  proj.SfPstSeq       // GB28181 input: numbers the RTP packets of the device
}

type nullRtspObserver struct{}

func (nullRtspObserver) OnNewRtspSessionConnect(session *rtsp.ServerCommandSession) {}
func (nullRtspObserver) OnDelRtspSession(session *rtsp.ServerCommandSession)        {}
func (nullRtspObserver) OnNewRtspPubSession(session *rtsp.PubSession) error         { return nil }
func (nullRtspObserver) OnNewRtspSubSessionDescribe(session *rtsp.SubSession) (ok bool, sdp []byte) {
	return true, nil
}
func (nullRtspObserver) OnNewRtspSubSessionPlay(session *rtsp.SubSession) error { return nil }
func (nullRtspObserver) OnDelRtspPubSession(session *rtsp.PubSession)           {}
func (nullRtspObserver) OnDelRtspSubSession(session *rtsp.SubSession)           {}

func init() { Registry["lifecycle"] = lifecycleDriver }

var lcLogOnce sync.Once

func lifecycleDriver(env *Env) error {
	httpflv.SubSessionWriteChanSize = 0
	httpts.SubSessionWriteChanSize = 0
	tw, err := NewTraceWriter(env.Out)
	if err != nil {
		return err
	}
	defer tw.Close()
	var scs []*lcScenario
	if err := ReadScenarios(env.In, func(raw json.RawMessage) error {
		var sc lcScenario
		if err := json.Unmarshal(raw, &sc); err != nil {
			return err
		}
		scs = append(scs, &sc)
		return nil
	}); err != nil {
		return err
	}
	// scenarios are independent (own ServerManager, own origin): run them concurrently so that the
	// real-time waits of the auto-stop scenarios overlap, and write the traces in scenario order
	if env.Child != "" {
		// child: write every event as soon as it exists (the process may die)
		for _, sc := range scs {
			runLifecycleScenario(sc, func(m M) { tw.Emit(m); tw.Flush() })
		}
		return nil
	}
	out := make([][]M, len(scs))
	var wg sync.WaitGroup
	var slowChildren, skippedChildren int32
	sem := make(chan struct{}, 12)
	semHls := make(chan struct{}, 32) // scenarios with HLS subscribers spend their time waiting for the handler's sweep
	// launch order: the scenarios that mostly sleep first (HLS subscribers wait for the handler's sweep, auto-stop
	// windows are real time), so that their waits overlap with the work of the others; HLS scenarios have a launcher
	// and a semaphore of their own
	var hlsIdx, slowIdx, restIdx []int
	for i := range scs {
		switch {
		case scs[i].Cfg.Leak > 0: // resource counts need a quiet process: run after the others
		case len(scs[i].Cfg.HlsSubs) > 0:
			hlsIdx = append(hlsIdx, i)
		case scs[i].Cfg.PullAutoMs > 0:
			slowIdx = append(slowIdx, i)
		default:
			restIdx = append(restIdx, i)
		}
	}
	launch := func(idx []int, sm chan struct{}) {
		for _, i := range idx {
			sm <- struct{}{}
			go func(i int) {
				defer wg.Done()
				defer func() { <-sm }()
				var evs []M
				if len(scs[i].Cfg.PushTargets) > 0 && env.Child == "" {
					// relay push runs in goroutines lal owns: a panic there kills the process, so such a
					// scenario runs in a child and its death becomes an observation.
					// On a tree where these scenarios leave the model's path every wait of the child runs into its
					// bound: after a number of children that died or took longer than a healthy one ever does, the
					// remaining ones are not started (their absence is reported, what was observed is judged)
					if atomic.LoadInt32(&slowChildren) >= 8 {
						atomic.AddInt32(&skippedChildren, 1)
						return
					}
					t0 := time.Now()
					evs = lcRunInChild(scs[i], env.Seed)
					if d := time.Since(t0); d > 25*time.Second || (len(evs) > 0 && evs[len(evs)-1]["ev"] == "Died") {
						atomic.AddInt32(&slowChildren, 1)
					}
				} else {
					runLifecycleScenario(scs[i], func(m M) { evs = append(evs, m) })
				}
				out[i] = evs
			}(i)
		}
	}
	wg.Add(len(hlsIdx) + len(slowIdx) + len(restIdx))
	go launch(hlsIdx, semHls)
	launch(append(slowIdx, restIdx...), sem)
	wg.Wait()
	if n := atomic.LoadInt32(&skippedChildren); n > 0 {
		// a line of its own in the trace: the check names it and does not count the run as complete
		out[0] = append([]M{{"ev": "skipped", "n": int(n)}}, out[0]...)
	}
	for i := range scs {
		if scs[i].Cfg.Leak > 0 {
			time.Sleep(200 * time.Millisecond)
			var evs []M
			runLifecycleScenario(scs[i], func(m M) { evs = append(evs, m) })
			out[i] = evs
		}
	}
	for _, evs := range out {
		for _, e := range evs {
			tw.Emit(e)
		}
	}
	return nil
}

// lcOrigin is the gated stub origin of relay pulls: it accepts TCP connections and parks them until
// the scenario decides what the origin does with the attempt.
type lcOrigin struct {
	ln       net.Listener
	mu       sync.Mutex
	attempts int
	parked   []net.Conn
	serving  net.Conn
	done     chan struct{} // closed when the connection being served has ended
	played   chan struct{} // RTSP origin: closed when the PLAY of the connection being served has been answered
}

func newLcOrigin() *lcOrigin {
	var ln net.Listener
	var err error
	for try := 0; try < 100; try++ { // (tens of thousands of scenarios: the machine can be out of ports for a moment)
		if ln, err = net.Listen("tcp", "127.0.0.1:0"); err == nil {
			break
		}
		time.Sleep(100 * time.Millisecond)
	}
	if err != nil {
		return nil
	}
	o := &lcOrigin{ln: ln}
	go func() {
		for {
			c, err := ln.Accept()
			if err != nil {
				return
			}
			o.mu.Lock()
			o.attempts++
			o.parked = append(o.parked, c)
			o.mu.Unlock()
		}
	}()
	return o
}

func (o *lcOrigin) count() int {
	o.mu.Lock()
	defer o.mu.Unlock()
	return o.attempts
}

func (o *lcOrigin) take() net.Conn {
	waitFor(3*time.Second, func() bool { o.mu.Lock(); defer o.mu.Unlock(); return len(o.parked) > 0 })
	o.mu.Lock()
	defer o.mu.Unlock()
	if len(o.parked) == 0 {
		return nil
	}
	c := o.parked[0]
	o.parked = o.parked[1:]
	return c
}

func (o *lcOrigin) close() {
	o.ln.Close()
	o.mu.Lock()
	for _, c := range o.parked {
		c.Close()
	}
	if o.serving != nil {
		o.serving.Close()
	}
	o.mu.Unlock()
}

func kindOf(cfg *lcCfg, x string) string {
	for k, l := range map[string][]string{"rtmpPub": cfg.RtmpPubs, "rtspPub": cfg.RtspPubs, "custPub": cfg.CustPubs,
		"psPub": cfg.PsPubs, "rtmpSub": cfg.RtmpSubs, "flvSub": cfg.FlvSubs, "wirePub": cfg.WirePubs, "tsSub": cfg.TsSubs, "hlsSub": cfg.HlsSubs} {
		for _, y := range l {
			if y == x {
				return k
			}
		}
	}
	return ""
}

// waitFor polls cond for up to d; the observation is whatever holds afterwards (a condition that
// never becomes true is an observation for the specification to reject, not a driver failure).
func waitFor(d time.Duration, cond func() bool) bool {
	dl := time.Now().Add(d)
	for {
		if cond() {
			return true
		}
		if time.Now().After(dl) {
			return false
		}
		time.Sleep(2 * time.Millisecond)
	}
}

func runLifecycleScenario(sc *lcScenario, emitEv func(M)) {
	stream := fmt.Sprintf("lc%d", sc.Sc)
	conf := `{"conf_version":"v0.4.1","rtmp":{"enable":false,"gop_num":0},"httpflv":{"enable":false,"gop_num":0},
	 "log":{"level":5,"filename":"","is_to_stdout":false,"assert_behavior":1}}`
	outDir := ""
	if sc.Cfg.Outputs {
		outDir, _ = os.MkdirTemp("", "lalverif-lc")
		defer os.RemoveAll(outDir)
		conf = fmt.Sprintf(`{"conf_version":"v0.4.1","rtmp":{"enable":false,"gop_num":0},"httpflv":{"enable":false,"gop_num":0},
		 "httpts":{"enable":true,"gop_num":0},
		 "hls":{"enable":true,"out_path":"%s/hls/","fragment_duration_ms":3000,"fragment_num":6,"delete_threshold":6,"cleanup_mode":0},
		 "record":{"enable_flv":true,"flv_out_path":"%s/flv/","enable_mpegts":true,"mpegts_out_path":"%s/ts/"},
		 "log":{"level":5,"filename":"","is_to_stdout":false,"assert_behavior":1}}`, outDir, outDir, outDir)
	}
	if len(sc.Cfg.HlsSubs) > 0 && !sc.Cfg.Outputs {
		outDir, _ = os.MkdirTemp("", "lalverif-lc")
		defer os.RemoveAll(outDir)
		conf = strings.Replace(conf, `{"conf_version":"v0.4.1",`, `{"conf_version":"v0.4.1",`+lcHlsConf(outDir), 1)
		lcHlsPlant(outDir, stream)
	}
	// relay push targets: gated listeners like the pull origin
	targets := map[string]*lcOrigin{}
	if len(sc.Cfg.PushTargets) > 0 {
		addrs := []string{}
		for _, t := range sc.Cfg.PushTargets {
			o := newLcOrigin()
			defer o.close()
			targets[t] = o
			addrs = append(addrs, `"`+o.ln.Addr().String()+`"`)
		}
		conf = strings.Replace(conf, `{"conf_version":"v0.4.1",`,
			`{"conf_version":"v0.4.1","relay_push":{"enable":true,"addr_list":[`+strings.Join(addrs, ",")+`]},`, 1)
	}
	targetOf := func(addr string) string {
		for t, o := range targets {
			if o.ln.Addr().String() == addr {
				return t
			}
		}
		return ""
	}
	_ = targetOf
	// every RTMP publisher has URL parameters of its own: length ParamLen + 7 * (len(id) - 2), as in the model
	rawQueryOf := func(x string) string {
		if sc.Cfg.ParamLen <= 0 {
			return ""
		}
		return "k=" + x + strings.Repeat("a", sc.Cfg.ParamLen+7*(len(x)-2)-2-len(x))
	}
	names := map[string]string{} // lal unique key -> model id
	var nmu sync.Mutex
	nameOf := func(id string) string {
		nmu.Lock()
		defer nmu.Unlock()
		if n, ok := names[id]; ok {
			return n
		}
		if id == "" && len(sc.Cfg.CustPubs) > 0 {
			// Group.inSessionUniqueKey() has no case for a customize input: the hook is given ""
			return sc.Cfg.CustPubs[0]
		}
		if strings.HasPrefix(id, base.UkPreRtmpPullSession) || strings.HasPrefix(id, base.UkPreRtspPullSession) {
			return "pull"
		}
		if strings.HasPrefix(id, base.UkPreRtspSubSession) {
			if len(sc.Cfg.Players) > 0 {
				return sc.Cfg.Players[0]
			}
			return "player" // the RTSP player of a Describe step
		}
		return "?" + id
	}
	nh := &lcNotify{marker: make(chan string, 16), name: nameOf}
	hookRec := &lcHookRec{}
	if sc.Cfg.HttpNotify {
		// lal's own notify handler (HttpNotify: bounded queue, one worker, JSON over HTTP) posts to a stub web
		// hook on loopback, which records what arrives in arrival order
		hookSrv := newLcWebHook(nh, stream)
		if hookSrv != nil {
			defer hookSrv.Close()
			base0 := "http://" + hookSrv.Addr
			hn := fmt.Sprintf(`"http_notify":{"enable":true,"update_interval_sec":3600,"on_pub_start":"%s/on_pub_start","on_pub_stop":"%s/on_pub_stop",`+
				`"on_sub_start":"%s/on_sub_start","on_sub_stop":"%s/on_sub_stop","on_relay_pull_start":"%s/on_relay_pull_start",`+
				`"on_relay_pull_stop":"%s/on_relay_pull_stop","on_hls_make_ts":"%s/on_hls_make_ts"},`, base0, base0, base0, base0, base0, base0, base0)
			conf = strings.Replace(conf, `{"conf_version":"v0.4.1",`, `{"conf_version":"v0.4.1",`+hn, 1)
		}
	}
	sm := logic.NewServerManager(func(option *logic.Option) {
		option.ConfRawContent = []byte(conf)
		if !sc.Cfg.HttpNotify {
			option.NotifyHandler = nh
		}
	})
	if sc.Cfg.Hook {
		sm.WithOnHookSession(func(uniqueKey string, streamName string) logic.ICustomizeHookSessionContext {
			hookRec.add("hook_start", "?"+uniqueKey)
			return &lcHook{key: uniqueKey, name: nameOf, rec: hookRec}
		})
	}
	sess := map[string]*lcSession{}
	api := newLcApi(sm, sc.Sc%4 != 3, sc.Sc%3 == 1)
	defer api.close()
	var hls *lcHls
	if len(sc.Cfg.HlsSubs) > 0 && !sc.Cfg.Outputs {
		hls = newLcHls(sm, stream)
		defer hls.close()
	}
	var wire *lcWire
	if len(sc.Cfg.WirePubs) > 0 {
		wire = newLcWire(sm)
		if wire == nil {
			emitEv(M{"ev": "reset", "sc": sc.Sc, "cfgId": sc.CfgId})
			emitEv(M{"ev": "inconclusive", "sc": sc.Sc, "why": "no wire server (built without verif_wire)"})
			return
		}
		defer wire.close()
	}
	emitEv(M{"ev": "reset", "sc": sc.Sc, "cfgId": sc.CfgId})
	origin := newLcOrigin()
	if origin == nil {
		emitEv(M{"ev": "inconclusive", "sc": sc.Sc, "why": "no listening socket for the stub origin"})
		return
	}
	defer origin.close()
	inconclusive := false
	lastStep := time.Now()
	nmark := 0
	drain := func() ([]M, []M) {
		nmark++
		mk := fmt.Sprintf("verif-marker-%d", nmark)
		sm.OnHlsMakeTs(base.HlsMakeTsInfo{Event: mk})
		select {
		case <-nh.marker:
		case <-time.After(3 * time.Second):
		}
		nh.mu.Lock()
		evs := nh.evs
		nh.evs = nil
		nh.mu.Unlock()
		hookRec.mu.Lock()
		hs := hookRec.evs
		hookRec.evs = nil
		hookRec.mu.Unlock()
		if evs == nil {
			evs = []M{}
		}
		for _, e := range evs {
			// (the id of an HLS session is only known once the request that created it has returned)
			if id, ok := e["id"].(string); ok && strings.HasPrefix(id, "?") {
				e["id"] = nameOf(id[1:])
			}
		}
		if hs == nil {
			hs = []M{}
		}
		for _, e := range hs {
			if id, ok := e["id"].(string); ok && strings.HasPrefix(id, "?") {
				e["id"] = nameOf(id[1:])
			}
		}
		return evs, hs
	}
	register := func(x string, s *lcSession) {
		nmu.Lock()
		names[s.key] = x
		nmu.Unlock()
		sess[x] = s
	}
	probeMsg := func(i int) base.RtmpMsg {
		m := &AMsg{Id: i, T: "aud"}
		return BuildMsg(m, 32, uint32(i*10))
	}
	// with the outputs on, every probe is preceded by an AAC sequence header so that the TS remuxer,
	// the HLS muxer and the recorders carry real data
	probeHdr := func(i int) base.RtmpMsg {
		return BuildMsg(&AMsg{Id: i, T: "ash", Ha: 1}, 0, uint32(i*10))
	}

	// the RTSP player that stays: its connection, everything it has received so far, whose description that is
	var player *lcSession
	var playerGot []byte
	playerDesc := func() string {
		if player == nil {
			return ""
		}
		b, _ := player.conn.Drain()
		playerGot = append(playerGot, b...)
		return lcSdpOwner(playerGot)
	}
	tick := uint32(0)
	sweeps := uint32(0)
	lastHow, lastK := "", 0
	emit := func(name, x, ret string) {
		n, h := drain()
		// what a step other than a Probe has written to the subscribers (the headers an RTSP origin's description
		// turns into) is not the observation of a later Probe
		for _, o := range sess {
			if (o.kind == "rtmpSub" || o.kind == "flvSub") && o.conn != nil {
				o.conn.Drain()
			}
		}
		ev := M{"ev": name, "obs": M{"ret": ret, "notif": n, "hook": h, "attempts": origin.count()}}
		if x != "" {
			ev["x"] = x
		}
		if name == "Misuse" || name == "HlsPoll" {
			ev["how"] = lastHow
		}
		if name == "Describe" {
			ev["k"] = lastK
		}
		// stat projection: which sessions the stat API lists
		st := sm.StatGroup(stream)
		listed := []string{}
		if st != nil {
			if st.StatPub.SessionId != "" {
				listed = append(listed, nameOf(st.StatPub.SessionId))
			}
			for _, s := range st.StatSubs {
				n := nameOf(s.SessionId)
				if (kindOf(&sc.Cfg, n) == "hlsSub") != (s.Protocol == base.SessionProtocolHlsStr) {
					n += ":protocol=" + s.Protocol // an HLS session is listed as one, and nothing else is
				}
				listed = append(listed, n)
			}
		}
		if len(sc.Cfg.Players) > 0 {
			ev["desc"] = M{sc.Cfg.Players[0]: playerDesc()}
		}
		ev["stat"] = M{"exists": st != nil, "listed": listed, "pull": st != nil && st.StatPull.SessionId != ""}
		if len(targets) > 0 {
			ev["orph"] = pushOrphans(sm, stream, targets)
			pa, pn := pushSettle(sm, stream, targets)
			ev["pa"] = pa
			ev["pn"] = pn
		}
		if sc.Cfg.Outputs {
			pipe := []string{}
			if g := sm.GetGroup("", stream); g != nil {
				snap := g.VerifSnapshot()
				for k, v := range map[string]string{"tsRemuxer": "ts", "hlsMuxer": "hls", "recFlv": "recflv", "recTs": "rects", "hook": "hook"} {
					if snap[k] == true {
						pipe = append(pipe, v)
					}
				}
			}
			sort.Strings(pipe)
			ev["pipe"] = pipe
			ev["filesOk"] = len(pipe) != 0 || lcFilesFinalised(outDir, stream)
			if len(pipe) == 0 {
				// no pipeline: what the publication that has ended (if one has) left in the outputs
				ev["media"] = lcMediaCount(outDir, stream)
			}
		}
		emitEv(ev)
	}
	countNotif := func(evn string) int {
		nh.mu.Lock()
		defer nh.mu.Unlock()
		k := 0
		for _, e := range nh.evs {
			if e["ev"] == evn {
				k++
			}
		}
		return k
	}
	waitPullNotif := func() {
		waitFor(3*time.Second, func() bool { return countNotif("pull_start")+countNotif("pull_stop") > 0 })
	}
	// deviated: an attempt the model expects did not come within the bound.  The step is reported with the attempts that
	// were counted (TLC refuses it); the time spent waiting for it is not a stall of the machine
	deviated := false
	waitAttempts := func(st *lcStep) {
		if st.ExpAttempts > origin.count() {
			if !waitFor(3*time.Second, func() bool { return origin.count() >= st.ExpAttempts }) {
				deviated = true
			}
		}
	}
	autoMs := sc.Cfg.PullAutoMs
	pullScheme, pullTimeoutMs := "rtmp", 5000
	if sc.Cfg.PullRtsp {
		pullScheme = "rtsp"
		if sc.Sc%3 == 2 {
			pullTimeoutMs = 60000 // the set-up of these scenarios never completes: its deadline must not end the scenario
		}
	}
	if sc.Sc%3 == 1 {
		pullTimeoutMs = 10000 // lal's default: these scenarios leave the field out of the API request (lcApi.omitDef)
	}
	for i, st := range sc.Steps {
		if !deviated && st.Name != "Advance" && autoMs > 0 && time.Since(lastStep) > time.Duration(autoMs)*time.Millisecond*4/10 {
			inconclusive = true // the machine stalled: elapsed time no longer matches the abstract clock
		}
		lastStep = time.Now()
		x := st.X
		kind := kindOf(&sc.Cfg, x)
		switch st.Name {
		case "NewPub":
			s := &lcSession{kind: kind, conn: NewMemConn(x)}
			var err error
			if kind == "rtmpPub" {
				s.rtmp = rtmp.NewServerSession(nullObserver{}, s.conn)
				s.rtmp.VerifSetIdentity("live", stream, rawQueryOf(x), true)
				s.key = s.rtmp.UniqueKey()
				register(x, s)
				err = sm.OnNewRtmpPubSession(s.rtmp)
			} else if kind == "wirePub" {
				err = wire.publish(x, s, stream, register)
			} else {
				// an RTSP publisher goes through the real per-connection routine of rtsp.Server (command
				// loop, ANNOUNCE handling, report of the departing session): the ServerManager is its observer
				srv := rtsp.NewServer("127.0.0.1:0", &lcRtspObserver{sm: sm, onPub: func(p *rtsp.PubSession) {
					s.rpub = p
					s.key = p.UniqueKey()
					register(x, s)
				}}, rtsp.ServerAuthConfig{})
				s.done = make(chan struct{})
				go func() { srv.VerifHandleTcpConnect(s.conn); close(s.done) }()
				sdpBody := "v=0\r\no=- 0 0 IN IP4 127.0.0.1\r\ns=pub-" + x + "\r\nc=IN IP4 127.0.0.1\r\nt=0 0\r\nm=video 0 RTP/AVP 96\r\n" +
					"a=rtpmap:96 H264/90000\r\na=fmtp:96 packetization-mode=1\r\na=control:streamid=0\r\n"
				req := fmt.Sprintf("ANNOUNCE rtsp://127.0.0.1/live/%s RTSP/1.0\r\nCSeq: 1\r\nContent-Type: application/sdp\r\nContent-Length: %d\r\n\r\n%s",
					stream, len(sdpBody), sdpBody)
				s.conn.Feed([]byte(req))
				// accepted: a 200 response is written; refused: the routine ends (and reports what it reports)
				accepted := false
				waitFor(3*time.Second, func() bool {
					if b, _ := s.conn.Drain(); bytes.Contains(b, []byte("200 OK")) {
						accepted = true
						return true
					}
					select {
					case <-s.done:
						return true
					default:
						return false
					}
				})
				if !accepted {
					err = base.ErrDupInStream
				} else if sc.Cfg.RtspWire {
					u := "rtsp://127.0.0.1/live/" + stream
					s.cseq = 1
					lcRtspRequest(s, "SETUP "+u+"/streamid=0 RTSP/1.0\r\nTransport: RTP/AVP/TCP;unicast;interleaved=0-1;mode=record\r\n")
					lcRtspRequest(s, "RECORD "+u+" RTSP/1.0\r\nRange: npt=0.000-\r\n")
				}
			}
			ret := "ok"
			if err != nil {
				ret = "dup"
				if err != base.ErrDupInStream {
					ret = "err"
				}
			}
			if ret == "ok" && kind == "rtspPub" && player != nil && playerDesc() == "" {
				// lal hands the description of an accepted RTSP publisher to the group from a goroutine of its own: a
				// parked player is answered a moment later
				waitFor(time.Second, func() bool { return playerDesc() != "" })
			}
			emit("NewPub", x, ret)
		case "DelPub":
			s := sess[x]
			if s == nil {
				emit("DelPub", x, "nosession") // (the session never came into being: an observation no behaviour contains)
				continue
			}
			if s.kind == "rtmpPub" {
				sm.OnDelRtmpPubSession(s.rtmp)
			} else if s.kind == "wirePub" {
				s.push.Dispose() // the peer hangs up: the server's routine reports the departure
				select {
				case <-s.done:
				case <-time.After(3 * time.Second):
				}
			} else {
				s.conn.Close() // the peer hangs up: the server's routine reports the departure
				select {
				case <-s.done:
				case <-time.After(3 * time.Second):
				}
			}
			emit("DelPub", x, "ok")
		case "AddCust":
			ctx, err := sm.AddCustomizePubSession(stream)
			ret := "ok"
			if err != nil {
				ret = "dup"
			} else {
				s := &lcSession{kind: kind, cust: ctx, key: ctx.UniqueKey()}
				register(x, s)
			}
			emit("AddCust", x, ret)
		case "DelCust":
			if sess[x] == nil || sess[x].cust == nil {
				emit("DelCust", x, "nosession") // the run has left the model's path: for the specification to reject
				break
			}
			sm.DelCustomizePubSession(sess[x].cust)
			emit("DelCust", x, "ok")
		case "StartPs":
			// every second scenario: the TCP variant of the GB28181 input (a listener instead of a UDP socket)
			code, psId, psPort := api.startRtpPub(stream, 60000, sc.Sc%2)
			ret := "ok"
			if code == -1 {
				ret = "apierr"
			} else if code != base.ErrorCodeSucc {
				ret = "dup"
			} else {
				s := &lcSession{kind: kind, key: psId, psPort: psPort}
				if sc.Sc%2 == 1 {
					// TCP mode: the device connects (and stays idle); when the session ends on lal's side the device
					// must see its connection closed
					if c, err := net.DialTimeout("tcp", fmt.Sprintf("127.0.0.1:%d", s.psPort), 2*time.Second); err == nil {
						s.psConn = c
						// the device says hello with a packet that carries a pack header and nothing else (no media); once
						// lal has counted its bytes the connection is the one the session serves (accepted, reader running)
						s.psSeq.N++
						hello := proj.SfPstExact(proj.SfRtpDatagram("ok", 0, true, 96, s.psSeq.N, 0, 0x33333333, proj.SfPsElem("pack", "ok", 0)))
						_, _ = c.Write(hello)
						if !waitFor(2*time.Second, func() bool {
							sg := sm.StatGroup(stream)
							return sg != nil && sg.StatPub.SessionId == s.key && sg.StatPub.ReadBytesSum > 0
						}) {
							ret = "noserve"
						}
					} else {
						ret = "noconnect"
					}
				}
				register(x, s)
			}
			emit("StartPs", x, ret)
		case "NewSub":
			s := &lcSession{kind: kind, conn: NewMemConn(x)}
			var err error
			if kind == "rtmpSub" {
				s.rtmp = rtmp.NewServerSession(nullObserver{}, s.conn)
				s.rtmp.VerifSetIdentity("live", stream, "", false)
				s.key = s.rtmp.UniqueKey()
				register(x, s)
				err = sm.OnNewRtmpSubSession(s.rtmp)
			} else if kind == "tsSub" {
				u, _ := base.ParseUrl("http://127.0.0.1/live/"+stream+".ts", 80)
				s.ts = httpts.NewSubSession(s.conn, u, false, "")
				s.key = s.ts.UniqueKey()
				register(x, s)
				err = sm.OnNewHttptsSubSession(s.ts)
			} else {
				u, _ := base.ParseUrl("http://127.0.0.1/live/"+stream+".flv", 80)
				s.flv = httpflv.NewSubSession(s.conn, u, false, "")
				s.key = s.flv.UniqueKey()
				register(x, s)
				err = sm.OnNewHttpflvSubSession(s.flv)
			}
			ret := "ok"
			if err != nil {
				ret = "err"
			}
			s.conn.Drain()
			waitAttempts(&st)
			emit("NewSub", x, ret)
		case "DelSub":
			s := sess[x]
			if s.kind == "rtmpSub" {
				sm.OnDelRtmpSubSession(s.rtmp)
			} else if s.kind == "tsSub" {
				sm.OnDelHttptsSubSession(s.ts)
			} else {
				sm.OnDelHttpflvSubSession(s.flv)
			}
			emit("DelSub", x, "ok")
		case "HlsOpen":
			ret := "nohls"
			if hls != nil {
				remote := lcHlsRemote(sc.Cfg.HlsSubs, x)
				if ret = hls.open(x, remote, len(x) > 0 && (x[len(x)-1]-'0')%2 == 0); ret == "ok" {
					// its lal id: the session the stat API lists with this client's address (else: the one just notified)
					key := ""
					if sg := sm.StatGroup(stream); sg != nil {
						for _, s := range sg.StatSubs {
							if s.RemoteAddr == remote {
								key = s.SessionId
							}
						}
					}
					if key == "" {
						nh.mu.Lock()
						for _, e := range nh.evs {
							if id, _ := e["id"].(string); e["ev"] == "sub_start" && strings.HasPrefix(id, "?"+base.UkPreHlsSubSession) {
								key = id[1:]
							}
						}
						nh.mu.Unlock()
					}
					if key != "" {
						register(x, &lcSession{kind: kind, key: key})
					}
				}
			}
			waitAttempts(&st)
			emit("HlsOpen", x, ret)
		case "HlsPoll":
			ret := "nohls"
			if hls != nil {
				ret = hls.poll(x, st.How)
			}
			lastHow = st.How
			emit("HlsPoll", x, ret)
		case "PlayerAsk":
			// an RTSP player on its own connection, served by the real per-connection routine: DESCRIBE, then OPTIONS
			// as a barrier - when that is answered the DESCRIBE has been answered or the player is parked
			player = &lcSession{kind: "rtspPlayer", conn: NewMemConn(x), done: make(chan struct{})}
			playerGot = nil
			psrv := rtsp.NewServer("127.0.0.1:0", &lcRtspObserver{sm: sm, onPub: func(p *rtsp.PubSession) {}}, rtsp.ServerAuthConfig{})
			go func(pc *lcSession) { psrv.VerifHandleTcpConnect(pc.conn); close(pc.done) }(player)
			player.conn.Feed([]byte("DESCRIBE rtsp://127.0.0.1/live/" + stream + " RTSP/1.0\r\nCSeq: 1\r\nAccept: application/sdp\r\n\r\n"))
			player.cseq = 1
			player.keep = &playerGot
			lcRtspRequest(player, "OPTIONS rtsp://127.0.0.1/live/"+stream+" RTSP/1.0\r\n")
			ret := "wait"
			if d := playerDesc(); d != "" {
				ret = "sdp:" + d
			}
			emit("PlayerAsk", x, ret)
		case "PlayerBye":
			if player != nil {
				playerDesc()
				player.conn.Close()
				select {
				case <-player.done:
				case <-time.After(3 * time.Second):
				}
				player = nil
			}
			emit("PlayerBye", x, "ok")
		case "HlsBlacklist":
			ret := "nohls"
			if hls != nil {
				ret = hls.blacklist(x, sc.Cfg.HlsSettle)
			}
			emit("HlsBlacklist", x, ret)
		case "HlsLinger":
			// longer than the timeout plus the sweep period, while the clients keep asking
			time.Sleep(time.Duration(lcHlsTimeoutMs)*time.Millisecond + 1150*time.Millisecond)
			emit("HlsLinger", "", "ok")
		case "HlsExpire":
			// the client stops asking: the timeout passes and the handler's next sweep ends the session
			if hls != nil {
				hls.silence(x)
				waitFor(time.Duration(lcHlsTimeoutMs)*time.Millisecond+3*time.Second, func() bool { return countNotif("sub_stop") > 0 })
			}
			emit("HlsExpire", x, "ok")
		case "Kick":
			key := "NOSUCH"
			if s := sess[x]; s != nil {
				key = s.key
			} else {
				// a session that never came into being still has a well-formed id of its kind
				key = map[string]string{"rtmpPub": base.UkPreRtmpServerSession, "rtmpSub": base.UkPreRtmpServerSession,
					"wirePub": base.UkPreRtmpServerSession, "rtspPub": base.UkPreRtspPubSession, "custPub": base.UkPreCustomizePubSessionContext,
					"psPub": base.UkPrePsPubSession, "flvSub": base.UkPreFlvSubSession, "tsSub": base.UkPreTsSubSession,
					"hlsSub": base.UkPreHlsSubSession}[kind] + "999999"
			}
			ret := "ok"
			switch api.kick(stream, key) {
			case base.ErrorCodeSucc:
			case base.ErrorCodeGroupNotFound:
				ret = "nogroup"
			case base.ErrorCodeSessionNotFound:
				ret = "nosession"
			default:
				ret = "apierr"
			}
			if ret == "ok" && (kind == "rtspPub" || kind == "wirePub") {
				if s := sess[x]; s != nil && s.done != nil {
					select {
					case <-s.done:
					case <-time.After(3 * time.Second):
					}
				}
			}
			if ret == "ok" && kind == "hlsSub" && hls != nil {
				// the kick only flags the session: the handler's sweep (once a second, on its own) reports the departure
				waitFor(3*time.Second, func() bool { return countNotif("sub_stop") > 0 })
				hls.silence(x)
			}
			if ret == "ok" && kind == "psPub" {
				// its own goroutine tears it down: wait until the group has no GB28181 input any more
				waitFor(2*time.Second, func() bool {
					g := sm.GetGroup("", stream)
					return g == nil || g.VerifSnapshot()["psPub"] == false
				})
				if s := sess[x]; s != nil {
					s.psGone = true
					if s.psConn != nil && !lcPeerClosed(s.psConn, 2*time.Second) {
						ret = "connopen" // the session is gone but the device's connection is still served
					}
				}
			}
			emit("Kick", x, ret)
		case "Probe":
			s := sess[x]
			ret := "ok"
			msg := probeMsg(i + 1)
			msgs := []base.RtmpMsg{msg}
			if sc.Cfg.Outputs {
				am := &AMsg{Id: i + 1, T: "aud", Ha: 1}
				msgs = []base.RtmpMsg{probeHdr(i + 1), BuildMsg(am, 64, uint32((i+1)*10))}
			}
			skind := ""
			if s != nil {
				skind = s.kind
			}
			if skind == "psPub" && s.psGone {
				// the device of a GB28181 input that has ended goes on sending: well-formed access units (key frames) on
				// the connection it had (TCP mode)
				lcPsStaleSend(s)
				msgs = nil
			}
			for _, msg := range msgs {
				switch skind {
				case "wirePub":
					// through the real connection: the server session reads the chunks and hands the message on
					ch := rtmp.Message2Chunks(msg.Payload, &msg.Header)
					// followed by an Acknowledgement: once the read loop has consumed it, the media
					// message before it has been handed on (one goroutine reads and dispatches)
					ack := base.RtmpHeader{Csid: 2, MsgLen: 4, MsgTypeId: base.RtmpTypeIdAck}
					ch = append(ch, rtmp.Message2Chunks([]byte{0, 0, 0, 1}, &ack)...)
					if err := s.push.Write(ch); err == nil {
						_ = s.push.Flush()
						s.sent += uint64(len(ch))
						base0 := s.sent
						waitFor(2*time.Second, func() bool { return s.wsess.GetStat().ReadBytesSum >= s.wbase+base0 })
					}
				case "custPub":
					if err := s.cust.FeedRtmpMsg(msg); err != nil {
						ret = "rejected"
					}
				default:
					// network / GB28181 inputs deliver through the group the session was attached to
					g := sm.GetGroup("", stream)
					if g != nil {
						g.OnReadRtmpAvMsg(msg)
					}
				}
			}
			if skind == "rtspPub" && sc.Cfg.RtspWire && s.done != nil {
				// media-side bytes on the publisher's own connection: an RTCP sender report on the interleaved
				// RTCP channel, then an OPTIONS as a barrier (the command loop handles its input in order)
				sr := make([]byte, 28)
				copy(sr, []byte{0x80, 200, 0, 6, 0, 0, 0, 9})
				s.conn.Feed(append([]byte{'$', 1, 0, 28}, sr...))
				lcRtspRequest(s, "OPTIONS rtsp://127.0.0.1/live/"+stream+" RTSP/1.0\r\n")
			}
			n, h := drain()
			fwd := false
			for _, o := range sess {
				if (o.kind == "rtmpSub" || o.kind == "flvSub") && o.conn != nil {
					if b, _ := o.conn.Drain(); len(b) > 0 {
						fwd = true
					}
				}
			}
			ret = "rejected" // "ok" = it had an observable effect (hook callback or a subscriber received it)
			if len(h) > 0 || fwd {
				ret = "ok"
			}
			ev := M{"ev": "Probe", "x": x, "obs": M{"ret": ret, "notif": n, "hook": h, "attempts": origin.count(), "fwd": fwd}}
			emitEv(ev)
			continue
		case "ProbePull":
			// media of the relay pull that is attached: it enters the group where rtmp.PullSession hands it in
			// (WithOnReadRtmpAvMsg(group.OnReadRtmpAvMsg)), like the media of the driver's RTMP publishers
			msgs := []base.RtmpMsg{probeMsg(i + 1)}
			if sc.Cfg.Outputs {
				msgs = []base.RtmpMsg{probeHdr(i + 1), BuildMsg(&AMsg{Id: i + 1, T: "aud", Ha: 1}, 64, uint32((i+1)*10))}
			}
			if g := sm.GetGroup("", stream); g != nil {
				for _, msg := range msgs {
					g.OnReadRtmpAvMsg(msg)
				}
			}
			{
				n, h := drain()
				fwd := false
				for _, o := range sess {
					if (o.kind == "rtmpSub" || o.kind == "flvSub") && o.conn != nil {
						if b, _ := o.conn.Drain(); len(b) > 0 {
							fwd = true
						}
					}
				}
				ret := "rejected"
				if len(h) > 0 || fwd {
					ret = "ok"
				}
				emitEv(M{"ev": "ProbePull", "obs": M{"ret": ret, "notif": n, "hook": h, "attempts": origin.count(), "fwd": fwd}})
			}
			continue
		case "Misuse":
			// a request that does not belong on a publisher's connection
			if s := sess[x]; s != nil && s.kind == "rtspPub" && s.done != nil {
				u := "rtsp://127.0.0.1/live/" + stream
				s.cseq++
				if st.How == "announce" {
					sdpBody := "v=0\r\no=- 0 0 IN IP4 127.0.0.1\r\ns=pub-" + x + "\r\nc=IN IP4 127.0.0.1\r\nt=0 0\r\nm=video 0 RTP/AVP 96\r\n" +
						"a=rtpmap:96 H264/90000\r\na=fmtp:96 packetization-mode=1\r\na=control:streamid=0\r\n"
					s.conn.Feed([]byte(fmt.Sprintf("ANNOUNCE %s RTSP/1.0\r\nCSeq: %d\r\nContent-Type: application/sdp\r\nContent-Length: %d\r\n\r\n%s",
						u, s.cseq, len(sdpBody), sdpBody)))
				} else {
					s.conn.Feed([]byte(fmt.Sprintf("DESCRIBE %s RTSP/1.0\r\nCSeq: %d\r\nAccept: application/sdp\r\n\r\n", u, s.cseq)))
				}
				select {
				case <-s.done: // the routine ended: the connection is closed
				case <-time.After(2 * time.Second):
					// still open: hang up, so that the scenario can go on; what was (not) reported is the observation
					s.conn.Close()
					select {
					case <-s.done:
					case <-time.After(3 * time.Second):
					}
				}
			}
			lastHow = st.How
			emit("Misuse", x, "ok")
		case "KeepAlive":
			ret := "err"
			if s := sess[x]; s != nil && s.kind == "rtspPub" {
				if lcRtspRequest(s, "OPTIONS rtsp://127.0.0.1/live/"+stream+" RTSP/1.0\r\n") {
					ret = "ok"
				}
			}
			emit("KeepAlive", x, ret)
		case "Describe":
			// an RTSP player on its own connection, served by the real per-connection routine: DESCRIBE, then
			// OPTIONS as a barrier - when that is answered the DESCRIBE has been answered or parked
			pc := &lcSession{kind: "rtspPlayer", conn: NewMemConn("player")}
			psrv := rtsp.NewServer("127.0.0.1:0", &lcRtspObserver{sm: sm, onPub: func(p *rtsp.PubSession) {}}, rtsp.ServerAuthConfig{})
			pc.done = make(chan struct{})
			go func() { psrv.VerifHandleTcpConnect(pc.conn); close(pc.done) }()
			u := "rtsp://127.0.0.1/live/" + stream
			pc.conn.Feed([]byte("DESCRIBE " + u + " RTSP/1.0\r\nCSeq: 1\r\nAccept: application/sdp\r\n\r\n"))
			pc.cseq = 1
			var all []byte
			pc.keep = &all
			if st.K >= 2 {
				// the same request again on the same connection
				pc.conn.Feed([]byte("DESCRIBE " + u + " RTSP/1.0\r\nCSeq: 2\r\nAccept: application/sdp\r\n\r\n"))
				pc.cseq = 2
			}
			lcRtspRequest(pc, "OPTIONS "+u+" RTSP/1.0\r\n")
			ret := "wait"
			if bytes.Contains(all, []byte("application/sdp")) {
				ret = "sdp"
			}
			pc.conn.Close()
			select {
			case <-pc.done:
			case <-time.After(3 * time.Second):
			}
			lastK = st.K
			emit("Describe", "", ret)
		case "Sweep":
			// a tick whose count is a multiple of base.LogicCheckSessionAliveIntervalSec (120): the idle check runs
			sweeps++
			sm.VerifTick(base.LogicCheckSessionAliveIntervalSec * sweeps)
			if st.ExpNotif > 0 {
				waitFor(3*time.Second, func() bool { return countNotif("pub_stop") > 0 })
			}
			if st.ExpHook > 0 {
				waitFor(3*time.Second, func() bool { return hookRec.count() >= st.ExpHook })
			}
			emit("Sweep", "", "ok")
		case "Tick":
			tick++
			if tick%base.LogicCheckSessionAliveIntervalSec == 0 {
				tick++
			}
			sm.VerifTick(tick)
			waitAttempts(&st)
			if st.ExpNotif > 0 {
				waitPullNotif()
			}
			emit("Tick", "", "ok")
		case "StartPull":
			code := api.startPull(fmt.Sprintf("%s://%s/live/%s", pullScheme, origin.ln.Addr().String(), stream), stream,
				pullTimeoutMs, sc.Cfg.PullRetry, sc.Cfg.PullAutoMs)
			ret := "ok"
			if code == -1 {
				ret = "apierr"
			} else if code != base.ErrorCodeSucc {
				ret = "fail"
			}
			waitAttempts(&st)
			emit("StartPull", "", ret)
		case "StopPull", "KickPull", "KickStale":
			ret := "ok"
			var code int
			if st.Name == "StopPull" {
				code = api.stopPull(stream)
			} else {
				key := base.UkPreRtmpPullSession + "999999"
				if sc.Cfg.PullRtsp {
					key = base.UkPreRtspPullSession + "999999"
				}
				if g := sm.GetGroup("", stream); g != nil {
					if sp := sm.StatGroup(stream); st.Name == "KickPull" && sp != nil && sp.StatPull.SessionId != "" {
						key = sp.StatPull.SessionId
					}
				}
				code = api.kick(stream, key)
			}
			switch code {
			case base.ErrorCodeSucc:
			case base.ErrorCodeGroupNotFound:
				ret = "nogroup"
			case base.ErrorCodeSessionNotFound:
				ret = "nosession"
			default:
				ret = "apierr"
			}
			if st.ExpNotif > 0 || ret == "ok" {
				waitPullNotif()
			}
			emit(st.Name, "", ret)
		case "PullOk":
			c := origin.take()
			if c != nil {
				origin.mu.Lock()
				origin.serving = c
				done := make(chan struct{})
				origin.done = done
				played := make(chan struct{})
				origin.played = played
				origin.mu.Unlock()
				if sc.Cfg.PullRtsp {
					go func() { lcRtspOriginServe(c, sc.Sc%2 == 1, sc.Sc%3 == 2, played); close(done) }()
				} else {
					go func() { _ = rtmp.NewServerSession(nullObserver{}, c).RunLoop(); close(done) }()
				}
			}
			waitPullNotif()
			// a refused attempt is disposed by lal: its stop notification follows the refusal
			n0 := countNotif("pull_start")
			if n0 == 0 {
				waitFor(3*time.Second, func() bool { return countNotif("pull_stop") > 0 })
			}
			ret := "ok"
			if n0 == 0 {
				ret = "dup"
			} else if sc.Cfg.PullRtsp && c != nil {
				// attached (lal attaches an RTSP pull when the description arrives): let the rest of the set-up run
				// (every third scenario: only as far as the first SETUP, which the origin never answers)
				select {
				case <-origin.played:
				case <-time.After(3 * time.Second):
					ret = "noplay"
				}
			}
			emit("PullOk", "", ret)
		case "PullFail":
			if c := origin.take(); c != nil {
				// every second scenario: the origin hangs up after the handshake (RTMP: the client's connect is left
				// unanswered; RTSP: after the answer to OPTIONS) instead of at once
				if sc.Sc%2 == 0 {
					c.Close()
				} else if sc.Cfg.PullRtsp {
					lcRtspLateClose(c)
				} else {
					lcRtmpLateClose(c)
				}
			}
			waitFor(3*time.Second, func() bool { return countNotif("pull_stop") > 0 })
			emit("PullFail", "", "ok")
		case "PullEnd":
			origin.mu.Lock()
			if origin.serving != nil {
				origin.serving.Close()
				origin.serving = nil
			}
			origin.mu.Unlock()
			waitFor(3*time.Second, func() bool { return countNotif("pull_stop") > 0 })
			emit("PullEnd", "", "ok")
		case "PushOk":
			o := targets[x]
			plen := -1
			var pmu sync.Mutex
			_, pn0 := pushCounts(sm, stream, targets)
			if c := o.take(); c != nil {
				o.mu.Lock()
				o.serving = c
				o.mu.Unlock()
				obs := &lcPushTargetObserver{onPub: func(q string) { pmu.Lock(); plen = len(q); pmu.Unlock() }}
				go func() { _ = rtmp.NewServerSession(obs, c).RunLoop() }()
			}
			waitFor(3*time.Second, func() bool { pmu.Lock(); defer pmu.Unlock(); return plen >= 0 })
			pa, pn := pushSettle(sm, stream, targets)
			ret := "late"
			if pn > pn0 {
				ret = "ok"
			}
			n, h := drain()
			pmu.Lock()
			pl := plen
			pmu.Unlock()
			emitEv(M{"ev": "PushOk", "x": x, "obs": M{"ret": ret, "notif": n, "hook": h, "attempts": origin.count()}, "pa": pa, "pn": pn, "plen": pl})
			continue
		case "PushFail":
			if c := targets[x].take(); c != nil {
				if sc.Sc%2 == 0 {
					c.Close()
				} else {
					lcRtmpLateClose(c) // the target hangs up after the handshake
				}
			}
			emit("PushFail", x, "ok")
		case "PushEnd":
			o := targets[x]
			o.mu.Lock()
			if o.serving != nil {
				o.serving.Close()
				o.serving = nil
			}
			o.mu.Unlock()
			_, pn0 := pushCounts(sm, stream, targets)
			waitFor(3*time.Second, func() bool { _, pn := pushCounts(sm, stream, targets); return pn < pn0 })
			emit("PushEnd", x, "ok")
		case "Shutdown":
			sm.Dispose()
			ret := "ok"
			if origin != nil {
				// a relay pull session that is attached is one of the server's sessions: shutdown closes it
				origin.mu.Lock()
				c, done := origin.serving, origin.done
				origin.mu.Unlock()
				if c != nil && done != nil {
					select {
					case <-done:
					case <-time.After(2 * time.Second):
						ret = "pullopen"
					}
				}
				if st.ExpNotif > 0 {
					waitPullNotif()
				}
			}
			// the connection of a GB28181 device in TCP mode is one of the server's connections, too
			for _, s := range sess {
				if s.kind == "psPub" && s.psConn != nil && !s.psGone {
					s.psGone = true
					if !lcPeerClosed(s.psConn, 2*time.Second) {
						ret = "connopen"
					}
				}
			}
			emit("Shutdown", "", ret)
		case "Advance":
			time.Sleep(time.Duration(autoMs)*time.Millisecond + 60*time.Millisecond)
			lastStep = time.Now()
			emit("Advance", "", "ok")
		}
	}
	if sc.Cfg.Leak > 0 {
		lcLeakCycles(sm, stream, sc.Cfg.Leak, emitEv)
	}
	if hls != nil && hls.isLate() {
		inconclusive = true // a client that was meant to keep asking came too late (or the process stalled)
	}
	if inconclusive {
		emitEv(M{"ev": "inconclusive", "sc": sc.Sc})
	}
	// tear down: dispose whatever is left so that goroutines and sockets do not accumulate
	sm.CtrlStopRelayPull(stream)
	for x, s := range sess {
		_ = x
		if s.kind == "psPub" {
			sm.CtrlKickSession(base.ApiCtrlKickSessionReq{StreamName: stream, SessionId: s.key})
			if s.psConn != nil {
				s.psConn.Close()
			}
		}
	}
	time.Sleep(time.Millisecond)
}

var _ = net.ErrClosed

// lcFilesFinalised reports whether, with no input attached, every recording parses completely and
// the live HLS playlist (if any) carries the end marker.
func lcFilesFinalised(dir, stream string) bool {
	flvs, _ := filepath.Glob(filepath.Join(dir, "flv", "*.flv"))
	for _, f := range flvs {
		b, err := os.ReadFile(f)
		if err != nil || len(b) < 13 || !bytes.Equal(b[:3], []byte("FLV")) {
			return false
		}
		pos := 13
		for pos < len(b) {
			if pos+11 > len(b) {
				return false
			}
			n := int(b[pos+1])<<16 | int(b[pos+2])<<8 | int(b[pos+3])
			if pos+11+n+4 > len(b) {
				return false
			}
			pos += 11 + n + 4
		}
	}
	tss, _ := filepath.Glob(filepath.Join(dir, "ts", "*.ts"))
	for _, f := range tss {
		st, err := os.Stat(f)
		if err != nil || st.Size()%188 != 0 {
			return false
		}
	}
	if b, err := os.ReadFile(filepath.Join(dir, "hls", stream, "playlist.m3u8")); err == nil {
		if !bytes.Contains(b, []byte("#EXT-X-ENDLIST")) {
			return false
		}
	}
	return true
}

func lcCountFds() int {
	es, err := os.ReadDir("/proc/self/fd")
	if err != nil {
		return 0
	}
	return len(es)
}

// lcLeakCycles runs publish / subscribe / unpublish cycles with everything enabled and reports
// goroutine and descriptor counts after an early and after the last cycle (monotone-leak criterion).
func lcLeakCycles(sm *logic.ServerManager, stream string, n int, emitEv func(M)) {
	var g1, fd1, n1 int
	tick := uint32(1000)
	for i := 1; i <= n; i++ {
		name := fmt.Sprintf("%s-leak", stream)
		pub := rtmp.NewServerSession(nullObserver{}, NewMemConn("lp"))
		pub.VerifSetIdentity("live", name, "", true)
		if sm.OnNewRtmpPubSession(pub) != nil {
			break
		}
		subc := NewMemConn("ls")
		sub := rtmp.NewServerSession(nullObserver{}, subc)
		sub.VerifSetIdentity("live", name, "", false)
		sm.OnNewRtmpSubSession(sub)
		if g := sm.GetGroup("", name); g != nil {
			g.OnReadRtmpAvMsg(BuildMsg(&AMsg{Id: 1, T: "ash", Ha: 1}, 0, 0))
			for k := 0; k < 5; k++ {
				g.OnReadRtmpAvMsg(BuildMsg(&AMsg{Id: 2 + k, T: "aud", Ha: 1}, 64, uint32(k*23)))
			}
		}
		sm.OnDelRtmpSubSession(sub)
		sm.OnDelRtmpPubSession(pub)
		tick++
		sm.VerifTick(tick) // removes the now empty group
		if i == n/4 || i == n {
			time.Sleep(30 * time.Millisecond)
			runtime.GC()
			time.Sleep(30 * time.Millisecond)
			if i == n/4 {
				g1, fd1, n1 = runtime.NumGoroutine(), lcCountFds(), i
			} else {
				emitEv(M{"ev": "Leak", "n1": n1, "n2": i, "g1": g1, "g2": runtime.NumGoroutine(), "fd1": fd1, "fd2": lcCountFds()})
			}
		}
	}
}

// lcRtspObserver hands the callbacks of rtsp.Server to the ServerManager, noting the pub session.
type lcRtspObserver struct {
	sm    *logic.ServerManager
	onPub func(p *rtsp.PubSession)
}

func (o *lcRtspObserver) OnNewRtspSessionConnect(session *rtsp.ServerCommandSession) {
	o.sm.OnNewRtspSessionConnect(session)
}
func (o *lcRtspObserver) OnDelRtspSession(session *rtsp.ServerCommandSession) {
	o.sm.OnDelRtspSession(session)
}
func (o *lcRtspObserver) OnNewRtspPubSession(session *rtsp.PubSession) error {
	o.onPub(session)
	return o.sm.OnNewRtspPubSession(session)
}
func (o *lcRtspObserver) OnNewRtspSubSessionDescribe(session *rtsp.SubSession) (ok bool, sdp []byte) {
	return o.sm.OnNewRtspSubSessionDescribe(session)
}
func (o *lcRtspObserver) OnNewRtspSubSessionPlay(session *rtsp.SubSession) error {
	return o.sm.OnNewRtspSubSessionPlay(session)
}
func (o *lcRtspObserver) OnDelRtspPubSession(session *rtsp.PubSession) {
	o.sm.OnDelRtspPubSession(session)
}
func (o *lcRtspObserver) OnDelRtspSubSession(session *rtsp.SubSession) {
	o.sm.OnDelRtspSubSession(session)
}

// lcPushTargetObserver is the observer of the stub relay-push target: it records the URL parameters
// that arrive with the publish command.
type lcPushTargetObserver struct{ onPub func(rawQuery string) }

func (o *lcPushTargetObserver) OnRtmpConnect(session *rtmp.ServerSession, opa rtmp.ObjectPairArray) {}
func (o *lcPushTargetObserver) OnNewRtmpPubSession(session *rtmp.ServerSession) error {
	o.onPub(session.RawQuery())
	session.SetPubSessionObserver(o) // the target takes the media (without an observer it would hang up on the first message)
	return nil
}
func (o *lcPushTargetObserver) OnReadRtmpAvMsg(msg base.RtmpMsg)                      {}
func (o *lcPushTargetObserver) OnNewRtmpSubSession(session *rtmp.ServerSession) error { return nil }

// pushCounts returns the connection attempts the targets have seen and the push sessions attached.
func pushCounts(sm *logic.ServerManager, stream string, targets map[string]*lcOrigin) (pa int, pn int) {
	for _, o := range targets {
		pa += o.count()
	}
	if g := sm.GetGroup("", stream); g != nil {
		if v, ok := g.VerifSnapshot()["nPush"].(int); ok {
			pn = v
		}
	}
	return
}

// pushSettle waits until the asynchronous push goroutines of lal are quiescent -- every connection
// that is being set up (in progress but not attached) is parked at its gated target -- and returns the
// counts; what it returns is an observation, never a verdict.
func pushSettle(sm *logic.ServerManager, stream string, targets map[string]*lcOrigin) (int, int) {
	deadline := time.Now().Add(3 * time.Second)
	okRounds := 0
	for time.Now().Before(deadline) {
		_, n := pushCounts(sm, stream, targets)
		busy := 0
		if g := sm.GetGroup("", stream); g != nil {
			if v, ok := g.VerifSnapshot()["nPushing"].(int); ok {
				busy = v - n
			}
		}
		parked := 0
		for _, o := range targets {
			o.mu.Lock()
			parked += len(o.parked)
			o.mu.Unlock()
		}
		if busy == parked {
			okRounds++
			if okRounds >= 2 {
				break
			}
		} else {
			okRounds = 0
		}
		time.Sleep(2 * time.Millisecond)
	}
	return pushCounts(sm, stream, targets)
}

// pushOrphans: when the group is gone (removed by the tick, or the server shut down) the connections
// still parked at the targets belong to nobody.  The target completes each of them and reports how
// many lal then keeps open instead of closing (a push session attached to a stream that is gone).
func pushOrphans(sm *logic.ServerManager, stream string, targets map[string]*lcOrigin) int {
	if sm.GetGroup("", stream) != nil {
		return 0
	}
	kept := 0
	for _, o := range targets {
		o.mu.Lock()
		conns := o.parked
		o.parked = nil
		o.mu.Unlock()
		for _, c := range conns {
			done := make(chan struct{})
			go func(c net.Conn) {
				_ = rtmp.NewServerSession(&lcPushTargetObserver{onPub: func(string) {}}, c).RunLoop()
				close(done)
			}(c)
			select {
			case <-done:
			case <-time.After(1500 * time.Millisecond):
				kept++
			}
			c.Close()
		}
	}
	return kept
}

// lcRunInChild runs one scenario in a child process; if the child dies the events it had written
// are followed by a "Died" event (kind of crash, innermost lal frame).
func lcRunInChild(sc *lcScenario, seed int64) []M {
	lines, died, stderr := RunChild("lifecycle", sc, seed, 120)
	var evs []M
	for _, l := range lines {
		var m M
		if json.Unmarshal(l, &m) == nil {
			evs = append(evs, m)
		}
	}
	if len(evs) == 0 {
		evs = append(evs, M{"ev": "reset", "sc": sc.Sc, "cfgId": sc.CfgId})
	}
	if died {
		kind, frame := plPanicSig(stderr)
		evs = append(evs, M{"ev": "Died", "x": "", "kind": kind, "frame": frame})
	}
	return evs
}

// ---- wire publishers: lal's own RTMP client (rtmp.PushSession) on a loopback connection that is
// served by the per-connection routine of rtmp.Server (session, read loop, report of the departure)

// lcWireServe runs rtmp.Server's per-connection routine; set by lifecycle_wire.go (build tag verif_wire).
var lcWireServe func(srv *rtmp.Server, conn net.Conn)

type lcWireAccepted struct {
	sess *rtmp.ServerSession
	err  error
}

type lcWire struct {
	ln       net.Listener
	sm       *logic.ServerManager
	srv      *rtmp.Server
	dones    chan chan struct{}
	accepted chan lcWireAccepted
	onPub    func(session *rtmp.ServerSession) // called before the ServerManager sees the publish
}

func newLcWire(sm *logic.ServerManager) *lcWire {
	if lcWireServe == nil {
		return nil
	}
	ln, err := net.Listen("tcp", "127.0.0.1:0")
	if err != nil {
		return nil
	}
	w := &lcWire{ln: ln, sm: sm, dones: make(chan chan struct{}, 16), accepted: make(chan lcWireAccepted, 16)}
	w.srv = rtmp.NewServer(ln.Addr().String(), w)
	go func() {
		for {
			c, err := ln.Accept()
			if err != nil {
				return
			}
			d := make(chan struct{})
			w.dones <- d
			go func() { lcWireServe(w.srv, c); close(d) }()
		}
	}()
	return w
}

func (w *lcWire) close() { w.ln.Close() }

// the ServerManager is the observer, as in lal; the adapter only notes which session the routine created
func (w *lcWire) OnRtmpConnect(session *rtmp.ServerSession, opa rtmp.ObjectPairArray) {
	w.sm.OnRtmpConnect(session, opa)
}
func (w *lcWire) OnNewRtmpPubSession(session *rtmp.ServerSession) error {
	if w.onPub != nil {
		w.onPub(session)
	}
	err := w.sm.OnNewRtmpPubSession(session)
	w.accepted <- lcWireAccepted{sess: session, err: err}
	return err
}
func (w *lcWire) OnDelRtmpPubSession(session *rtmp.ServerSession) { w.sm.OnDelRtmpPubSession(session) }
func (w *lcWire) OnNewRtmpSubSession(session *rtmp.ServerSession) error {
	return w.sm.OnNewRtmpSubSession(session)
}
func (w *lcWire) OnDelRtmpSubSession(session *rtmp.ServerSession) { w.sm.OnDelRtmpSubSession(session) }

// publish connects a wire publisher and returns what the ServerManager answered to its publish.
func (w *lcWire) publish(x string, s *lcSession, stream string, register func(string, *lcSession)) error {
	s.push = rtmp.NewPushSession(func(o *rtmp.PushSessionOption) { o.PushTimeoutMs = 3000 })
	w.onPub = func(session *rtmp.ServerSession) {
		s.wsess = session
		s.key = session.UniqueKey()
		register(x, s)
	}
	startErr := s.push.Start("rtmp://" + w.ln.Addr().String() + "/live/" + stream)
	select {
	case s.done = <-w.dones:
	case <-time.After(3 * time.Second):
	}
	var acc lcWireAccepted
	select {
	case acc = <-w.accepted:
	case <-time.After(3 * time.Second):
		if startErr != nil {
			return startErr
		}
		return fmt.Errorf("wire publish: no publish callback")
	}
	if acc.err != nil {
		// refused: the server's routine closes the connection and ends without reporting a departure
		if s.done != nil {
			select {
			case <-s.done:
			case <-time.After(3 * time.Second):
			}
		}
		s.push.Dispose()
		return acc.err
	}
	s.wbase = acc.sess.GetStat().ReadBytesSum
	return nil
}

// ---- stub web hook: receives the JSON posts of lal's HttpNotify worker

type lcWebHook struct {
	Addr string
	srv  *http.Server
	ln   net.Listener
}

func (w *lcWebHook) Close() { w.srv.Close() }

func newLcWebHook(nh *lcNotify, stream string) *lcWebHook {
	ln, err := net.Listen("tcp", "127.0.0.1:0")
	if err != nil {
		return nil
	}
	mux := http.NewServeMux()
	mux.HandleFunc("/", func(rw http.ResponseWriter, r *http.Request) {
		body, _ := io.ReadAll(r.Body)
		var m map[string]interface{}
		_ = json.Unmarshal(body, &m)
		str := func(k string) string { v, _ := m[k].(string); return v }
		ev := strings.TrimPrefix(r.URL.Path, "/on_")
		switch ev {
		case "hls_make_ts":
			if e := str("event"); strings.HasPrefix(e, "verif-marker") {
				nh.marker <- e
			}
		case "pub_start", "pub_stop", "sub_start", "sub_stop", "relay_pull_start", "relay_pull_stop":
			name := strings.Replace(ev, "relay_pull", "pull", 1)
			id := str("session_id")
			if str("stream_name") != stream {
				id = "wrong-stream:" + id // no behaviour of the specification contains such an id
			}
			nh.add(name, id)
		}
		rw.WriteHeader(200)
	})
	w := &lcWebHook{Addr: ln.Addr().String(), ln: ln, srv: &http.Server{Handler: mux}}
	go w.srv.Serve(ln)
	return w
}

// lcRtspRequest sends one request on the command connection of an RTSP session and waits for the response
// with its CSeq.
func lcRtspRequest(s *lcSession, reqLine string) bool {
	s.cseq++
	mark := []byte(fmt.Sprintf("CSeq: %d\r\n", s.cseq))
	s.conn.Feed([]byte(reqLine + string(mark) + "\r\n"))
	var got []byte
	ok := waitFor(3*time.Second, func() bool {
		b, _ := s.conn.Drain()
		got = append(got, b...)
		if s.keep != nil {
			*s.keep = append(*s.keep, b...)
		}
		return bytes.Contains(got, mark)
	})
	return ok
}

package drv

import (
	"bufio"
	"encoding/json"
	"fmt"
	"io"
	"net"
	"os"
	"strings"
	"sync/atomic"
	"time"

	"github.com/q191201771/lal/pkg/base"
	"github.com/q191201771/lal/pkg/httpflv"
	"github.com/q191201771/lal/pkg/remux"
	"github.com/q191201771/lal/pkg/rtmp"
	"github.com/q191201771/lal/pkg/rtprtcp"
	"github.com/q191201771/lal/pkg/rtsp"
	"github.com/q191201771/lal/pkg/sdp"

	"lalverif/proj"
)

// lal as a client (C13): rtmp.PullSession / PushSession, rtsp.PullSession and httpflv.PullSession are
// pointed at a stub upstream on a loopback listener that plays the element sequence of the scenario
// (what an upstream server sends), then ends the stream.  Messages lal's RTMP / FLV client delivers
// are fed to a CustomizePubSession of the real ServerManager, as a relay pull would.  A scenario is
// over when every connection the client opened has been closed by it (or 2 s passed).

type sfStub struct {
	ln     net.Listener
	addr   string
	conns  int32 // accepted so far
	active int32 // being played
}

// sfLoopback returns a loopback address out of 127.0.0.0/8: thousands of short connections per minute to
// one address run the machine out of ephemeral ports (TIME_WAIT); the whole /8 is local on Linux.
var sfLoopCtr uint32

func sfLoopback() string {
	n := atomic.AddUint32(&sfLoopCtr, 1)*2654435761 + uint32(os.Getpid())*40503
	return fmt.Sprintf("127.%d.%d.%d", 1+(n>>16)%250, (n>>8)%250, 1+n%250)
}

func newSfStub(play func(c net.Conn, idx int)) (*sfStub, error) {
	var ln net.Listener
	var err error
	for try := 0; try < 8; try++ {
		if ln, err = net.Listen("tcp", sfLoopback()+":0"); err == nil {
			break
		}
	}
	if err != nil {
		return nil, err
	}
	s := &sfStub{ln: ln, addr: ln.Addr().String()}
	go func() {
		for {
			c, err := ln.Accept()
			if err != nil {
				return
			}
			atomic.AddInt32(&s.active, 1)
			idx := int(atomic.AddInt32(&s.conns, 1))
			if idx > 6 { // redirect / re-authentication loops end here
				c.Close()
				atomic.AddInt32(&s.active, -1)
				continue
			}
			go func() {
				defer atomic.AddInt32(&s.active, -1)
				play(c, idx)
			}()
		}
	}()
	return s, nil
}

// finish ends the stream (FIN) and waits until the client has closed its side.
func sfStubFinish(c net.Conn, drained chan struct{}, patience time.Duration) {
	if tc, ok := c.(*net.TCPConn); ok {
		tc.CloseWrite()
	}
	if drained == nil {
		drained = make(chan struct{})
		go func() { io.Copy(io.Discard, c); close(drained) }()
	}
	select {
	case <-drained:
	case <-time.After(patience):
	}
	c.Close()
}

func (s *sfStub) wait(first time.Duration) {
	// the client connects asynchronously: wait for the first connection, then until no connection is being
	// played for a moment (a reconnect may follow the end of a connection)
	dl := time.Now().Add(first)
	for atomic.LoadInt32(&s.conns) == 0 && time.Now().Before(dl) {
		time.Sleep(50 * time.Microsecond)
	}
	quiet := 0
	for end := time.Now().Add(20 * time.Second); quiet < 4 && time.Now().Before(end); {
		if atomic.LoadInt32(&s.active) == 0 {
			quiet++
		} else {
			quiet = 0
		}
		time.Sleep(200 * time.Microsecond)
	}
	s.ln.Close()
}

func sfReadHttpHead(r *bufio.Reader, c net.Conn, wait time.Duration) (method, cseq string, ok bool) {
	c.SetReadDeadline(time.Now().Add(wait))
	defer c.SetReadDeadline(time.Time{})
	cl := 0
	first := true
	for {
		line, err := r.ReadString('\n')
		if err != nil {
			return "", "", false
		}
		line = strings.TrimRight(line, "\r\n")
		if first {
			if line == "" {
				continue
			}
			method = strings.SplitN(line, " ", 2)[0]
			first = false
			continue
		}
		if line == "" {
			break
		}
		if i := strings.IndexByte(line, ':'); i > 0 {
			k, v := strings.ToLower(strings.TrimSpace(line[:i])), strings.TrimSpace(line[i+1:])
			if k == "cseq" {
				cseq = v
			}
			if k == "content-length" {
				fmt.Sscanf(v, "%d", &cl)
			}
		}
	}
	if cl > 0 {
		io.CopyN(io.Discard, r, int64(cl))
	}
	return method, cseq, true
}

func sfUpstreamSdp(cls string) string {
	s := sfGoodSdp
	switch cls {
	case "hevc":
		s.V = "hevc"
	case "clock0":
		s.Vr, s.Ar = "0", "0"
	case "nocontrol":
		s.Ctl = "none"
	case "abscontrol":
		s.Ctl = "abs"
	case "garbage", "empty", "m100", "nom", "noeq":
		s.Shape = cls
	case "videoonly":
		s.A = "none"
	case "shortsets":
		s.Vf, s.Af = "short", "cfg1"
	}
	return proj.SfSdpText(&s)
}

type sfRtspClientObs struct{ n int32 }

func (o *sfRtspClientObs) OnSdp(sdpCtx sdp.LogicContext)      {}
func (o *sfRtspClientObs) OnRtpPacket(pkt rtprtcp.RtpPacket) { atomic.AddInt32(&o.n, 1) }
func (o *sfRtspClientObs) OnAvPacket(pkt base.AvPacket)       { atomic.AddInt32(&o.n, 1) }

// playClient runs one upstream script against a fresh client session; res = "ok" | "err" | "pending".
func (e *sfEnv) playClient(proto, sdpCls, stream string, els []sfEl) (res string, note string) {
	sm := e.server()
	var stub *sfStub
	var err error
	switch {
	case strings.HasPrefix(proto, "rtmp"):
		stub, err = newSfStub(func(c net.Conn, idx int) {
			c.SetWriteDeadline(time.Now().Add(5 * time.Second))
			c.SetReadDeadline(time.Now().Add(2 * time.Second))
			io.ReadFull(c, make([]byte, 1537)) // C0 C1
			cs := 128
			for i := range els {
				b, ncs := proj.SfRtmpElem(els[i].A, cs)
				c.Write(b)
				if ncs > 0 {
					cs = ncs
				}
				if strings.HasPrefix(els[i].A, "hs_") {
					// a server sends its first message after C2: lal's ReadS2 reads up to one byte more than S2
					// when more is already there (a framing slip, not a crash; reported, not judged)
					c.SetReadDeadline(time.Now().Add(100 * time.Millisecond))
					io.ReadFull(c, make([]byte, 1536))
					time.Sleep(2 * time.Millisecond)
				}
			}
			c.SetReadDeadline(time.Time{})
			sfStubFinish(c, nil, 2*time.Second)
		})
	case strings.HasPrefix(proto, "rtsp"):
		body := sfUpstreamSdp(sdpCls)
		stub, err = newSfStub(func(c net.Conn, idx int) {
			c.SetWriteDeadline(time.Now().Add(5 * time.Second))
			r := bufio.NewReader(c)
			played := false
			for i := range els {
				wait := 2 * time.Second
				if played {
					wait = 30 * time.Millisecond // after PLAY the client need not ask anything
				}
				method, cseq, ok := sfReadHttpHead(r, c, wait)
				if !ok && !played {
					break
				}
				if method == "PLAY" {
					played = true
				}
				c.Write(proj.SfRtspReply(els[i].A, method, cseq, body))
			}
			// lal's interleaved read loop never consumes a byte that is not "$" (it spins until the session is
			// disposed): such a client does not close by itself.  Not a termination, so not judged; do not wait long.
			sfStubFinish(c, nil, 250*time.Millisecond)
		})
	default:
		stub, err = newSfStub(func(c net.Conn, idx int) {
			c.SetWriteDeadline(time.Now().Add(5 * time.Second))
			r := bufio.NewReader(c)
			sfReadHttpHead(r, c, 2*time.Second)
			self := "http://" + c.LocalAddr().String() + "/live/again.flv"
			for i := range els {
				c.Write(proj.SfFlvUpstream(els[i].K, els[i].A, els[i].N, self))
			}
			sfStubFinish(c, nil, 2*time.Second)
		})
	}
	if err != nil {
		return "err", "listen: " + err.Error()
	}
	ctx, cerr := sm.AddCustomizePubSession(stream)
	if cerr == nil {
		defer sm.DelCustomizePubSession(ctx)
	}
	done := make(chan error, 1)
	var dispose func()
	switch proto {
	case "rtmp_pull":
		s := rtmp.NewPullSession(func(o *rtmp.PullSessionOption) { o.PullTimeoutMs = 2500; o.ReadAvTimeoutMs = 2500 }).
			WithOnReadRtmpAvMsg(func(msg base.RtmpMsg) {
				if cerr == nil {
					_ = ctx.FeedRtmpMsg(msg.Clone())
				}
			})
		go func() { done <- s.Start("rtmp://" + stub.addr + "/live/" + stream) }()
		dispose = func() { s.Dispose() }
	case "rtmp_push":
		s := rtmp.NewPushSession(func(o *rtmp.PushSessionOption) { o.PushTimeoutMs = 2500 })
		go func() { done <- s.Start("rtmp://" + stub.addr + "/live/" + stream) }()
		dispose = func() { s.Dispose() }
	case "rtsp_tcp", "rtsp_udp":
		s := rtsp.NewPullSession(&sfRtspClientObs{}, func(o *rtsp.PullSessionOption) { o.PullTimeoutMs = 2500; o.OverTcp = proto == "rtsp_tcp" })
		go func() { done <- s.Start("rtsp://" + stub.addr + "/live/" + stream) }()
		dispose = func() { s.Dispose() }
	default:
		s := httpflv.NewPullSession(func(o *httpflv.PullSessionOption) { o.PullTimeoutMs = 2500; o.ReadTimeoutMs = 2500 }).
			WithOnReadFlvTag(func(tag httpflv.Tag) {
				if cerr == nil && (tag.Header.Type == 8 || tag.Header.Type == 9 || tag.Header.Type == 18) {
					_ = ctx.FeedRtmpMsg(remux.FlvTag2RtmpMsg(tag))
				}
			})
		go func() { done <- s.Start("http://" + stub.addr + "/live/" + stream + ".flv") }()
		dispose = func() { s.Dispose() }
	}
	stub.wait(2 * time.Second)
	select {
	case err := <-done:
		if err == nil {
			res = "ok"
		} else {
			res = "err"
		}
	case <-time.After(100 * time.Millisecond):
		res = "pending" // the session call still waits for its own timeout; its connection is gone
	}
	func() {
		defer func() { recover() }() // Dispose of a session that never connected is not what is judged
		dispose()
	}()
	return
}

var sfValidScript = map[string][]sfEl{
	"rtmp_pull": {{K: "rtmp", A: "hs_ok"}, {K: "rtmp", A: "connect_ok"}, {K: "rtmp", A: "create_ok"}, {K: "rtmp", A: "play_ok"}},
	"rtmp_push": {{K: "rtmp", A: "hs_ok"}, {K: "rtmp", A: "connect_ok"}, {K: "rtmp", A: "create_ok"}, {K: "rtmp", A: "publish_ok"}},
	"rtsp_tcp":  {{K: "rtsp", A: "ok"}, {K: "rtsp", A: "ok"}, {K: "rtsp", A: "ok"}, {K: "rtsp", A: "ok"}, {K: "rtsp", A: "ok"}},
	"rtsp_udp":  {{K: "rtsp", A: "ok_udp"}, {K: "rtsp", A: "ok_udp"}, {K: "rtsp", A: "ok_udp"}, {K: "rtsp", A: "ok_udp"}, {K: "rtsp", A: "ok_udp"}},
	"flv_pull":  {{K: "st", A: "ok"}, {K: "fh", A: "ok"}, {K: "tag", A: "meta"}},
}

func (e *sfEnv) runClient(sc *sfScenario, end M) (obs []sfObs) {
	proto := sc.Cfg["proto"]
	live := fmt.Sprintf("c%d", sc.Sc)
	by := e.newPeer("by", false)
	byOk := sfOk(by.send(sfReq("ANNOUNCE", sfURL(live), "1", nil, proj.SfSdpText(&sfGoodSdp))))
	var els []sfEl
	for _, raw := range sc.Steps {
		var el sfEl
		json.Unmarshal(raw, &el)
		els = append(els, el)
	}
	res, note := e.playClient(proto, sc.Cfg["sdp"], fmt.Sprintf("u%d", sc.Sc), els)
	for range els {
		obs = append(obs, sfObs{Codes: []int{}, Alive: true})
	}
	end["res"] = res
	end["note"] = note
	// a well-formed upstream is still pulled from / pushed to, the bystander is untouched
	res2 := ""
	for try := 0; try < 3 && res2 != "ok"; try++ { // under load the call may still be returning when we look
		res2, _ = e.playClient(proto, "good", fmt.Sprintf("v%d_%d", sc.Sc, try), sfValidScript[proto])
	}
	end["second"] = res2 == "ok"
	end["bystander"] = byOk && by.send(nil).Alive
	by.close()
	return
}

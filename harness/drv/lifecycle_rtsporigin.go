package drv

import (
	"bufio"
	"fmt"
	"io"
	"net"
	"strconv"
	"strings"
	"sync"
	"time"
)

// RTSP origin of relay pulls in the lifecycle driver (C03 / C17, configurations with PullRtsp): the gated listener
// is the same as for the RTMP origin (lcOrigin: accept, count, park); "the origin accepts the attempt" means that the
// parked connection is served by this stub, which answers what rtsp.PullSession asks - OPTIONS, DESCRIBE (H.264 + AAC),
// SETUP of both tracks (interleaved: the pull runs over TCP), PLAY - and then stays silent until the connection ends.
// It is written against the wire, with no lal code behind it.

const lcRtspOriginSdp = "v=0\r\n" +
	"o=- 0 0 IN IP4 127.0.0.1\r\n" +
	"s=origin\r\n" +
	"c=IN IP4 127.0.0.1\r\n" +
	"t=0 0\r\n" +
	"a=tool:libavformat 57.83.100\r\n" +
	"m=video 0 RTP/AVP 96\r\n" +
	"a=rtpmap:96 H264/90000\r\n" +
	"a=fmtp:96 packetization-mode=1; sprop-parameter-sets=Z2QAIKzZQMApsBEAAAMAAQAAAwAyDxgxlg==,aOvssiw=; profile-level-id=640020\r\n" +
	"a=control:streamid=0\r\n" +
	"m=audio 0 RTP/AVP 97\r\n" +
	"b=AS:128\r\n" +
	"a=rtpmap:97 MPEG4-GENERIC/44100/2\r\n" +
	"a=fmtp:97 profile-level-id=1;mode=AAC-hbr;sizelength=13;indexlength=3;indexdeltalength=3; config=1210\r\n" +
	"a=control:streamid=1\r\n"

// lcSdpOwner projects what an RTSP player has received on its connection to whose description it was given: the
// session-name line (s=) of the first description in the bytes - the origin stub's says "origin" (-> "pull"), the
// ANNOUNCE of the driver's RTSP publisher x says "pub-x" (-> x); "" when no description has arrived.
func lcSdpOwner(b []byte) string {
	s := string(b)
	k := strings.Index(s, "application/sdp")
	if k < 0 {
		return ""
	}
	if k2 := strings.Index(s[k:], "\r\n\r\n"); k2 >= 0 {
		for _, line := range strings.Split(s[k+k2+4:], "\n") {
			line = strings.TrimRight(line, "\r")
			if strings.HasPrefix(line, "s=") {
				switch name := line[2:]; {
				case name == "origin":
					return "pull"
				case strings.HasPrefix(name, "pub-"):
					return name[4:]
				default:
					return "other:" + name
				}
			}
		}
	}
	return "other"
}

// lcRtspOriginServe serves one connection until it ends.  played is closed when the PLAY request has been answered (or,
// with stall, when the first SETUP request has arrived); getParam: the origin advertises GET_PARAMETER (lal then runs the
// keep-alive variant of its read loop).
// stall: the origin goes silent after the description - it reads the first SETUP and never answers.  lal attaches an RTSP
// pull when the description arrives, so everything that follows in the scenario (stop, kick, auto-stop, a publisher, the
// origin hanging up, shutdown) then meets a pull session that is attached but still being set up; what is observed must
// be the same as for one that is playing.
func lcRtspOriginServe(c net.Conn, getParam bool, stall bool, played chan struct{}) {
	var once sync.Once
	r := bufio.NewReader(c)
	for {
		b, err := r.Peek(1)
		if err != nil {
			return
		}
		if b[0] == '$' {
			// interleaved data from the puller (its RTCP / dummy packets): skipped
			hdr := make([]byte, 4)
			if _, err := io.ReadFull(r, hdr); err != nil {
				return
			}
			if _, err := r.Discard(int(hdr[2])<<8 | int(hdr[3])); err != nil {
				return
			}
			continue
		}
		line, err := r.ReadString('\n')
		if err != nil {
			return
		}
		fields := strings.Fields(line)
		if len(fields) < 2 {
			continue
		}
		method, uri := fields[0], fields[1]
		if stall && method == "SETUP" {
			once.Do(func() { close(played) })
			_, _ = io.Copy(io.Discard, r) // until the connection ends
			return
		}
		cseq, clen, transport := "", 0, ""
		for {
			h, err := r.ReadString('\n')
			if err != nil {
				return
			}
			h = strings.TrimRight(h, "\r\n")
			if h == "" {
				break
			}
			if k := strings.IndexByte(h, ':'); k > 0 {
				name, val := strings.ToLower(strings.TrimSpace(h[:k])), strings.TrimSpace(h[k+1:])
				switch name {
				case "cseq":
					cseq = val
				case "content-length":
					clen, _ = strconv.Atoi(val)
				case "transport":
					transport = val
				}
			}
		}
		if clen > 0 {
			if _, err := r.Discard(clen); err != nil {
				return
			}
		}
		resp := "RTSP/1.0 200 OK\r\nCSeq: " + cseq + "\r\nServer: lalverif-origin\r\n"
		body := ""
		switch method {
		case "OPTIONS":
			pub := "OPTIONS, DESCRIBE, SETUP, PLAY, TEARDOWN"
			if getParam {
				pub += ", GET_PARAMETER"
			}
			resp += "Public: " + pub + "\r\n"
		case "DESCRIBE":
			body = lcRtspOriginSdp
			resp += "Content-Base: " + uri + "/\r\nContent-Type: application/sdp\r\n" + fmt.Sprintf("Content-Length: %d\r\n", len(body))
		case "SETUP":
			resp += "Transport: " + transport + "\r\nSession: 47112344;timeout=60\r\n"
		case "PLAY":
			resp += "Range: npt=0.000-\r\nSession: 47112344\r\n"
		default: // GET_PARAMETER, TEARDOWN: acknowledged
			resp += "Session: 47112344\r\n"
		}
		if _, err := c.Write([]byte(resp + "\r\n" + body)); err != nil {
			return
		}
		if method == "PLAY" {
			once.Do(func() { close(played) })
		}
	}
}

// lcPeerClosed reports whether the peer closes the connection within d (data that arrives meanwhile is skipped).
func lcPeerClosed(c net.Conn, d time.Duration) bool {
	_ = c.SetReadDeadline(time.Now().Add(d))
	defer c.SetReadDeadline(time.Time{})
	buf := make([]byte, 512)
	for {
		if _, err := c.Read(buf); err != nil {
			if ne, ok := err.(net.Error); ok && ne.Timeout() {
				return false
			}
			return true
		}
	}
}

// lcPsStaleSend: the device of a GB28181 session (TCP mode) that has ended sends three more access units.  On a connection that
// has been closed the second write fails and nothing can arrive; if every write went through the connection is
// still served, and what lal does with the units needs a moment to show.
func lcPsStaleSend(s *lcSession) {
	if s.psConn != nil {
		ok := 0
		for k := int64(0); k < 3; k++ {
			_ = s.psConn.SetWriteDeadline(time.Now().Add(time.Second))
			if _, err := s.psConn.Write(s.psSeq.Good(90000 + 3600*k)); err == nil {
				ok++
			}
			time.Sleep(10 * time.Millisecond)
		}
		if ok == 3 {
			time.Sleep(150 * time.Millisecond)
		}
		return
	}
	// (UDP mode: the port it was given may belong to a session of another scenario by now - nothing is sent)
}

// lcRtmpLateClose: the peer of an RTMP client session (relay pull origin, relay push target) completes the handshake,
// takes the client's first commands (set chunk size, connect) without answering, and hangs up - the attempt fails after
// the handshake instead of before it.  Written against the wire.
func lcRtmpLateClose(c net.Conn) {
	defer c.Close()
	_ = c.SetDeadline(time.Now().Add(3 * time.Second))
	c0c1 := make([]byte, 1537)
	if _, err := io.ReadFull(c, c0c1); err != nil {
		return
	}
	s := make([]byte, 1+1536+1536)
	s[0] = 3
	for i := 9; i < 1537; i++ {
		s[i] = byte(i * 7)
	}
	copy(s[1537:], c0c1[1:]) // S2 echoes C1
	if _, err := c.Write(s); err != nil {
		return
	}
	if _, err := io.ReadFull(c, make([]byte, 1536)); err != nil { // C2
		return
	}
	// set chunk size (16 bytes) + the connect command: more than 100 bytes
	got, buf := 0, make([]byte, 4096)
	_ = c.SetReadDeadline(time.Now().Add(time.Second))
	for got < 100 {
		n, err := c.Read(buf)
		got += n
		if err != nil {
			break
		}
	}
}

// lcRtspLateClose: an RTSP origin answers the first request (OPTIONS) and hangs up.
func lcRtspLateClose(c net.Conn) {
	defer c.Close()
	_ = c.SetDeadline(time.Now().Add(3 * time.Second))
	r := bufio.NewReader(c)
	cseq := ""
	for {
		h, err := r.ReadString('\n')
		if err != nil {
			return
		}
		h = strings.TrimRight(h, "\r\n")
		if h == "" {
			break
		}
		if strings.HasPrefix(strings.ToLower(h), "cseq:") {
			cseq = strings.TrimSpace(h[5:])
		}
	}
	_, _ = c.Write([]byte("RTSP/1.0 200 OK\r\nCSeq: " + cseq + "\r\nPublic: OPTIONS, DESCRIBE, SETUP, PLAY, TEARDOWN\r\n\r\n"))
}

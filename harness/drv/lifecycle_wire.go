//go:build verif_wire

package drv

import (
	"net"

	"github.com/q191201771/lal/pkg/rtmp"
)

// needs the hook (*rtmp.Server).VerifHandleTcpConnect (build tag verif in /repo)
func init() {
	lcWireServe = func(srv *rtmp.Server, conn net.Conn) { srv.VerifHandleTcpConnect(conn) }
}

package drv

import (
	"bytes"
	"encoding/json"
	"fmt"
	"math/rand"
	"os"
	"regexp"
	"runtime"
	"strings"
	"sync"
	"sync/atomic"
	"time"

	"github.com/q191201771/lal/pkg/base"
	"github.com/q191201771/lal/pkg/httpflv"
	"github.com/q191201771/lal/pkg/httpts"
	"github.com/q191201771/lal/pkg/logic"
	"github.com/q191201771/lal/pkg/rtmp"
	"github.com/q191201771/lal/pkg/rtsp"
)

// Driver "stress" (C20): a real logic.ServerManager (no listeners) under concurrent churn: publishers
// of several kinds arriving / leaving / re-publishing on a few stream names, RTMP / HTTP-FLV / HTTP-TS
// subscribers, media, kick / relay-pull / stat API calls, the tick, finally ServerManager.Dispose.
// Every call into lal is timed by a watchdog; the run happens in a child process so that a fatal
// error of the runtime (concurrent map writes, send on closed channel) or a panic is an observation.
// One event per run: {ev:"Stress", calls, maxLatencyUs, died, crash, frame, hung, hungAt}.

type stressScenario struct {
	Sc      int `json:"sc"`
	Ms      int `json:"ms"`      // duration of the churn
	Workers int `json:"workers"` // goroutines per role
	Streams int `json:"streams"`
	BoundMs int `json:"boundMs"` // watchdog bound per call
}

func init() { Registry["stress"] = stressDriver }

type stressSlot struct {
	start int64 // unix nano of the call in flight, 0 = none
	name  atomic.Value
}

type stressRun struct {
	sm      *logic.ServerManager
	sc      *stressScenario
	calls   int64
	maxLat  int64
	slots   []*stressSlot
	stop    int32
	origin  *lcOrigin
	streams []string
}

// call runs one call into lal under the watchdog of slot w.
func (r *stressRun) call(w int, name string, fn func()) {
	s := r.slots[w]
	s.name.Store(name)
	t0 := time.Now()
	atomic.StoreInt64(&s.start, t0.UnixNano())
	fn()
	atomic.StoreInt64(&s.start, 0)
	d := time.Since(t0).Microseconds()
	atomic.AddInt64(&r.calls, 1)
	for {
		m := atomic.LoadInt64(&r.maxLat)
		if d <= m || atomic.CompareAndSwapInt64(&r.maxLat, m, d) {
			break
		}
	}
}

func (r *stressRun) stopped() bool { return atomic.LoadInt32(&r.stop) != 0 }

var stressGoRe = regexp.MustCompile(`(?m)^goroutine (\d+) \[([^\]]+)\]:`)

// stressBlocked lists goroutine id -> innermost lal frame for goroutines that wait for a mutex or in
// a channel send and have a lal frame on their stack.
func stressBlocked() map[string]string {
	buf := make([]byte, 1<<24)
	n := runtime.Stack(buf, true)
	out := map[string]string{}
	for _, blk := range strings.Split(string(buf[:n]), "\n\n") {
		m := stressGoRe.FindStringSubmatch(blk)
		if m == nil {
			continue
		}
		st := m[2]
		if !(strings.HasPrefix(st, "sync.Mutex.Lock") || strings.HasPrefix(st, "semacquire") || strings.HasPrefix(st, "chan send")) {
			continue
		}
		for _, l := range strings.Split(blk, "\n") {
			if strings.HasPrefix(l, "github.com/q191201771/lal/pkg/") {
				f := strings.TrimPrefix(l, "github.com/q191201771/lal/pkg/")
				if i := strings.LastIndex(f, "("); i > 0 {
					f = f[:i]
				}
				out[m[1]] = st + " in " + f
				break
			}
		}
	}
	return out
}

func stressDriver(env *Env) error {
	tw, err := NewTraceWriter(env.Out)
	if err != nil {
		return err
	}
	defer tw.Close()
	var scs []*stressScenario
	if err := ReadScenarios(env.In, func(raw json.RawMessage) error {
		var sc stressScenario
		if err := json.Unmarshal(raw, &sc); err != nil {
			return err
		}
		scs = append(scs, &sc)
		return nil
	}); err != nil {
		return err
	}
	for _, sc := range scs {
		if env.Child != "" {
			stressChild(sc, env.Seed, tw)
			continue
		}
		tw.Emit(M{"ev": "reset", "sc": sc.Sc})
		lines, died, stderr := RunChild("stress", sc, env.Seed, sc.Ms/1000+sc.BoundMs/1000+60)
		var got M
		for _, l := range lines {
			var m M
			if json.Unmarshal(l, &m) == nil && (m["ev"] == "Stress" || m["ev"] == "inconclusive") {
				got = m
			}
		}
		if got != nil && got["ev"] == "inconclusive" {
			return fmt.Errorf("stress run inconclusive: %v", got["why"])
		}
		if got != nil && (got["hung"] == true || !died) {
			tw.Emit(got)
			continue
		}
		kind, frame := PanicSig(stderr)
		if kind == "timeout" || (kind == "unknown" && frame == "") {
			// the child was killed or ended without a Go crash dump: nothing was observed about lal
			return fmt.Errorf("stress child ended without a verdict (%s): %s", kind, stressTail(stderr, 600))
		}
		fmt.Fprintln(os.Stderr, "stress child died:\n"+stressTail(stderr, 3000))
		tw.Emit(M{"ev": "Stress", "sc": sc.Sc, "calls": 1, "maxLatencyUs": 0, "died": true, "crash": kind, "frame": frame,
			"hung": false, "hungAt": ""})
	}
	return nil
}

func stressTail(s string, n int) string {
	if len(s) > n {
		return s[len(s)-n:]
	}
	return s
}

func stressChild(sc *stressScenario, seed int64, tw *TraceWriter) {
	if sc.Workers <= 0 {
		sc.Workers = 2
	}
	if sc.Streams <= 0 {
		sc.Streams = 3
	}
	if sc.BoundMs <= 0 {
		sc.BoundMs = 10000
	}
	base.LogicCheckSessionAliveIntervalSec = 7
	conf := `{"conf_version":"v0.4.1","rtmp":{"enable":false,"gop_num":1},"httpflv":{"enable":false,"gop_num":1},
	 "httpts":{"enable":true,"gop_num":1},"rtsp":{"enable":true},
	 "log":{"level":5,"filename":"","is_to_stdout":false,"assert_behavior":1}}`
	r := &stressRun{sc: sc}
	nh := &lcNotify{marker: make(chan string, 1024), name: func(id string) string { return id }}
	r.sm = logic.NewServerManager(func(option *logic.Option) {
		option.ConfRawContent = []byte(conf)
		option.NotifyHandler = nh
	})
	r.origin = newLcOrigin()
	for i := 0; i < sc.Streams; i++ {
		r.streams = append(r.streams, fmt.Sprintf("st%d", i))
	}
	type role struct {
		name string
		fn   func(w int, rng *rand.Rand)
	}
	roles := []role{{"rtmpPub", r.rtmpPub}, {"custPub", r.custPub}, {"rtspPub", r.rtspPub}, {"rtmpSub", r.rtmpSub},
		{"flvSub", r.flvSub}, {"tsSub", r.tsSub}, {"api", r.api}, {"stat", r.stat}}
	nslots := len(roles)*sc.Workers + 3
	for i := 0; i < nslots; i++ {
		r.slots = append(r.slots, &stressSlot{})
	}
	// watchdog
	verdict := make(chan M, 1)
	go func() {
		bound := time.Duration(sc.BoundMs) * time.Millisecond
		for {
			time.Sleep(50 * time.Millisecond)
			now := time.Now().UnixNano()
			for _, s := range r.slots {
				st := atomic.LoadInt64(&s.start)
				if st == 0 || time.Duration(now-st) < bound {
					continue
				}
				name, _ := s.name.Load().(string)
				b1 := stressBlocked()
				time.Sleep(time.Second)
				b2 := stressBlocked()
				if atomic.LoadInt64(&s.start) != st {
					verdict <- M{"ev": "inconclusive", "why": "call " + name + " exceeded the bound but returned (machine stalled?)"}
					return
				}
				var frames []string
				for id, f := range b2 {
					if b1[id] == f {
						frames = append(frames, f)
					}
				}
				if len(frames) == 0 {
					verdict <- M{"ev": "inconclusive", "why": "call " + name + " exceeded the bound, no goroutine waits inside lal"}
					return
				}
				buf := make([]byte, 1<<22)
				n := runtime.Stack(buf, true)
				fmt.Fprintf(os.Stderr, "STRESS-HANG in %s; goroutines waiting inside lal: %v\n%s\n", name, frames, buf[:n])
				verdict <- M{"ev": "Stress", "sc": sc.Sc, "calls": atomic.LoadInt64(&r.calls), "maxLatencyUs": atomic.LoadInt64(&r.maxLat),
					"died": false, "crash": "", "frame": frames[0], "hung": true, "hungAt": name}
				return
			}
		}
	}()
	done := make(chan struct{})
	go func() {
		var wg sync.WaitGroup
		slot := 0
		for _, ro := range roles {
			for k := 0; k < sc.Workers; k++ {
				wg.Add(1)
				go func(ro role, w int) {
					defer wg.Done()
					rng := rand.New(rand.NewSource(seed*1000 + int64(w)))
					for !r.stopped() {
						ro.fn(w, rng)
					}
				}(ro, slot)
				slot++
			}
		}
		// the tick and the origin of relay pulls
		wg.Add(2)
		go func(w int) {
			defer wg.Done()
			var n uint32
			for !r.stopped() {
				n++
				r.call(w, "VerifTick", func() { r.sm.VerifTick(n) })
				time.Sleep(2 * time.Millisecond)
			}
		}(slot)
		go func() {
			defer wg.Done()
			k := 0
			for !r.stopped() {
				r.origin.mu.Lock()
				var c interface{ Close() error }
				if len(r.origin.parked) > 0 {
					pc := r.origin.parked[0]
					r.origin.parked = r.origin.parked[1:]
					k++
					if k%2 == 0 {
						go func() { _ = rtmp.NewServerSession(nullObserver{}, pc).RunLoop() }()
						time.AfterFunc(30*time.Millisecond, func() { pc.Close() })
					} else {
						c = pc
					}
				}
				r.origin.mu.Unlock()
				if c != nil {
					c.Close()
				}
				time.Sleep(3 * time.Millisecond)
			}
		}()
		time.Sleep(time.Duration(sc.Ms) * time.Millisecond)
		// shutdown races with everything else, then the rest winds down
		r.call(slot+1, "Dispose", func() { r.sm.Dispose() })
		time.Sleep(20 * time.Millisecond)
		atomic.StoreInt32(&r.stop, 1)
		wg.Wait()
		close(done)
	}()
	select {
	case <-done:
		tw.Emit(M{"ev": "Stress", "sc": sc.Sc, "calls": atomic.LoadInt64(&r.calls), "maxLatencyUs": atomic.LoadInt64(&r.maxLat),
			"died": false, "crash": "", "frame": "", "hung": false, "hungAt": ""})
	case v := <-verdict:
		tw.Emit(v)
	}
	tw.Flush()
	r.origin.close()
}

func (r *stressRun) pick(rng *rand.Rand) string { return r.streams[rng.Intn(len(r.streams))] }

func stressMedia(i int) []base.RtmpMsg {
	return []base.RtmpMsg{BuildMsg(&AMsg{Id: i, T: "ash", Ha: 1}, 0, uint32(i*10)), BuildMsg(&AMsg{Id: i, T: "aud", Ha: 1}, 64, uint32(i*10))}
}

func (r *stressRun) rtmpPub(w int, rng *rand.Rand) {
	stream := r.pick(rng)
	s := rtmp.NewServerSession(nullObserver{}, NewMemConn("p"))
	s.VerifSetIdentity("live", stream, "", true)
	var err error
	r.call(w, "OnNewRtmpPubSession", func() { err = r.sm.OnNewRtmpPubSession(s) })
	if err != nil {
		s.Dispose()
		return
	}
	n := 1 + rng.Intn(20)
	for i := 0; i < n && !r.stopped(); i++ {
		var g *logic.Group
		r.call(w, "GetGroup", func() { g = r.sm.GetGroup("live", stream) })
		if g != nil {
			for _, m := range stressMedia(i + 1) {
				m := m
				r.call(w, "OnReadRtmpAvMsg", func() { g.OnReadRtmpAvMsg(m) })
			}
		}
	}
	r.call(w, "OnDelRtmpPubSession", func() { r.sm.OnDelRtmpPubSession(s) })
	s.Dispose()
}

func (r *stressRun) custPub(w int, rng *rand.Rand) {
	stream := r.pick(rng)
	var ctx logic.ICustomizePubSessionContext
	var err error
	r.call(w, "AddCustomizePubSession", func() { ctx, err = r.sm.AddCustomizePubSession(stream) })
	if err != nil {
		time.Sleep(time.Millisecond)
		return
	}
	n := 1 + rng.Intn(20)
	for i := 0; i < n && !r.stopped(); i++ {
		for _, m := range stressMedia(i + 1) {
			m := m
			r.call(w, "FeedRtmpMsg", func() { _ = ctx.FeedRtmpMsg(m) })
		}
	}
	r.call(w, "DelCustomizePubSession", func() { r.sm.DelCustomizePubSession(ctx) })
}

// an RTSP publisher goes through the real per-connection routine of rtsp.Server
func (r *stressRun) rtspPub(w int, rng *rand.Rand) {
	stream := r.pick(rng)
	conn := NewMemConn("rp")
	srv := rtsp.NewServer("127.0.0.1:0", &lcRtspObserver{sm: r.sm, onPub: func(p *rtsp.PubSession) {}}, rtsp.ServerAuthConfig{})
	done := make(chan struct{})
	go func() { srv.VerifHandleTcpConnect(conn); close(done) }()
	sdpBody := "v=0\r\no=- 0 0 IN IP4 127.0.0.1\r\ns=x\r\nc=IN IP4 127.0.0.1\r\nt=0 0\r\nm=video 0 RTP/AVP 96\r\n" +
		"a=rtpmap:96 H264/90000\r\na=fmtp:96 packetization-mode=1\r\na=control:streamid=0\r\n"
	req := fmt.Sprintf("ANNOUNCE rtsp://127.0.0.1/live/%s RTSP/1.0\r\nCSeq: 1\r\nContent-Type: application/sdp\r\nContent-Length: %d\r\n\r\n%s",
		stream, len(sdpBody), sdpBody)
	conn.Feed([]byte(req))
	waitFor(500*time.Millisecond, func() bool {
		if b, _ := conn.Drain(); bytes.Contains(b, []byte("200 OK")) {
			return true
		}
		select {
		case <-done:
			return true
		default:
			return false
		}
	})
	time.Sleep(time.Duration(rng.Intn(5)) * time.Millisecond)
	conn.Close()
	r.call(w, "rtsp connection routine ends", func() {
		select {
		case <-done:
		case <-time.After(time.Duration(r.sc.BoundMs+5000) * time.Millisecond):
		}
	})
}

func (r *stressRun) rtmpSub(w int, rng *rand.Rand) {
	stream := r.pick(rng)
	c := NewMemConn("s")
	s := rtmp.NewServerSession(nullObserver{}, c)
	s.VerifSetIdentity("live", stream, "", false)
	r.call(w, "OnNewRtmpSubSession", func() { _ = r.sm.OnNewRtmpSubSession(s) })
	time.Sleep(time.Duration(rng.Intn(4)) * time.Millisecond)
	c.Drain()
	r.call(w, "OnDelRtmpSubSession", func() { r.sm.OnDelRtmpSubSession(s) })
	s.Dispose()
}

func (r *stressRun) flvSub(w int, rng *rand.Rand) {
	stream := r.pick(rng)
	c := NewMemConn("f")
	u, _ := base.ParseUrl("http://127.0.0.1/live/"+stream+".flv", 80)
	s := httpflv.NewSubSession(c, u, false, "")
	r.call(w, "OnNewHttpflvSubSession", func() { _ = r.sm.OnNewHttpflvSubSession(s) })
	time.Sleep(time.Duration(rng.Intn(4)) * time.Millisecond)
	c.Drain()
	r.call(w, "OnDelHttpflvSubSession", func() { r.sm.OnDelHttpflvSubSession(s) })
	s.Dispose()
}

func (r *stressRun) tsSub(w int, rng *rand.Rand) {
	stream := r.pick(rng)
	c := NewMemConn("t")
	u, _ := base.ParseUrl("http://127.0.0.1/live/"+stream+".ts", 80)
	s := httpts.NewSubSession(c, u, false, "")
	r.call(w, "OnNewHttptsSubSession", func() { _ = r.sm.OnNewHttptsSubSession(s) })
	time.Sleep(time.Duration(rng.Intn(4)) * time.Millisecond)
	c.Drain()
	r.call(w, "OnDelHttptsSubSession", func() { r.sm.OnDelHttptsSubSession(s) })
	s.Dispose()
}

func (r *stressRun) api(w int, rng *rand.Rand) {
	stream := r.pick(rng)
	switch rng.Intn(4) {
	case 0:
		var st *base.StatGroup
		r.call(w, "StatGroup", func() { st = r.sm.StatGroup(stream) })
		if st == nil {
			return
		}
		ids := []string{st.StatPub.SessionId, st.StatPull.SessionId}
		for _, s := range st.StatSubs {
			ids = append(ids, s.SessionId)
		}
		id := ids[rng.Intn(len(ids))]
		if id != "" {
			r.call(w, "CtrlKickSession", func() {
				r.sm.CtrlKickSession(base.ApiCtrlKickSessionReq{StreamName: stream, SessionId: id})
			})
		}
	case 1:
		r.call(w, "CtrlStartRelayPull", func() {
			r.sm.CtrlStartRelayPull(base.ApiCtrlStartRelayPullReq{
				Url: fmt.Sprintf("rtmp://%s/live/%s", r.origin.ln.Addr().String(), stream), StreamName: stream,
				PullTimeoutMs: 200, PullRetryNum: 1, AutoStopPullAfterNoOutMs: -1})
		})
	case 2:
		r.call(w, "CtrlStopRelayPull", func() { r.sm.CtrlStopRelayPull(stream) })
	case 3:
		r.call(w, "CtrlAddIpBlacklist", func() {
			r.sm.CtrlAddIpBlacklist(base.ApiCtrlAddIpBlacklistReq{Ip: "10.0.0.9", DurationSec: 1})
		})
	}
	time.Sleep(time.Duration(rng.Intn(3)) * time.Millisecond)
}

func (r *stressRun) stat(w int, rng *rand.Rand) {
	r.call(w, "StatAllGroup", func() { r.sm.StatAllGroup() })
	r.call(w, "StatLalInfo", func() { r.sm.StatLalInfo() })
	time.Sleep(time.Duration(rng.Intn(3)) * time.Millisecond)
}

package drv

import (
	"bytes"
	"encoding/base64"
	"encoding/hex"
	"encoding/json"
	"fmt"
	"os"
	"path/filepath"
	"strings"
	"time"
	_ "unsafe" // go:linkname below

	"github.com/q191201771/lal/pkg/base"
	"github.com/q191201771/lal/pkg/hls"
	"github.com/q191201771/lal/pkg/httpts"
	"github.com/q191201771/lal/pkg/logic"
	"github.com/q191201771/lal/pkg/remux"
	"github.com/q191201771/lal/pkg/rtmp"
	"github.com/q191201771/lal/pkg/rtprtcp"
	"github.com/q191201771/lal/pkg/rtsp"
	"github.com/q191201771/lal/pkg/sdp"

	"lalverif/proj"
)

// Driver "remuxout" (C06): RTMP messages are published through a real logic.Group with HTTP-TS
// subscribers on in-memory connections and (optionally) the HLS muxer writing to a scratch
// directory; the same messages are fed to a remux.Rtmp2RtspRemuxer.  Everything a consumer
// received is demultiplexed by the independent readers of harness/proj (TS/PES/PSI, Annex-B,
// ADTS, RTP payload formats) and projected to (unit id, offset, length) records; the decision is
// taken by spec/Trace_RemuxOut.tla.
//
// C16 (start-clean clause, cfg.rep): the same Group outlives its publisher.  "PubLeave" removes the publisher
// (Group.DelRtmpPubSession), "PubArrive" adds the next one with its own tracks (Group.AddRtmpPubSession); HTTP-TS
// subscribers stay attached or join in between, the HLS segments listed for each epoch are read when its
// publisher leaves, one RTSP subscriber joins per epoch.  Decided by spec/Trace_Republish.tla.

type roNal struct {
	T  string `json:"t"` // aud sps pps vps sei idr slice
	N  int    `json:"n"` // total bytes (position-coded kinds)
	V  int    `json:"v"` // parameter-set version
	Id int    `json:"id"`
}

type roMsg struct {
	K    string  `json:"k"` // vsh ash v a
	Ver  int     `json:"ver"`
	Sv   int     `json:"sv,omitempty"` // vsh: version of the sps (and vps) when it is not Ver - a header that changes the pps only
	Key  bool    `json:"key"`
	Cts  int     `json:"cts"`
	Nals []roNal `json:"nals"`
	N    int     `json:"n"`
	Id   int     `json:"id"`
	Asc  []int   `json:"asc"`
}

type roStep struct {
	Name string `json:"name"` // Join | JoinRtsp | DescR | PlayR | Pub | End | PubLeave | PubArrive
	C    string `json:"c"`
	M    *roMsg `json:"m"`
	Ts   uint32 `json:"ts"`
	// PubArrive (C16, republish epochs): the tracks of the next publisher of the same name
	V   string `json:"v"`
	A   string `json:"a"`
	Enh bool   `json:"enh"`
}

type roCfg struct {
	V      string `json:"v"` // avc hevc none
	A      string `json:"a"` // aac opus g711a g711u none
	Gop    int    `json:"gop"`
	Hls    bool   `json:"hls"`
	FragMs int    `json:"fragMs"`
	Rtsp   bool   `json:"rtsp"`
	Enh    bool   `json:"enh"` // H.265 in enhanced-RTMP form (ext header + fourcc hvc1)
	Rep    bool   `json:"rep"` // republish epochs (C16): PubLeave / PubArrive steps, no stand-alone RTSP remuxer
}

type roScenario struct {
	Sc    int      `json:"sc"`
	Cfg   roCfg    `json:"cfg"`
	Steps []roStep `json:"steps"`
}

var roHevcVps = []byte{0x40, 0x01, 0x0c, 0x01, 0xff, 0xff, 0x01, 0x60, 0x00, 0x00, 0x03, 0x00, 0x90, 0x00, 0x00, 0x03, 0x00, 0x00, 0x03, 0x00, 0x3f, 0xba, 0x02, 0x40}
var roHevcSps = []byte{0x42, 0x01, 0x01, 0x01, 0x60, 0x00, 0x00, 0x03, 0x00, 0x90, 0x00, 0x00, 0x03, 0x00, 0x00, 0x03, 0x00, 0x3f, 0xa0, 0x05, 0x02, 0x01, 0x71, 0xf2, 0xe5, 0xba, 0x4a, 0x4c, 0x2f, 0x01, 0x01, 0x00, 0x00, 0x03, 0x00, 0x01, 0x00, 0x00, 0x03, 0x00, 0x0f, 0x08}
var roHevcPps = []byte{0x44, 0x01, 0xc0, 0x73, 0xc1, 0x89}
var roHvccHead = []byte{0x01, 0x01, 0x60, 0x00, 0x00, 0x00, 0x90, 0x00, 0x00, 0x00, 0x00, 0x00, 0x3f, 0xf0, 0x00, 0xfc, 0xfd, 0xf8, 0xf8, 0x00, 0x00, 0x0f}

// AudioSpecificConfig pool: (object type, sampling index, channels)
// 4-7 (directed scenarios): 5.1 at 48 kHz, AAC Main 7.1 at 44.1 kHz, LTP stereo at 96 kHz, 4.0 at 7350 Hz
var roAscPool = map[int][]byte{1: {0x12, 0x10}, 2: {0x11, 0x90}, 3: {0x15, 0x88},
	4: {0x11, 0xb0}, 5: {0x0a, 0x38}, 6: {0x20, 0x10}, 7: {0x16, 0x20}}

func roAscFields(v int) []int {
	a := roAscPool[v]
	return []int{int(a[0] >> 3), int(a[0]&7)<<1 | int(a[1]>>7), int(a[1]>>3) & 0xf}
}

// roPs returns the bytes of parameter set t in version v.
func roPs(codec, t string, v int) []byte {
	var b []byte
	switch codec + "/" + t {
	case "avc/sps":
		b = realSps
	case "avc/pps":
		b = []byte{0x68, 0xce, 0x3c, 0x80}
	case "hevc/vps":
		b = roHevcVps
	case "hevc/sps":
		b = roHevcSps
	case "hevc/pps":
		b = roHevcPps
	default:
		return nil
	}
	return append(append([]byte{}, b...), byte(0x80|v))
}

// roNalHdr: the NAL header of an abstract unit kind.  A kind stands for several concrete NAL unit types; which
// one a unit gets depends on its id, so that over the scenarios every type of the kind occurs (H.265 slices of
// sub-layer non-reference / reference, TSA, STSA, RADL, RASL pictures = types 0..9; H.265 key pictures IDR_W_RADL,
// IDR_N_LP, CRA = 19, 20, 21; H.264 non-IDR slices with every nal_ref_idc).
func roNalHdr(codec, t string, id int) []byte {
	if id < 0 {
		id = -id
	}
	if codec == "avc" {
		switch t {
		case "idr":
			return []byte{[]byte{0x65, 0x25, 0x45}[id%3]}
		case "slice":
			return []byte{[]byte{0x41, 0x01, 0x21, 0x61}[id%4]}
		case "sei":
			return []byte{0x06}
		}
	} else {
		switch t {
		case "idr":
			return []byte{[]byte{19, 20, 21}[id%3] << 1, 0x01}
		case "slice":
			return []byte{byte(id%10) << 1, 0x01}
		case "sei":
			return []byte{0x4e, 0x01}
		}
	}
	return nil
}

func roNalBytes(codec string, u roNal) []byte {
	switch u.T {
	case "aud":
		if codec == "avc" {
			return []byte{0x09, 0xf0}
		}
		return []byte{0x46, 0x01, 0x10}
	case "sps", "pps", "vps":
		return roPs(codec, u.T, u.V)
	}
	h := roNalHdr(codec, u.T, u.Id)
	n := u.N
	if n < len(h) {
		n = len(h)
	}
	b := make([]byte, n)
	copy(b, h)
	proj.EsFill(b[len(h):], u.Id, 0)
	return b
}

func roNalClass(codec string, u []byte) (string, int) {
	if len(u) == 0 {
		return "other", 0
	}
	if codec == "avc" {
		switch u[0] & 0x1f {
		case 9:
			return "aud", 1
		case 7:
			return "sps", 1
		case 8:
			return "pps", 1
		case 5:
			return "idr", 1
		case 1:
			return "slice", 1
		case 6:
			return "sei", 1
		}
		return "other", 1
	}
	t := (u[0] >> 1) & 0x3f
	switch {
	case t == 35:
		return "aud", 2
	case t == 32:
		return "vps", 2
	case t == 33:
		return "sps", 2
	case t == 34:
		return "pps", 2
	case t == 39 || t == 40:
		return "sei", 2
	case t >= 16 && t <= 23:
		return "idr", 2
	case t <= 9:
		return "slice", 2
	}
	return "other", 2
}

// roCoded is a published position-coded unit (NAL or audio frame) for the short-fragment fallback.
type roCoded struct {
	id    int
	bytes []byte
}

type roWorld struct {
	enh    bool
	v, a   string
	coded  []roCoded
	maxVer int
}

func roUnit(k, t string, v, id, off, n int, ok bool) M {
	return M{"k": k, "t": t, "v": v, "id": id, "off": off, "n": n, "ok": ok}
}

// locate maps bytes (after hdr header bytes) to a published unit: decoded from the position code
// when long enough, otherwise by comparison with the published units (first match after hint).
func (w *roWorld) locate(u []byte, hdr int, hint int) (id, off int, ok bool) {
	if len(u) >= hdr+11 {
		id, off, ok = proj.EsLocate(u[hdr:])
		if ok {
			// the header bytes must be those of the published unit as well
			for _, c := range w.coded {
				if c.id == id {
					if off == 0 && len(c.bytes) >= hdr && bytes.Equal(c.bytes[:hdr], u[:hdr]) {
						return id, 0, true
					}
					return id, off + hdr, off != 0
				}
			}
			return id, off + hdr, false
		}
		return 0, 0, false
	}
	first := -1
	for i, c := range w.coded {
		if bytes.Equal(c.bytes, u) {
			if c.id > hint {
				return c.id, 0, true
			}
			if first < 0 {
				first = i
			}
		}
	}
	if first >= 0 {
		return w.coded[first].id, 0, true
	}
	return 0, 0, false
}

// projectNal projects one NAL unit recovered by a demuxer.
func (w *roWorld) projectNal(u []byte, hint *int) M {
	t, hdr := roNalClass(w.v, u)
	switch t {
	case "aud":
		return roUnit("aud", t, 0, 0, 0, len(u), true)
	case "sps", "pps", "vps":
		for v := 1; v <= w.maxVer; v++ {
			if bytes.Equal(u, roPs(w.v, t, v)) {
				return roUnit("ps", t, v, 0, 0, len(u), true)
			}
		}
		return roUnit("ps", t, 0, 0, 0, len(u), false)
	}
	id, off, ok := w.locate(u, hdr, *hint)
	if ok {
		*hint = id
	}
	return roUnit("nal", t, 0, id, off, len(u), ok)
}

func (w *roWorld) projectTsFrame(f *proj.EsFrame, hint *int) M {
	units := []M{}
	junk := 0
	switch f.St {
	case 0x1b, 0x24:
		var us [][]byte
		us, junk = proj.EsSplitAnnexB(f.Data)
		for _, u := range us {
			units = append(units, w.projectNal(u, hint))
		}
	case 0x0f:
		fr, rest := proj.EsReadAdts(f.Data)
		junk = rest
		for _, a := range fr {
			id, off, ok := w.locate(a.Data, 0, *hint)
			if ok {
				*hint = id
			}
			m := roUnit("adts", "", 0, id, off, len(a.Data), ok)
			m["h"] = a
			units = append(units, m)
		}
	default:
		id, off, ok := w.locate(f.Data, 0, *hint)
		if ok {
			*hint = id
		}
		units = append(units, roUnit("raw", "", 0, id, off, len(f.Data), ok))
	}
	return M{"pid": f.Pid, "st": f.St, "sid": f.Sid, "pts": f.Pts, "dts": f.Dts, "flags": f.Flags, "rai": f.Rai,
		"lenOk": f.LenOk, "ccOk": f.CcOk, "hdrOk": f.HdrOk, "junk": junk, "units": units}
}

type roTsConsumer struct {
	name  string
	conn  *MemConn
	ss    *httpts.SubSession
	dm    *proj.TsDemux
	hdr   bool // HTTP response header consumed
	buf   []byte
	hintV int
	hintA int
}

func (c *roTsConsumer) drain(w *roWorld) M {
	out, _ := c.conn.Drain()
	c.buf = append(c.buf, out...)
	if !c.hdr {
		if k := bytes.Index(c.buf, []byte("\r\n\r\n")); k >= 0 {
			c.buf = c.buf[k+4:]
			c.hdr = true
		}
	}
	if c.hdr {
		n := len(c.buf) / 188 * 188
		c.dm.Feed(c.buf[:n])
		c.buf = c.buf[n:]
	}
	c.dm.Flush()
	return roFrames(w, c.dm, &c.hintV, &c.hintA, len(c.buf))
}

func roFrames(w *roWorld, dm *proj.TsDemux, hv, ha *int, partial int) M {
	frames := []M{}
	for _, f := range dm.Take() {
		h := hv
		if f.Pid != 256 {
			h = ha
		}
		frames = append(frames, w.projectTsFrame(f, h))
	}
	bad := append([]string{}, dm.Bad...)
	if partial != 0 {
		bad = append(bad, "partial_packet")
	}
	return M{"frames": frames, "pat": dm.Pat, "pmt": dm.Pmt, "streams": dm.Streams, "bad": bad}
}

func roT3(ts uint32) proj.T3 { return proj.ToT3(uint64(ts)) }

func init() { Registry["remuxout"] = remuxOutDriver }

func remuxOutDriver(env *Env) error {
	httpts.SubSessionWriteChanSize = 0
	tw, err := NewTraceWriter(env.Out)
	if err != nil {
		return err
	}
	defer tw.Close()
	tmp, err := os.MkdirTemp("", "lalverif-remuxout")
	if err != nil {
		return err
	}
	defer os.RemoveAll(tmp)
	return ReadScenarios(env.In, func(raw json.RawMessage) error {
		var sc roScenario
		if err := json.Unmarshal(raw, &sc); err != nil {
			return err
		}
		runRemuxOutScenario(&sc, tw, tmp)
		return nil
	})
}

func roBuildMsg(w *roWorld, m *roMsg, ts uint32) base.RtmpMsg {
	var p []byte
	typ := uint8(base.RtmpTypeIdVideo)
	switch m.K {
	case "vsh":
		sv := m.Ver
		if m.Sv > 0 {
			sv = m.Sv
		}
		if w.v == "avc" {
			sps, pps := roPs("avc", "sps", sv), roPs("avc", "pps", m.Ver)
			p = []byte{0x17, 0, 0, 0, 0, 1, sps[1], sps[2], sps[3], 0xff, 0xe1, byte(len(sps) >> 8), byte(len(sps))}
			p = append(p, sps...)
			p = append(p, 1, byte(len(pps)>>8), byte(len(pps)))
			p = append(p, pps...)
		} else {
			p = []byte{0x1c, 0, 0, 0, 0}
			if w.enh {
				p = []byte{0x90, 'h', 'v', 'c', '1'}
			}
			p = append(p, roHvccHead...)
			p = append(p, 3)
			for i, t := range []string{"vps", "sps", "pps"} {
				b := roPs("hevc", t, m.Ver)
				if t != "pps" {
					b = roPs("hevc", t, sv)
				}
				p = append(p, byte(0x20+i), 0, 1, byte(len(b)>>8), byte(len(b)))
				p = append(p, b...)
			}
		}
	case "ash":
		typ = base.RtmpTypeIdAudio
		p = append([]byte{0xaf, 0x00}, roAscPool[m.Ver]...)
	case "v":
		hd := byte(0x20)
		if m.Key {
			hd = 0x10
		}
		if w.v == "avc" {
			hd |= 7
		} else {
			hd |= 12
		}
		p = []byte{hd, 1, byte(m.Cts >> 16), byte(m.Cts >> 8), byte(m.Cts)}
		if w.enh && w.v == "hevc" {
			ft := byte(2)
			if m.Key {
				ft = 1
			}
			if m.Cts == 0 && len(m.Nals)%2 == 1 {
				p = []byte{0x80 | ft<<4 | 3, 'h', 'v', 'c', '1'} // CodedFramesX: no composition time
			} else {
				p = []byte{0x80 | ft<<4 | 1, 'h', 'v', 'c', '1', byte(m.Cts >> 16), byte(m.Cts >> 8), byte(m.Cts)}
			}
		}
		for _, u := range m.Nals {
			b := roNalBytes(w.v, u)
			p = append(p, byte(len(b)>>24), byte(len(b)>>16), byte(len(b)>>8), byte(len(b)))
			p = append(p, b...)
		}
	case "meta":
		// onMetaData as encoders send it: @setDataFrame, audiocodecid of the stream's codec, audiosamplerate m.N (0: absent)
		typ = base.RtmpTypeIdMetadata
		pairs := rtmp.ObjectPairArray{{Key: "duration", Value: float64(0)}}
		if id, ok := map[string]int{"aac": 10, "opus": 13, "g711a": 7, "g711u": 8}[w.a]; ok {
			pairs = append(pairs, rtmp.ObjectPair{Key: "audiocodecid", Value: float64(id)})
			if m.N > 0 {
				pairs = append(pairs, rtmp.ObjectPair{Key: "audiosamplerate", Value: float64(m.N)})
			}
		}
		if id, ok := map[string]int{"avc": 7, "hevc": 12}[w.v]; ok {
			pairs = append(pairs, rtmp.ObjectPair{Key: "videocodecid", Value: float64(id)})
		}
		var mb bytes.Buffer
		_ = rtmp.Amf0.WriteString(&mb, "@setDataFrame")
		_ = rtmp.Amf0.WriteString(&mb, "onMetaData")
		_ = rtmp.Amf0.WriteObject(&mb, pairs)
		p = mb.Bytes()
	case "a":
		typ = base.RtmpTypeIdAudio
		switch w.a {
		case "aac":
			p = []byte{0xaf, 0x01}
		case "opus":
			p = []byte{0xdf}
		case "g711a":
			p = []byte{0x72}
		case "g711u":
			p = []byte{0x82}
		}
		p = append(p, proj.EsPayload(m.Id, m.N)...)
	}
	csid := 6
	if typ == base.RtmpTypeIdAudio {
		csid = 4
	} else if typ == base.RtmpTypeIdMetadata {
		csid = 5
	}
	return base.RtmpMsg{Header: base.RtmpHeader{Csid: csid, MsgLen: uint32(len(p)), MsgTypeId: typ, MsgStreamId: 1,
		TimestampAbs: ts}, Payload: p}
}

// roSdpFacts reads the session description with the independent RFC 4566 reader of proj.
func roSdpFacts(w *roWorld, raw []byte) M {
	media := []M{}
	ver := func(t string, b64 string) int {
		b, err := base64.StdEncoding.DecodeString(strings.TrimSpace(b64))
		if err != nil {
			return 0
		}
		for v := 1; v <= w.maxVer; v++ {
			if bytes.Equal(b, roPs(w.v, t, v)) {
				return v
			}
		}
		return 0
	}
	for _, sm := range proj.ReadSdp(raw) {
		m := M{"kind": sm.Media, "pt": -1, "enc": "", "rate": 0, "sps": 0, "pps": 0, "vps": 0, "asc": 0, "nfmt": len(sm.Fmts)}
		if len(sm.Fmts) >= 1 {
			var pt int
			fmt.Sscan(sm.Fmts[0], &pt)
			m["pt"] = pt
			if rm, ok := sm.Rtpmap[sm.Fmts[0]]; ok {
				f := strings.Split(rm, "/")
				m["enc"] = strings.ToUpper(f[0])
				if len(f) >= 2 {
					var rate int
					fmt.Sscan(f[1], &rate)
					m["rate"] = rate
				}
			}
			fp := sm.Fmtp[sm.Fmts[0]]
			if s, ok := fp["sprop-parameter-sets"]; ok {
				if l := strings.Split(s, ","); len(l) == 2 {
					m["sps"], m["pps"] = ver("sps", l[0]), ver("pps", l[1])
				}
			}
			for _, t := range []string{"vps", "sps", "pps"} {
				if s, ok := fp["sprop-"+t]; ok {
					m[t] = ver(t, s)
				}
			}
			if s, ok := fp["config"]; ok {
				b, _ := hex.DecodeString(s)
				for v, a := range roAscPool {
					if bytes.Equal(a, b) {
						m["asc"] = v
					}
				}
			}
		}
		media = append(media, m)
	}
	return M{"media": media}
}

type roRtpSide struct {
	w        *roWorld
	rm       *remux.Rtmp2RtspRemuxer
	sdps     []M
	pkts     []rtprtcp.RtpPacket
	vpt      int
	apt      int
	hintV    int
	hintA    int
	panicked string
}

// roRawPkt is one RTP packet as delivered to a consumer, with the track it was delivered on.
type roRawPkt struct {
	tr  string
	raw []byte
}

// roRtpFrames groups packets into frames (runs of one track and one timestamp closed by the marker bit) and
// depacketises them with the independent RFC 6184/7798/3640 reader.
func roRtpFrames(w *roWorld, pk []roRawPkt, hintV, hintA *int) []M {
	out := []M{}
	hdr := func(b []byte) (pt, mk, seq int, ts uint32, ssrc uint32) {
		if len(b) < 12 {
			return -1, 0, 0, 0, 0
		}
		return int(b[1] & 0x7f), int(b[1] >> 7), int(b[2])<<8 | int(b[3]),
			uint32(b[4])<<24 | uint32(b[5])<<16 | uint32(b[6])<<8 | uint32(b[7]),
			uint32(b[8])<<24 | uint32(b[9])<<16 | uint32(b[10])<<8 | uint32(b[11])
	}
	i := 0
	for i < len(pk) {
		pt0, _, seq0, ts0, ssrc0 := hdr(pk[i].raw)
		j := i
		for j < len(pk) && pk[j].tr == pk[i].tr {
			pt, mk, _, ts, _ := hdr(pk[j].raw)
			if pt != pt0 || ts != ts0 {
				break
			}
			j++
			if mk == 1 {
				break
			}
		}
		if j == i {
			j = i + 1
		}
		grp := pk[i:j]
		tr, codec := pk[i].tr, w.a
		if tr == "v" {
			codec = w.v
		}
		raws := [][]byte{}
		wf, seqOk, mkOk := true, true, true
		for k, p := range grp {
			raws = append(raws, p.raw)
			_, mk, seq, _, _ := hdr(p.raw)
			if len(p.raw) < 13 || p.raw[0] != 0x80 {
				wf = false
			}
			if seq != (seq0+k)%65536 {
				seqOk = false
			}
			if (mk == 1) != (k == len(grp)-1) {
				mkOk = false
			}
		}
		dc := codec
		if dc != "avc" && dc != "hevc" && dc != "aac" {
			dc = "raw"
		}
		units := []M{}
		for _, u := range proj.RefRtpDepack(dc, raws) {
			if tr == "v" {
				units = append(units, w.projectNal(u, hintV))
			} else {
				id, off, ok := w.locate(u, 0, *hintA)
				if ok {
					*hintA = id
				}
				units = append(units, roUnit("raw", "", 0, id, off, len(u), ok))
			}
		}
		out = append(out, M{"tr": tr, "pt": pt0, "seq": seq0, "np": len(grp), "ts": roT3(ts0),
			"ssrc": proj.Limbs(ssrc0), "wf": wf, "seqOk": seqOk, "mk": mkOk, "units": units})
		i = j
	}
	return out
}

func (r *roRtpSide) take() []M {
	pk := []roRawPkt{}
	for _, p := range r.pkts {
		tr := "a"
		if int(p.Header.PacketType) == r.vpt {
			tr = "v"
		}
		pk = append(pk, roRawPkt{tr, p.Raw})
	}
	r.pkts = nil
	return roRtpFrames(r.w, pk, &r.hintV, &r.hintA)
}

// ---------------------------------------------------------------------------------------------
// RTSP subscriber through the Group: a real rtsp.ServerCommandSession on an in-memory connection is
// driven with DESCRIBE / SETUP (interleaved) / PLAY requests, so that Group.feedRtpPacket (key-frame
// gating) and rtsp.SubSession / BaseOutSession deliver the packets of Group.rtmp2RtspRemuxer.

//go:linkname roRtspWchan github.com/q191201771/lal/pkg/rtsp.serverCommandSessionWriteChanSize
var roRtspWchan int

type roRtspObs struct {
	g    *logic.Group
	desc chan struct{}
	play chan struct{}
	sub  *rtsp.SubSession
	imm  bool // DESCRIBE found a session description: the answer is written as soon as the callback returns
}

func (o *roRtspObs) OnNewRtspPubSession(session *rtsp.PubSession) error { return base.ErrRtsp }
func (o *roRtspObs) OnNewRtspSubSessionDescribe(session *rtsp.SubSession) (bool, []byte) {
	ok, sdp := o.g.HandleNewRtspSubSessionDescribe(session)
	o.sub, o.imm = session, sdp != nil
	o.desc <- struct{}{}
	return ok, sdp
}
func (o *roRtspObs) OnNewRtspSubSessionPlay(session *rtsp.SubSession) error {
	o.g.HandleNewRtspSubSessionPlay(session)
	o.play <- struct{}{}
	return nil
}

type roRtspConsumer struct {
	w     *roWorld
	conn  *MemConn
	cs    *rtsp.ServerCommandSession
	obs   *roRtspObs
	url   string
	buf   []byte
	state int // 1 = DESCRIBE sent, 3 = described (manual: SETUP / PLAY on request), 2 = playing, 9 = failed
	// manual: the handshake stops after DESCRIBE is answered and goes on with play() ("PlayR" step), so that a
	// subscriber can sit between DESCRIBE and PLAY while messages are published
	manual bool
	played bool   // PLAY completed since the last take()
	rawSdp []byte // the session description this subscriber was given
	cseq  int
	sdps  []M
	pend  []string // text responses already taken off the connection
	pkts  []roRawPkt
	chTr  map[int]string
	hintV int
	hintA int
	errs  []string
}

func roWait(ch chan struct{}) bool {
	select {
	case <-ch:
		return true
	case <-time.After(5 * time.Second):
		return false
	}
}

// parse consumes complete interleaved frames and text responses from the head of the buffer.
func (c *roRtspConsumer) parse() (resps []string) {
	out, _ := c.conn.Drain()
	c.buf = append(c.buf, out...)
	for len(c.buf) > 0 {
		if c.buf[0] == '$' {
			if len(c.buf) < 4 {
				return
			}
			n := int(c.buf[2])<<8 | int(c.buf[3])
			if len(c.buf) < 4+n {
				return
			}
			ch := int(c.buf[1])
			if tr, ok := c.chTr[ch]; ok {
				c.pkts = append(c.pkts, roRawPkt{tr, append([]byte{}, c.buf[4:4+n]...)})
			} else {
				c.errs = append(c.errs, fmt.Sprintf("data_on_channel_%d", ch))
			}
			c.buf = c.buf[4+n:]
			continue
		}
		k := bytes.Index(c.buf, []byte("\r\n\r\n"))
		if k < 0 {
			return
		}
		head := string(c.buf[:k+4])
		cl := 0
		for _, ln := range strings.Split(head, "\r\n") {
			if strings.HasPrefix(strings.ToLower(ln), "content-length:") {
				fmt.Sscan(strings.TrimSpace(ln[15:]), &cl)
			}
		}
		if len(c.buf) < k+4+cl {
			return
		}
		resps = append(resps, string(c.buf[:k+4+cl]))
		c.buf = c.buf[k+4+cl:]
	}
	return
}

func (c *roRtspConsumer) request(method, uri, extra string) {
	c.cseq++
	c.conn.Feed([]byte(fmt.Sprintf("%s %s RTSP/1.0\r\nCSeq: %d\r\n%s\r\n", method, uri, c.cseq, extra)))
}

// response polls for the next text response (the command loop runs in its own goroutine).
func (c *roRtspConsumer) response() (string, bool) {
	for i := 0; i < 100000; i++ {
		if r := c.parse(); len(r) > 0 {
			return r[0], true
		}
		time.Sleep(50 * time.Microsecond)
	}
	return "", false
}

func (c *roRtspConsumer) fail(why string) {
	c.errs = append(c.errs, why)
	c.state = 9
}

// advance continues the handshake as far as the server's answers allow.
func (c *roRtspConsumer) advance() {
	if c.state != 1 {
		return
	}
	rs := append(c.pend, c.parse()...)
	c.pend = nil
	if len(rs) == 0 {
		return // DESCRIBE is answered when the stream has a session description
	}
	r := rs[0]
	k := strings.Index(r, "\r\n\r\n")
	if !strings.HasPrefix(r, "RTSP/1.0 200") || k < 0 {
		c.fail("describe_not_200")
		return
	}
	c.rawSdp = []byte(r[k+4:])
	c.sdps = append(c.sdps, roSdpFacts(c.w, c.rawSdp))
	c.state = 3
	if !c.manual {
		c.play()
	}
}

// play sends SETUP (interleaved) for every described track and PLAY.
func (c *roRtspConsumer) play() {
	if c.state != 3 {
		return
	}
	ch := 0
	for _, sm := range proj.ReadSdp(c.rawSdp) {
		tr := "a"
		if sm.Media == "video" {
			tr = "v"
		}
		c.chTr[ch] = tr
		c.request("SETUP", c.url+"/"+sm.Control, fmt.Sprintf("Transport: RTP/AVP/TCP;unicast;interleaved=%d-%d\r\n", ch, ch+1))
		if r, ok := c.response(); !ok || !strings.HasPrefix(r, "RTSP/1.0 200") {
			c.fail("setup_failed")
			return
		}
		ch += 2
	}
	c.request("PLAY", c.url, "Range: npt=0.000-\r\n")
	if !roWait(c.obs.play) {
		c.fail("play_not_processed")
		return
	}
	if r, ok := c.response(); !ok || !strings.HasPrefix(r, "RTSP/1.0 200") {
		c.fail("play_failed")
		return
	}
	c.state = 2
	c.played = true
}

func (c *roRtspConsumer) take() M {
	c.parse()
	pk := c.pkts
	c.pkts = nil
	sd := c.sdps
	c.sdps = nil
	if sd == nil {
		sd = []M{}
	}
	errs := c.errs
	if errs == nil {
		errs = []string{}
	}
	played := c.played
	c.played = false
	return M{"sdp": sd, "frames": roRtpFrames(c.w, pk, &c.hintV, &c.hintA), "panic": strings.Join(errs, ","), "late": true,
		"played": played}
}

func (r *roRtpSide) feed(msg base.RtmpMsg) {
	defer func() {
		if e := recover(); e != nil {
			r.panicked = fmt.Sprint(e)
		}
	}()
	r.rm.FeedRtmpMsg(msg)
}

// roReadHls reads the live playlist and demultiplexes the listed segments in playlist order.  With known != nil
// (republish epochs) the segments that were listed when an earlier publisher left are only counted ("old") and
// remembered, every segment end is a quiescent point, and "seg" gives for every frame the segment it was read from.
func roReadHls(w *roWorld, hlsRoot, stream string, known map[string]bool) M {
	op := hls.PathStrategy.GetMuxerOutPath(hlsRoot, stream)
	pl, err := os.ReadFile(hls.PathStrategy.GetLiveM3u8FileName(op, stream))
	dm := proj.NewTsDemux()
	segs, old, partial := 0, 0, 0
	seg := []int{}
	ended := false
	var taken []*proj.EsFrame
	if err == nil {
		for _, line := range strings.Split(string(pl), "\n") {
			line = strings.TrimSpace(line)
			if line == "#EXT-X-ENDLIST" {
				ended = true
			}
			if line == "" || strings.HasPrefix(line, "#") {
				continue
			}
			if known != nil && known[line] {
				old++
				continue
			}
			b, err := os.ReadFile(hls.PathStrategy.GetTsFileNameWithPath(op, line))
			if err != nil {
				dm.Bad = append(dm.Bad, "missing_segment")
				continue
			}
			segs++
			partial += len(b) % 188
			dm.Feed(b[:len(b)/188*188])
			if known != nil {
				known[line] = true
				dm.Flush()
				fs := dm.Take()
				for range fs {
					seg = append(seg, segs)
				}
				taken = append(taken, fs...)
			}
		}
	}
	dm.Flush()
	if known != nil {
		dm.Out = append(taken, dm.Out...)
		for len(seg) < len(dm.Out) {
			seg = append(seg, segs)
		}
	}
	hv, ha := 0, 0
	hl := roFrames(w, dm, &hv, &ha, partial)
	hl["segs"] = segs
	hl["on"] = true
	if known != nil {
		hl["seg"] = seg
		hl["old"] = old
		hl["ended"] = ended
	}
	return hl
}

func runRemuxOutScenario(sc *roScenario, tw *TraceWriter, tmp string) {
	w := &roWorld{v: sc.Cfg.V, a: sc.Cfg.A, maxVer: 1, enh: sc.Cfg.Enh}
	cfg := &logic.Config{}
	cfg.HttptsConfig.Enable = true
	cfg.HttptsConfig.GopNum = sc.Cfg.Gop
	stream := fmt.Sprintf("c06s%d", sc.Sc)
	hlsRoot := filepath.Join(tmp, fmt.Sprintf("hls%d", sc.Sc)) + "/"
	if sc.Cfg.Hls {
		cfg.HlsConfig.Enable = true
		cfg.HlsConfig.OutPath = hlsRoot
		cfg.HlsConfig.FragmentDurationMs = sc.Cfg.FragMs
		cfg.HlsConfig.FragmentNum = 100000
		cfg.HlsConfig.DeleteThreshold = 0
		cfg.HlsConfig.CleanupMode = hls.CleanupModeNever
	}
	if sc.Cfg.Rtsp {
		cfg.RtspConfig.Enable = true
		cfg.RtspConfig.OutWaitKeyFrameFlag = true
	}
	g := logic.NewGroup("live", stream, cfg, logic.GroupOption{}, groupObserver{})
	var rg, rh *roRtspConsumer
	newRtsp := func(name string, manual bool) *roRtspConsumer {
		roRtspWchan = 0
		c := &roRtspConsumer{w: w, conn: NewMemConn(name), chTr: map[int]string{}, url: "rtsp://h/live/" + stream, state: 1, manual: manual}
		c.obs = &roRtspObs{g: g, desc: make(chan struct{}, 4), play: make(chan struct{}, 4)}
		c.cs = rtsp.NewServerCommandSession(c.obs, c.conn, rtsp.ServerAuthConfig{}, false, "")
		go c.cs.RunLoop()
		c.request("DESCRIBE", c.url, "Accept: application/sdp\r\n")
		if !roWait(c.obs.desc) {
			c.fail("describe_not_processed")
		} else if c.obs.imm {
			// the answer is on its way (written by the command loop right after the callback): take it now, so
			// that the point at which this subscriber starts does not depend on goroutine scheduling
			if r, ok := c.response(); ok {
				c.pend = append(c.pend, r)
			}
		}
		c.advance()
		return c
	}
	tw.Emit(M{"ev": "reset", "sc": sc.Sc, "v": sc.Cfg.V, "a": sc.Cfg.A, "hls": sc.Cfg.Hls, "rtsp": sc.Cfg.Rtsp, "gop": sc.Cfg.Gop,
		"fragMs": sc.Cfg.FragMs, "rep": sc.Cfg.Rep})
	var rs *roRtpSide
	if sc.Cfg.Rtsp && !sc.Cfg.Rep {
		rs = &roRtpSide{w: w, vpt: -1, apt: -1}
		rs.rm = remux.NewRtmp2RtspRemuxer(func(ctx sdp.LogicContext) {
			f := roSdpFacts(w, ctx.RawSdp)
			for _, m := range f["media"].([]M) {
				if m["kind"] == "video" {
					rs.vpt = m["pt"].(int)
				} else {
					rs.apt = m["pt"].(int)
				}
			}
			rs.sdps = append(rs.sdps, f)
		}, func(pkt rtprtcp.RtpPacket) { rs.pkts = append(rs.pkts, pkt) })
	}
	pub := rtmp.NewServerSession(nullObserver{}, NewMemConn("pub"))
	if err := g.AddRtmpPubSession(pub); err != nil {
		tw.Emit(M{"ev": "error", "what": err.Error()})
		return
	}
	live := true                // a publisher is attached
	listed := map[string]bool{} // HLS segments listed when an earlier publisher left
	noHls := func() M {
		return M{"frames": []M{}, "pat": 0, "pmt": 0, "streams": [][2]int{}, "bad": []string{}, "segs": 0, "on": false,
			"seg": []int{}, "old": 0, "ended": false}
	}
	noRtp := func() M { return M{"sdp": []M{}, "frames": []M{}, "panic": "", "late": true, "played": false} }
	cons := []*roTsConsumer{}
	drainAll := func() M {
		o := M{}
		for _, c := range cons {
			o[c.name] = c.drain(w)
		}
		return o
	}
	uid := 0
	protect := func(f func()) (p string) {
		defer func() {
			if e := recover(); e != nil {
				p = fmt.Sprint(e)
			}
		}()
		f()
		return ""
	}
	for _, st := range sc.Steps {
		switch st.Name {
		case "Join":
			c := &roTsConsumer{name: st.C, conn: NewMemConn(st.C), dm: proj.NewTsDemux()}
			u, _ := base.ParseUrl("http://h/live/"+stream+".ts", 80)
			c.ss = httpts.NewSubSession(c.conn, u, false, "")
			g.AddHttptsSubSession(c.ss)
			cons = append(cons, c)
			tw.Emit(M{"ev": "Join", "c": st.C})
		case "JoinRtsp":
			if rg == nil && sc.Cfg.Rtsp {
				rg = newRtsp("rg", false)
			}
			ev := M{"ev": "Join", "c": "rg"}
			if rg != nil && !sc.Cfg.Rep {
				// a DESCRIBE that found a session description was answered now: it is judged against the stream as it is now
				ev["rtp"] = M{"rg": rg.take()}
			}
			tw.Emit(ev)
		case "DescR":
			// a second RTSP subscriber whose DESCRIBE and SETUP / PLAY are separate steps (C02: joins at any instant)
			if rh == nil && sc.Cfg.Rtsp {
				rh = newRtsp("rh", true)
			}
			ev := M{"ev": "Join", "c": "rh"}
			if rh != nil && !sc.Cfg.Rep {
				ev["rtp"] = M{"rh": rh.take()}
			}
			tw.Emit(ev)
		case "PlayR":
			ev := M{"ev": "Play", "c": "rh", "ok": false}
			if rh != nil {
				rh.manual = false // if DESCRIBE is still unanswered, SETUP / PLAY follow as soon as it is
				rh.advance()
				rh.play()
				if sc.Cfg.Rep {
					// republish epochs: what this subscriber got so far is reported with the next message; it stays
					// attached when the publisher leaves
					ev["ok"] = rh.state == 2
					ev["rtp"] = M{"rh": noRtp()}
				} else {
					o := rh.take()
					ev["ok"] = o["played"]
					ev["rtp"] = M{"rh": o}
				}
			} else {
				ev["rtp"] = M{"rh": noRtp()}
			}
			tw.Emit(ev)
		case "Pub":
			m := st.M
			if m.K == "vsh" && m.Ver > w.maxVer {
				w.maxVer = m.Ver
			}
			if m.K == "a" {
				uid++
				m.Id = uid
				w.coded = append(w.coded, roCoded{uid, proj.EsPayload(uid, m.N)})
			}
			if m.Nals == nil {
				m.Nals = []roNal{}
			}
			for i := range m.Nals {
				u := &m.Nals[i]
				if u.V > w.maxVer {
					w.maxVer = u.V
				}
				switch u.T {
				case "idr", "slice", "sei":
					uid++
					u.Id = uid
					b := roNalBytes(w.v, *u)
					u.N = len(b)
					w.coded = append(w.coded, roCoded{uid, b})
				default:
					u.N = len(roNalBytes(w.v, *u))
				}
			}
			msg := roBuildMsg(w, m, st.Ts)
			m.Asc = []int{}
			if m.K == "ash" {
				m.Asc = roAscFields(m.Ver)
			}
			ev := M{"ev": "Pub", "m": m, "ts": roT3(st.Ts), "panic": ""}
			// the group gets its own copy of the message, which is overwritten after the call: the publisher's read
			// loop reuses its buffer (rtmp.ChunkComposer), so whatever lal keeps must be a copy of its own
			gm := msg.Clone()
			ev["panic"] = protect(func() { g.OnReadRtmpAvMsg(gm) })
			if os.Getenv("VERIF_NOPOISON") == "" {
				for i := range gm.Payload {
					gm.Payload[i] ^= 0x5a
				}
			}
			ev["out"] = drainAll()
			if sc.Cfg.Rtsp {
				rt := M{}
				if rs != nil {
					rs.feed(msg)
					sd := rs.sdps
					if sd == nil {
						sd = []M{}
					}
					rs.sdps = nil
					rt["ra"] = M{"sdp": sd, "frames": rs.take(), "panic": rs.panicked, "late": false}
				}
				if rg != nil {
					rg.advance()
					rt["rg"] = rg.take()
				} else {
					rt["rg"] = noRtp()
				}
				if rh != nil {
					rh.advance()
					rt["rh"] = rh.take()
				} else {
					rt["rh"] = noRtp()
				}
				ev["rtp"] = rt
			}
			tw.Emit(ev)
		case "PubLeave":
			// the publisher of this epoch leaves (Group.delIn); subscribers stay, the Group survives
			ev := M{"ev": "PubLeave", "panic": ""}
			ev["panic"] = protect(func() { g.DelRtmpPubSession(pub) })
			live = false
			ev["out"] = drainAll()
			if sc.Cfg.Hls {
				ev["hls"] = roReadHls(w, hlsRoot, stream, listed)
			} else {
				ev["hls"] = noHls()
			}
			rt := M{"rg": noRtp()}
			if rg != nil {
				// the RTSP subscriber belongs to the epoch: it is judged up to here and leaves with the publisher
				rg.advance()
				rt["rg"] = rg.take()
				if rg.obs.sub != nil {
					g.DelRtspSubSession(rg.obs.sub)
				}
				rg.conn.Close()
				rg = nil
			}
			rt["rh"] = noRtp()
			if rh != nil {
				// the second RTSP subscriber stays attached across the republish
				rh.advance()
				rt["rh"] = rh.take()
			}
			ev["rtp"] = rt
			tw.Emit(ev)
		case "PubArrive":
			// the next publisher of the same name, with its own tracks
			w.v, w.a, w.enh = st.V, st.A, st.Enh
			pub = rtmp.NewServerSession(nullObserver{}, NewMemConn("pub"))
			es := ""
			if err := g.AddRtmpPubSession(pub); err != nil {
				es = err.Error()
			} else {
				live = true
			}
			for _, c := range cons {
				c.dm.NewEpoch()
			}
			tw.Emit(M{"ev": "PubArrive", "v": st.V, "a": st.A, "err": es})
		case "End":
			ev := M{"ev": "End", "panic": ""}
			ev["panic"] = protect(func() { g.DelRtmpPubSession(pub) })
			ev["out"] = drainAll()
			hl := M{"frames": []M{}, "pat": 0, "pmt": 0, "streams": [][2]int{}, "bad": []string{}, "segs": 0, "on": false}
			if sc.Cfg.Hls {
				hl = roReadHls(w, hlsRoot, stream, nil)
				os.RemoveAll(hlsRoot)
			}
			ev["hls"] = hl
			tw.Emit(ev)
			for _, c := range cons {
				g.DelHttptsSubSession(c.ss)
			}
			if rg != nil {
				rg.conn.Close()
			}
			if rh != nil {
				rh.conn.Close()
			}
			return
		}
	}
	if live {
		g.DelRtmpPubSession(pub)
	}
	if sc.Cfg.Rep {
		for _, c := range cons {
			g.DelHttptsSubSession(c.ss)
		}
		for _, c := range []*roRtspConsumer{rg, rh} {
			if c != nil {
				if c.obs.sub != nil {
					g.DelRtspSubSession(c.obs.sub)
				}
				c.conn.Close()
			}
		}
		os.RemoveAll(hlsRoot)
	}
}

package drv

import (
	"encoding/json"
	"fmt"
	"net"
	"os"
	"runtime"
	"strconv"
	"strings"
	"syscall"
	"time"

	"github.com/q191201771/lal/pkg/base"
	"github.com/q191201771/lal/pkg/logic"

	"lalverif/proj"
)

// GB28181 over TCP (C13, surface "pst"): the session is the real gb28181.PubSession that
// ServerManager.CtrlStartRtpPub (api /api/ctrl/start_rtp_pub with is_tcp_flag = 1, port 0) puts behind
// a listener - accept loop, one reading goroutine per connection ("2-byte length + RTP packet" frames),
// the newest connection replaces the one before - inside a real group of a real ServerManager; the peer
// uses real loopback connections.  The bytes of every element come from proj.SfPstData; how many
// payload bytes of complete frames a connection has carried is computed by proj.SfPstDeframer, and the
// session's read-byte counter tells when lal is through with them.
//
// Observations (the driver judges nothing): per step the API code (if the element is an API call) and
// whether the session is still the publisher of its group; at the end of a scenario
//   - a session that is still there is served: a fresh connection carries well-formed units, then it is kicked;
//   - a session that ended is gone: this process holds no listening socket on its port any more (looked up
//     among the process's own descriptors, so other processes taking the port do not matter), the group has
//     no publisher;
//   - "second": start_rtp_pub for the SAME stream name is accepted again, a connection to the new port
//     carries well-formed units and the group learns the video codec from them; kicked again;
//   - once all connections are closed no goroutine of PubSession.runLoopTcp is left (a reader that does not
//     stop on a read error spins), and one tick later the group is gone;
//   - "bystander": an RTSP publisher opened before the scenario still answers, the HTTP API and HTTP-FLV
//     requests for its stream are served with 200.
// Anything else than that goes to the `note` of the step / end event, which no behaviour of
// spec/Surfaces.tla allows.

type sfPstConn struct {
	c    *net.TCPConn
	df   *proj.SfPstDeframer
	gone bool // closed by us, or seen closed by lal
}

type sfPst struct {
	sm     *logic.ServerManager
	stream string
	sid    string
	port   int
	conns  []*sfPstConn
	cur    *sfPstConn
	seq    proj.SfPstSeq
	expect uint64 // payload bytes of complete frames sent on connections while they were the newest
	note   string
}

// sfPstWait bounds every wait for something lal has to do (milliseconds on an idle machine); running into it is
// reported as a note.
const sfPstWait = 5 * time.Second

// sfPstLeft: goroutines of PubSession.runLoopTcp that earlier scenarios of this process left behind (reported there).
var sfPstLeft int

var sfPstStackBuf []byte

// sfListening: does this process hold a listening TCP socket bound to port?
func sfListening(port int) bool {
	d, err := os.Open("/proc/self/fd")
	if err != nil {
		return false
	}
	names, _ := d.Readdirnames(-1)
	d.Close()
	for _, n := range names {
		fd, err := strconv.Atoi(n)
		if err != nil {
			continue
		}
		if v, err := syscall.GetsockoptInt(fd, syscall.SOL_SOCKET, syscall.SO_ACCEPTCONN); err != nil || v != 1 {
			continue
		}
		sa, err := syscall.Getsockname(fd)
		if err != nil {
			continue
		}
		switch a := sa.(type) {
		case *syscall.SockaddrInet4:
			if a.Port == port {
				return true
			}
		case *syscall.SockaddrInet6:
			if a.Port == port {
				return true
			}
		}
	}
	return false
}

// sfPstGoroutines counts the goroutines that are inside (or were started by) PubSession.runLoopTcp.
func sfPstGoroutines() int {
	if sfPstStackBuf == nil {
		sfPstStackBuf = make([]byte, 1<<20)
	}
	n := runtime.Stack(sfPstStackBuf, true)
	k := 0
	for _, g := range strings.Split(string(sfPstStackBuf[:n]), "\n\n") {
		if strings.Contains(g, "gb28181.(*PubSession).runLoopTcp") {
			k++
		}
	}
	return k
}

func (p *sfPst) start(timeoutMs int) int {
	r := p.sm.CtrlStartRtpPub(base.ApiCtrlStartRtpPubReq{StreamName: p.stream, Port: 0, TimeoutMs: timeoutMs, IsTcpFlag: 1})
	if r.ErrorCode != base.ErrorCodeSucc {
		return r.ErrorCode
	}
	p.sid, p.port = r.Data.SessionId, r.Data.Port
	p.conns, p.cur, p.expect = nil, nil, 0
	return 0
}

// registered: the session is the publisher of its group; read = its read-byte counter.
func (p *sfPst) registered() (bool, uint64) {
	st := p.sm.StatGroup(p.stream)
	if st == nil || st.StatPub.SessionId != p.sid {
		return false, 0
	}
	return true, st.StatPub.ReadBytesSum
}

// sfPstUntil polls f for at most d.  The first wait of a run that expires leaves a marker in the run's scratch
// directory (shared by the child processes): the run has failed then, and the waits behind it are cut to a fraction
// so that a lal that never does what is waited for does not cost minutes.
func sfPstUntil(d time.Duration, f func() bool) bool {
	if sfPstMarker != "" {
		if _, err := os.Stat(sfPstMarker); err == nil && d > sfPstWait/50 {
			d = sfPstWait / 50
		}
	}
	dl := time.Now().Add(d)
	for !f() {
		if time.Now().After(dl) {
			if sfPstMarker != "" {
				os.WriteFile(sfPstMarker, []byte("a wait expired"), 0644)
			}
			return false
		}
		time.Sleep(30 * time.Microsecond)
	}
	return true
}

var sfPstMarker string

// consumed waits until lal has counted the complete frames sent so far (or the session is gone).
func (p *sfPst) consumed() bool {
	return sfPstUntil(sfPstWait, func() bool {
		ok, n := p.registered()
		return !ok || n >= p.expect
	})
}

func (p *sfPst) dial() *sfPstConn {
	if !sfListening(p.port) {
		p.setNote("no_listener on the session's port")
		return nil
	}
	addr := fmt.Sprintf("127.0.0.1:%d", p.port)
	d := net.Dialer{Timeout: 3 * time.Second, LocalAddr: &net.TCPAddr{IP: net.ParseIP(sfLoopback())}}
	c, err := d.Dial("tcp", addr)
	if err != nil {
		if c, err = net.DialTimeout("tcp", addr, 3*time.Second); err != nil {
			p.setNote("dial " + err.Error())
			return nil
		}
	}
	x := &sfPstConn{c: c.(*net.TCPConn), df: proj.NewSfPstDeframer()}
	p.conns = append(p.conns, x)
	p.cur = x
	return x
}

func (p *sfPst) setNote(s string) {
	if p.note == "" {
		p.note = sfShort(s)
	}
}

// write performs the writes of a plan on x; frames count as expected only while x is the newest connection.
func (p *sfPst) write(x *sfPstConn, pl proj.SfPstPlan) {
	if x == nil || x.gone {
		return
	}
	for i, w := range pl.Writes {
		if i > 0 && pl.Paced {
			time.Sleep(40 * time.Microsecond)
		}
		before := x.df.Done
		x.c.SetWriteDeadline(time.Now().Add(3 * time.Second))
		if _, err := x.c.Write(w); err != nil {
			if ne, ok := err.(net.Error); ok && ne.Timeout() {
				p.setNote("write_stalled")
			}
			break // reset by lal: a replaced connection
		}
		x.df.Write(w)
		if x == p.cur {
			p.expect += x.df.Done - before
		}
	}
	switch pl.After {
	case "close":
		p.closeConn(x, false)
	case "reset":
		p.closeConn(x, true)
	case "half":
		x.c.CloseWrite()
		if p.cur == x {
			p.cur = nil
		}
	}
}

func (p *sfPst) closeConn(x *sfPstConn, reset bool) {
	if x == nil {
		return
	}
	if !x.gone {
		if reset {
			x.c.SetLinger(0)
		}
		x.c.Close()
		x.gone = true
	}
	if p.cur == x {
		p.cur = nil
	}
}

// open dials a further connection, sends a 1-byte frame on it and waits until lal has counted that frame: the
// connection has been accepted then and its predecessors have been closed by lal, which we wait to see.
func (p *sfPst) open() *sfPstConn {
	prev := append([]*sfPstConn{}, p.conns...)
	x := p.dial()
	if x == nil {
		return nil
	}
	p.write(x, proj.SfPstPlan{Writes: [][]byte{proj.SfPstFrame(1, []byte{0x80})}})
	if !p.consumed() {
		p.setNote("frames_not_consumed: first frame of a new connection")
		return x
	}
	one := make([]byte, 1)
	for _, o := range prev {
		if o.gone {
			continue
		}
		o.c.SetReadDeadline(time.Now().Add(300 * time.Millisecond))
		if _, err := o.c.Read(one); err != nil {
			if ne, ok := err.(net.Error); !ok || !ne.Timeout() {
				o.c.Close()
				o.gone = true
			}
		}
	}
	return x
}

// target is the connection data elements go to: the newest one, or a new one if there is none.
func (p *sfPst) target() *sfPstConn {
	if p.cur != nil && !p.cur.gone {
		return p.cur
	}
	return p.open()
}

func (p *sfPst) good(x *sfPstConn, ts int64) {
	for r := int64(0); r < 3; r++ {
		p.write(x, proj.SfPstPlan{Writes: [][]byte{p.seq.Good(ts + 3600*r)}})
	}
}

func sfApiCode(c int) []int {
	if c == base.ErrorCodeSucc {
		return []int{200}
	}
	return []int{c}
}

// settle: after an API call that may have disposed the session, wait until the group has let go of a session
// whose listener is closed; reports whether the session is still the publisher.
func (p *sfPst) settle() bool {
	if sfListening(p.port) {
		ok, _ := p.registered()
		return ok
	}
	gone := sfPstUntil(sfPstWait, func() bool { ok, _ := p.registered(); return !ok })
	return !gone
}

func (p *sfPst) kick(id string) int {
	return p.sm.CtrlKickSession(base.ApiCtrlKickSessionReq{StreamName: p.stream, SessionId: id}).ErrorCode
}

func (p *sfPst) closeAll() {
	for _, x := range p.conns {
		p.closeConn(x, true)
	}
}

func (e *sfEnv) runPst(sc *sfScenario, end M) (obs []sfObs) {
	sfPstMarker = e.base + "/pst-wait-expired"
	e.httpServers()
	if sfHttp.err != "" {
		end["note"] = "http servers: " + sfHttp.err
		return
	}
	sm := e.server()
	live := fmt.Sprintf("b%d", sc.Sc)
	by := e.newPeer("by", false)
	byOk := sfOk(by.send(sfReq("ANNOUNCE", sfURL(live), "1", nil, proj.SfSdpText(&sfGoodSdp))))
	defer by.close()

	p := &sfPst{sm: sm, stream: fmt.Sprintf("t%d", sc.Sc)}
	p.seq.N = 1000
	timeoutMs := 0
	if sc.Cfg["to"] == "1" {
		timeoutMs = 1000
	}
	if c := p.start(timeoutMs); c != 0 {
		end["note"] = fmt.Sprintf("start_rtp_pub refused: %d", c)
		return
	}
	defer p.closeAll()
	switch sc.Cfg["pre"] {
	case "conn":
		p.open()
	case "good":
		p.good(p.open(), 90000)
		if !p.consumed() {
			p.setNote("frames_not_consumed: prelude")
		}
	}
	var others []string // sessions a second start created although it had to be refused
	up := true
	for i, raw := range sc.Steps {
		var el sfEl
		json.Unmarshal(raw, &el)
		ts := int64(180000 + 10800*i)
		o := sfObs{Codes: []int{}}
		switch el.K {
		case "u", "len", "wr":
			p.write(p.target(), proj.SfPstData(el.K, el.A, el.B, el.C, el.N, &p.seq, ts))
		case "old":
			var x *sfPstConn
			if len(p.conns) > 0 {
				x = p.conns[0]
			} else {
				x = p.target()
			}
			p.write(x, proj.SfPstData(el.K, el.A, el.B, el.C, el.N, &p.seq, ts))
		case "conn":
			switch el.A {
			case "open":
				p.open()
			case "quiet":
				p.dial()
			case "empty":
				p.closeConn(p.dial(), false)
			case "storm":
				for k := 0; k < 3; k++ {
					p.closeConn(p.dial(), k == 1)
				}
			case "handover":
				// the newest connection is busy with a large frame when its successor arrives with the same: the readers
				// of both are at work; only what the successor carried is waited for
				// (lal may close the first in the middle of its frame)
				x := p.target()
				p.cur = nil
				p.write(x, proj.SfPstPlan{Writes: [][]byte{p.seq.Busy(ts)}})
				p.write(p.dial(), proj.SfPstPlan{Writes: [][]byte{p.seq.Busy(ts + 3600000), p.seq.Good(ts + 7200000)}})
			case "close":
				p.closeConn(p.cur, false)
			case "reset":
				p.closeConn(p.cur, true)
			case "half":
				p.write(p.target(), proj.SfPstPlan{After: "half"})
			}
		case "api":
			switch el.A {
			case "kick":
				o.Codes = sfApiCode(p.kick(p.sid))
			case "kick_other":
				o.Codes = sfApiCode(p.kick(base.UkPrePsPubSession + "999999"))
			case "start2", "start2_udp":
				flag := 1
				if el.A == "start2_udp" {
					flag = 0
				}
				r := sm.CtrlStartRtpPub(base.ApiCtrlStartRtpPubReq{StreamName: p.stream, Port: 0, TimeoutMs: 0, IsTcpFlag: flag})
				o.Codes = sfApiCode(r.ErrorCode)
				if r.ErrorCode == base.ErrorCodeSucc {
					others = append(others, r.Data.SessionId)
				}
			case "tick":
				sfTick++
				sm.VerifTick(sfTick)
			}
		}
		if !p.consumed() {
			p.setNote("frames_not_consumed")
		}
		if el.K == "api" {
			o.Alive = p.settle()
		} else {
			o.Alive, _ = p.registered()
		}
		o.Note, p.note = p.note, ""
		obs = append(obs, o)
		if !o.Alive {
			up = false
			break
		}
	}

	// ---- the end of the scenario
	note := func(s string) {
		if end["note"] == "" {
			end["note"] = s
		}
	}
	if up {
		// the session is served: a fresh connection carries well-formed units (not tried once a step has shown that it is not)
		stuck := false
		for _, o := range obs {
			stuck = stuck || o.Note != ""
		}
		if !stuck {
			p.closeConn(p.cur, false)
			x := p.open()
			p.good(x, 900000)
			if x == nil || !p.consumed() || p.note != "" {
				note("own_not_served " + p.note)
			}
		}
		if c := p.kick(p.sid); c != base.ErrorCodeSucc {
			note(fmt.Sprintf("own_kick_refused %d", c))
		}
		if p.settle() {
			note("own_kick_ignored: the session is still the publisher of its group")
		}
	}
	if sfListening(p.port) {
		note("port_bound: the listener of the ended session is still open")
	}
	p.closeAll()
	for _, id := range others {
		p.kick(id)
	}
	// "second": the same stream name can be started again and is served
	second := false
	q := &sfPst{sm: sm, stream: p.stream}
	q.seq.N = 5000
	if c := q.start(0); c != 0 {
		note(fmt.Sprintf("restart_refused %d", c))
	} else {
		x := q.open()
		q.good(x, 90000)
		second = x != nil && q.consumed() && q.note == "" && sfPstUntil(sfPstWait, func() bool {
			st := sm.StatGroup(q.stream)
			return st != nil && st.VideoCodec != ""
		})
		q.kick(q.sid)
		if q.settle() || sfListening(q.port) {
			note("restart_kick_ignored")
		}
		q.closeAll()
	}
	end["second"] = second
	wait := sfPstWait
	if sfPstLeft > 0 {
		wait = 50 * time.Millisecond // earlier scenarios of this process left some behind already
	}
	if !sfPstUntil(wait, func() bool { return sfPstGoroutines() <= sfPstLeft }) {
		n := sfPstGoroutines()
		note(fmt.Sprintf("goroutine_left: %d of PubSession.runLoopTcp after the sessions ended and all connections were closed", n-sfPstLeft))
		sfPstLeft = n
		sfRetire = true // whatever they do (one that ignores read errors spins), the scenarios behind this one get a fresh process
	}
	sfTick++
	sm.VerifTick(sfTick)
	for _, g := range sm.VerifGroupNames() {
		if g == p.stream {
			note("group_left: the group of the ended session is still there after a tick")
		}
	}
	c1, _ := sfHttpDo(sfHttp.api, proj.SfHttpRequest("GET", "/api/stat/group?stream_name="+live, "HTTP/1.1", []string{"Host: h"}, nil, false), 2*time.Second)
	c2, _ := sfHttpDo(sfHttp.media, proj.SfHttpRequest("GET", "/live/"+live+".flv", "HTTP/1.1", []string{"Host: h"}, nil, false), 2*time.Second)
	end["bystander"] = byOk && by.send(nil).Alive && c1 == 200 && c2 == 200
	return
}

package drv

import (
	"os"
	"path/filepath"

	"lalverif/proj"
)

// What the outputs of the publication that has just ended hold (C16: "pending audio is flushed, the open HLS segment is
// closed and listed, recordings are closed and parse completely"): the number of AAC frames in the TS recording(s), in
// the HLS segments and in the FLV recording(s), read with the independent readers.  Every Probe of the lifecycle driver
// publishes one AAC frame, so the model knows how many the accepted input has sent.  The files are removed afterwards:
// the next publication of the scenario is counted on its own.

// lcTsAudioFrames counts the ADTS frames on the AAC PID(s) of a transport stream (PAT -> PMT -> stream type 0x0f).
func lcTsAudioFrames(b []byte) int {
	pmt, aud := map[int]bool{}, map[int]bool{}
	es := map[int][]byte{}
	for q := 0; q+188 <= len(b); q += 188 {
		pk := b[q : q+188]
		pid := int(pk[1]&0x1f)<<8 | int(pk[2])
		switch {
		case pid == 0:
			p := proj.ParseTsPacket(pk, false)
			if p.Pusi == 1 {
				if sec := proj.ParsePsi(p.Body); !sec.Bad {
					for _, pr := range sec.Programs {
						pmt[pr[1]] = true
					}
				}
			}
		case pmt[pid]:
			p := proj.ParseTsPacket(pk, false)
			if p.Pusi == 1 {
				if sec := proj.ParsePsi(p.Body); !sec.Bad {
					for _, st := range sec.Streams {
						if st.StreamType == 0x0f {
							aud[st.Pid] = true
						}
					}
				}
			}
		case aud[pid]:
			p := proj.ParseTsPacket(pk, true)
			if !p.Bad {
				es[pid] = append(es[pid], p.Payload...)
			}
		}
	}
	n := 0
	for _, e := range es {
		for pos := 0; pos+7 <= len(e) && e[pos] == 0xff && e[pos+1]&0xf0 == 0xf0; {
			fl := int(e[pos+3]&3)<<11 | int(e[pos+4])<<3 | int(e[pos+5])>>5
			if fl < 7 || pos+fl > len(e) {
				break
			}
			pos += fl
			n++
		}
	}
	return n
}

// lcFlvAudioFrames counts the AAC raw-frame tags of an FLV file.
func lcFlvAudioFrames(b []byte) int {
	n := 0
	for pos := 13; pos+11 <= len(b); {
		sz := int(b[pos+1])<<16 | int(b[pos+2])<<8 | int(b[pos+3])
		if pos+11+sz+4 > len(b) {
			break
		}
		if b[pos] == 8 && sz >= 2 && b[pos+11]>>4 == 10 && b[pos+12] == 1 {
			n++
		}
		pos += 11 + sz + 4
	}
	return n
}

// lcMediaCount reads the outputs below dir and removes them.
func lcMediaCount(dir, stream string) M {
	sum := func(pat string, f func([]byte) int) int {
		n := 0
		files, _ := filepath.Glob(pat)
		for _, fn := range files {
			if b, err := os.ReadFile(fn); err == nil {
				n += f(b)
			}
			os.Remove(fn)
		}
		return n
	}
	m := M{"ts": sum(filepath.Join(dir, "ts", "*.ts"), lcTsAudioFrames),
		"hls": sum(filepath.Join(dir, "hls", stream, "*.ts"), lcTsAudioFrames),
		"flv": sum(filepath.Join(dir, "flv", "*.flv"), lcFlvAudioFrames)}
	os.RemoveAll(filepath.Join(dir, "hls", stream))
	return m
}

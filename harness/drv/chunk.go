package drv

import (
	"bytes"
	"encoding/binary"
	"encoding/json"
	"fmt"
	"io"

	"github.com/q191201771/lal/pkg/base"
	"github.com/q191201771/lal/pkg/rtmp"

	"lalverif/proj"
)

// Driver "chunk" (C08).  Two scenario kinds:
//   w2s: lal's writer (message2Chunks) -> independent splitter -> TLC reader spec; the same bytes
//        are also fed to lal's own reader.
//   s2r: chunk sequences chosen by the TLA+ reference writer -> bytes -> lal's ChunkComposer.

type cMsg struct {
	Csid  int    `json:"csid"`
	Ts    [2]int `json:"ts"`
	Len   int    `json:"len"`
	Type  int    `json:"type"`
	Msid  int    `json:"msid"`
	Newcs int    `json:"newcs"`
	Subs  []cSub `json:"subs"`
	Prev  bool   `json:"prev,omitempty"` // w2s: pass the previous header of this csid
	Cs    int    `json:"cs,omitempty"`   // w2s: chunk size for this message
	Id    int    `json:"id"`             // payload code id
}

type cSub struct {
	Type int `json:"type"`
	Len  int `json:"len"`
	Dts  int `json:"dts"`
	Sid  int `json:"sid"` // stream id in the sub-message header; 0: the aggregate's
}

type cStep struct {
	Name  string      `json:"name"`
	Chunk *proj.Chunk `json:"chunk"`
	Msg   *cMsg       `json:"msg"`
}

type cScenario struct {
	Sc    int     `json:"sc"`
	Kind  string  `json:"kind"`
	Cs    int     `json:"cs"` // initial chunk size
	Msgs  []cMsg  `json:"msgs"`
	Steps []cStep `json:"steps"`
	// kind "cmd": the signalling of a client session as rtmp.MessagePacker writes it (Set Chunk Size, connect,
	// createStream, publish or play) for an application name of App bytes and a stream name of Name bytes
	App  int  `json:"app"`
	Name int  `json:"name"`
	Pub  bool `json:"pub"`
}

type cOut struct {
	Csid int    `json:"csid"`
	Type int    `json:"type"`
	Msid int    `json:"msid"`
	Len  int    `json:"len"`
	Ts   [2]int `json:"ts"`
	Ok   bool   `json:"ok"` // payload bytes equal what was submitted
	at   int    // bytes consumed by the reader when the callback fired
}

// timestamp of the first sub-message of an aggregate (only differences to it count): small, ten below 2^24 (the
// later sub-messages need the extended byte of the sub-header), ten below 2^32 (they wrap)
var aggBases = []uint32{1000, 1<<24 - 10, 1<<32 - 10}

// msgPayload builds the payload of a message; for aggregates also returns the expected
// sub-payloads.
func msgPayload(m *cMsg) (payload []byte, subs [][]byte) {
	switch {
	case m.Type == 22 && len(m.Subs) > 0:
		for i, s := range m.Subs {
			body := proj.Payload(m.Id*16+i+1, s.Len)
			subs = append(subs, body)
			h := make([]byte, 11)
			h[0] = byte(s.Type)
			h[1], h[2], h[3] = byte(s.Len>>16), byte(s.Len>>8), byte(s.Len)
			ts := aggBases[m.Id%len(aggBases)] + uint32(s.Dts)
			h[4], h[5], h[6], h[7] = byte(ts>>16), byte(ts>>8), byte(ts), byte(ts>>24)
			sid := m.Msid
			if s.Sid != 0 {
				sid = s.Sid // overridden by the aggregate's stream id (RTMP 1.0 6.1.1)
			}
			h[8], h[9], h[10] = byte(sid>>16), byte(sid>>8), byte(sid)
			payload = append(payload, h...)
			payload = append(payload, body...)
			var back [4]byte
			binary.BigEndian.PutUint32(back[:], uint32(11+s.Len))
			payload = append(payload, back[:]...)
		}
		return
	case m.Type == 1 && m.Newcs > 0:
		payload = make([]byte, m.Len)
		if m.Len >= 4 {
			binary.BigEndian.PutUint32(payload, uint32(m.Newcs))
		}
		return
	default:
		return proj.Payload(m.Id, m.Len), nil
	}
}

type countingReader struct {
	r *bytes.Reader
	n int
}

func (c *countingReader) Read(p []byte) (int, error) {
	n, err := c.r.Read(p)
	c.n += n
	return n, err
}

// runLalReader feeds bytes to lal's ChunkComposer and returns what its callback delivered.
func runLalReader(b []byte, initCs int, expect func(o *cOut, payload []byte) bool) (outs []cOut, errs string) {
	comp := rtmp.NewChunkComposer()
	comp.SetPeerChunkSize(uint32(initCs))
	cr := &countingReader{r: bytes.NewReader(b)}
	err := comp.RunLoop(cr, func(s *rtmp.Stream) error {
		m := rtmp.VerifStreamMsg(s)
		o := cOut{Csid: m.Header.Csid, Type: int(m.Header.MsgTypeId), Msid: m.Header.MsgStreamId,
			Len: int(m.Header.MsgLen), Ts: proj.Limbs(m.Header.TimestampAbs), at: cr.n}
		o.Ok = expect(&o, m.Payload)
		outs = append(outs, o)
		return nil
	})
	switch {
	case err == nil || err == io.EOF:
		errs = "eof"
	case err == io.ErrUnexpectedEOF:
		errs = "unexpected_eof"
	default:
		errs = "error"
	}
	if cr.r.Len() != 0 {
		errs = "stopped_early"
	}
	return
}

func init() { Registry["chunk"] = chunkDriver }

func chunkDriver(env *Env) error {
	tw, err := NewTraceWriter(env.Out)
	if err != nil {
		return err
	}
	defer tw.Close()
	return ReadScenarios(env.In, func(raw json.RawMessage) error {
		var sc cScenario
		if err := json.Unmarshal(raw, &sc); err != nil {
			return err
		}
		switch sc.Kind {
		case "w2s":
			chunkW2S(&sc, tw)
		case "s2r":
			chunkS2R(&sc, tw)
		case "cmd":
			chunkCmd(&sc, tw)
		default:
			return fmt.Errorf("bad kind %q", sc.Kind)
		}
		return nil
	})
}

// expected payloads in delivery order, shared by both kinds
type expQueue struct {
	items map[int][][]byte // per csid, in submission order (messages on one csid complete in order)
}

func (q *expQueue) push(csid int, p []byte) {
	if q.items == nil {
		q.items = map[int][][]byte{}
	}
	q.items[csid] = append(q.items[csid], p)
}

func (q *expQueue) check(o *cOut, p []byte) bool {
	l := q.items[o.Csid]
	if len(l) == 0 {
		return false
	}
	q.items[o.Csid] = l[1:]
	return bytes.Equal(l[0], p)
}

func chunkProtect(f func()) (p string) {
	defer func() {
		if r := recover(); r != nil {
			p = fmt.Sprint(r)
		}
	}()
	f()
	return ""
}

func chunkW2S(sc *cScenario, tw *TraceWriter) {
	tw.Emit(M{"ev": "reset", "sc": sc.Sc, "kind": sc.Kind, "cs": sc.Cs, "nmsgs": len(sc.Msgs)})
	prev := map[int]*base.RtmpHeader{}
	var wire []byte
	q := &expQueue{}
	type span struct {
		from, to int
		m        *cMsg
		payload  []byte
	}
	var spans []span
	cs := sc.Cs
	for i := range sc.Msgs {
		m := &sc.Msgs[i]
		m.Id = i + 1
		payload, _ := msgPayload(m)
		h := &base.RtmpHeader{Csid: m.Csid, MsgLen: uint32(len(payload)), MsgTypeId: uint8(m.Type),
			MsgStreamId: m.Msid, TimestampAbs: proj.FromLimbs(m.Ts[:])}
		var p *base.RtmpHeader
		if m.Prev {
			p = prev[m.Csid]
		}
		var out []byte
		pn := chunkProtect(func() {
			out = rtmp.VerifMessage2Chunks(payload, h, p, cs)
			if p == nil && cs == rtmp.LocalChunkSize {
				// production entry point must agree with the hook
				if !bytes.Equal(out, rtmp.Message2Chunks(payload, h)) {
					out = append(out, 0xEE) // make the divergence visible as leftover
				}
			}
		})
		if pn != "" {
			// lal's writer panicked on this message: an End that the specification cannot accept
			tw.Emit(M{"ev": "End", "leftover": -1, "lalout": []cOut{}, "lalerr": "panic in Message2Chunks: " + pn})
			return
		}
		spans = append(spans, span{len(wire), len(wire) + len(out), m, payload})
		wire = append(wire, out...)
		prev[m.Csid] = h
		q.push(m.Csid, payload)
		if m.Type == 1 && m.Newcs > 0 {
			cs = m.Newcs
		}
	}
	chunks, leftover := proj.SplitChunks(wire, sc.Cs)
	// attribute chunks to messages by byte position
	pos := 0
	for _, c := range chunks {
		enc := len(proj.EncodeChunk(c, c.Payload))
		var m *cMsg
		var payload []byte
		for _, s := range spans {
			if pos >= s.from && pos < s.to {
				m, payload = s.m, s.payload
			}
		}
		dataOk := false
		if m != nil && c.Off+c.Data <= len(payload) {
			dataOk = bytes.Equal(c.Payload, payload[c.Off:c.Off+c.Data])
		}
		tw.Emit(M{"ev": "Chunk", "chunk": c, "msg": m, "dataOk": dataOk, "short": c.Short})
		pos += enc
	}
	outs, errs := runLalReader(wire, sc.Cs, q.check)
	if outs == nil {
		outs = []cOut{}
	}
	tw.Emit(M{"ev": "End", "leftover": leftover, "lalout": outs, "lalerr": errs})
}

// chunkCmd: lal's writer of signalling messages (MessagePacker: one chunk built in place, or message2Chunks for bodies
// above the chunk size).  The bytes are read by the independent reader; the trace has the shape of a w2s scenario with
// four messages, so that the specification judges chunk headers, message completion, the chunk size in force and the
// agreement of lal's own reader; dataOk also says that the names arrived intact.
func chunkCmd(sc *cScenario, tw *TraceWriter) {
	name := func(n int, c byte) string {
		b := make([]byte, n)
		for i := range b {
			b[i] = c + byte(i%23)
		}
		return string(b)
	}
	app, stream := name(sc.App, 'A'), name(sc.Name, 'a')
	var wire []byte
	pn := chunkProtect(func() { wire = rtmp.VerifPackCommands(app, "rtmp://h/"+app, stream, sc.Pub) })
	tw.Emit(M{"ev": "reset", "sc": sc.Sc, "kind": "w2s", "cs": 128, "nmsgs": 4})
	if pn != "" {
		tw.Emit(M{"ev": "End", "leftover": -1, "lalout": []cOut{}, "lalerr": "panic in MessagePacker: " + pn})
		return
	}
	msgs, _ := proj.ReadRtmpMessages(wire, 128)
	var cms []*cMsg
	q := &expQueue{}
	for i, m := range msgs {
		cm := &cMsg{Csid: m.Csid, Len: len(m.Payload), Type: m.Type, Msid: m.Msid, Subs: []cSub{}, Id: i + 1}
		l := proj.Limbs(m.Ts)
		cm.Ts = [2]int{l[0], l[1]}
		if m.Type == 1 && len(m.Payload) >= 4 {
			cm.Newcs = int(binary.BigEndian.Uint32(m.Payload))
		}
		cms = append(cms, cm)
		q.push(m.Csid, m.Payload)
	}
	namesOk := len(msgs) == 4 && bytes.Contains(msgs[1].Payload, []byte(app)) && bytes.Contains(msgs[3].Payload, []byte(stream))
	chunks, leftover := proj.SplitChunks(wire, 128)
	k, got := 0, 0
	for _, c := range chunks {
		m := &cMsg{Subs: []cSub{}} // a chunk beyond the messages the reader made out: no message to attribute it to
		dataOk := false
		if k < len(cms) {
			m = cms[k]
			p := msgs[k].Payload
			dataOk = namesOk && c.Off+c.Data <= len(p) && bytes.Equal(c.Payload, p[c.Off:c.Off+c.Data])
			got += c.Data
			if got >= cms[k].Len {
				k, got = k+1, 0
			}
		}
		tw.Emit(M{"ev": "Chunk", "chunk": c, "msg": m, "dataOk": dataOk, "short": c.Short})
	}
	outs, errs := runLalReader(wire, 128, q.check)
	if outs == nil {
		outs = []cOut{}
	}
	tw.Emit(M{"ev": "End", "leftover": leftover, "lalout": outs, "lalerr": errs})
}

func chunkS2R(sc *cScenario, tw *TraceWriter) {
	tw.Emit(M{"ev": "reset", "sc": sc.Sc, "kind": sc.Kind, "cs": sc.Cs, "nmsgs": 0})
	var wire []byte
	var ends []int
	q := &expQueue{}
	payloads := map[int][]byte{}
	nid := 0
	for i := range sc.Steps {
		st := &sc.Steps[i]
		m := st.Msg
		if st.Name == "Begin" {
			nid++
			m.Id = nid
			p, subs := msgPayload(m)
			payloads[m.Csid] = p
			if subs != nil {
				for _, sp := range subs {
					q.push(m.Csid, sp)
				}
			} else {
				q.push(m.Csid, p)
			}
		}
		p := payloads[m.Csid]
		c := st.Chunk
		wire = append(wire, proj.EncodeChunk(c, p[c.Off:c.Off+c.Data])...)
		ends = append(ends, len(wire))
	}
	outs, errs := runLalReader(wire, sc.Cs, q.check)
	k := 0
	for i := range sc.Steps {
		st := &sc.Steps[i]
		lo := []cOut{}
		for k < len(outs) && outs[k].at <= ends[i] {
			lo = append(lo, outs[k])
			k++
		}
		tw.Emit(M{"ev": "Feed", "chunk": st.Chunk, "msg": st.Msg, "lalout": lo})
	}
	rest := []cOut{}
	for ; k < len(outs); k++ {
		rest = append(rest, outs[k])
	}
	tw.Emit(M{"ev": "End", "leftover": 0, "lalout": rest, "lalerr": errs})
}

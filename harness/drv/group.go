package drv

import (
	"bytes"
	"encoding/json"
	"fmt"
	"os"
	"path/filepath"

	"github.com/q191201771/lal/pkg/base"
	"github.com/q191201771/lal/pkg/httpflv"
	"github.com/q191201771/lal/pkg/logic"
	"github.com/q191201771/lal/pkg/rtmp"

	"lalverif/proj"
)

// Driver "group" (C01, C02, C16 start-clean): a bare logic.Group with real rtmp.ServerSession /
// httpflv.SubSession objects on in-memory connections.  Every abstract action is one call of the
// Go method that forms the critical section; after it, everything each consumer received is
// projected back to message ids.

type gCfg struct {
	RtmpSubs []string `json:"rtmpSubs"`
	FlvSubs  []string `json:"flvSubs"`
	GopNumR  int      `json:"gopNumR"`
	GopNumF  int      `json:"gopNumF"`
	CapR     int      `json:"capR"`
	CapF     int      `json:"capF"`
	MwBytes  int      `json:"mwBytes"`
	Record   bool     `json:"record"`
	Ws       bool     `json:"ws"`     // HTTP-FLV consumers over WebSocket
	LenMode  string   `json:"lenMode"` // units | edges
}

type gStep struct {
	Name string `json:"name"`
	C    string `json:"c"`
	M    *AMsg  `json:"m"`
}

type gScenario struct {
	Sc    int     `json:"sc"`
	Cfg   gCfg    `json:"cfg"`
	CfgId string  `json:"cfgId"`
	Steps []gStep `json:"steps"`
}

type nullObserver struct{}

func (nullObserver) OnRtmpConnect(session *rtmp.ServerSession, opa rtmp.ObjectPairArray) {}
func (nullObserver) OnNewRtmpPubSession(session *rtmp.ServerSession) error               { return nil }
func (nullObserver) OnNewRtmpSubSession(session *rtmp.ServerSession) error               { return nil }

type groupObserver struct{}

func (groupObserver) CleanupHlsIfNeeded(appName string, streamName string, path string) {}
func (groupObserver) OnHlsMakeTs(info base.HlsMakeTsInfo)                                {}
func (groupObserver) OnRelayPullStart(info base.PullStartInfo)                           {}
func (groupObserver) OnRelayPullStop(info base.PullStopInfo)                             {}

type gConsumer struct {
	kind   string // rtmp | flv
	conn   *MemConn
	rs     *rtmp.ServerSession
	fs     *httpflv.SubSession
	all    []byte // every byte received since join
	nseen  int    // messages already reported
	ws     bool
}

type sentMsg struct {
	msg  base.RtmpMsg
	woSdf []byte
}

var edgeLens = []int{8, 9, 4095 - 10, 4096 - 10, 4097 - 10, 8192 - 10, 8193 - 10, 300}
var tsPool = []uint32{0, 1, 40, 0xFFFFFE, 0xFFFFFF, 0x1000000, 0x7FFFFFFF, 0x80000000, 0xFFFFFFFF, 5}

func init() { Registry["group"] = groupDriver }

func groupDriver(env *Env) error {
	httpflv.SubSessionWriteChanSize = 0
	tw, err := NewTraceWriter(env.Out)
	if err != nil {
		return err
	}
	defer tw.Close()
	tmp, err := os.MkdirTemp("", "lalverif-group")
	if err != nil {
		return err
	}
	defer os.RemoveAll(tmp)
	return ReadScenarios(env.In, func(raw json.RawMessage) error {
		var sc gScenario
		if err := json.Unmarshal(raw, &sc); err != nil {
			return err
		}
		runGroupScenario(&sc, tw, tmp, env.Seed)
		return nil
	})
}

// drain projects what a consumer received since the last call to message ids.
func (c *gConsumer) drain(sent map[int]*sentMsg) (ids []int, bad []string) {
	out, _ := c.conn.Drain()
	c.all = append(c.all, out...)
	ids = []int{}
	type dm struct {
		typ     int
		ts      uint32
		payload []byte
		hdrOk   bool
	}
	var ms []dm
	if c.kind == "rtmp" {
		pm, _ := proj.ReadRtmpMessages(c.all, 4096)
		for _, m := range pm {
			want := map[int]int{18: 5, 8: 6, 9: 7}[m.Type]
			ms = append(ms, dm{m.Type, m.Ts, m.Payload, m.Msid == 1 && m.Csid == want})
		}
	} else {
		b := c.all
		k := bytes.Index(b, []byte("\r\n\r\n"))
		if k < 0 {
			return ids, nil
		}
		b = b[k+4:]
		if c.ws {
			var left int
			_, b, left = proj.Deframe(b)
			if left != 0 {
				bad = append(bad, "ws_partial_frame")
			}
		}
		elems, left := proj.ParseFlvStream(b)
		if left != 0 && len(b) >= 13 {
			bad = append(bad, "flv_partial_tag")
		}
		for _, e := range elems {
			if e.Tag == nil {
				continue
			}
			ts := uint32(e.Tag.TsExt)<<24 | uint32(e.Tag.TsLow)
			ms = append(ms, dm{e.Tag.Type, ts, e.Payload, e.Tag.Sid == 0 && e.Tag.Prev == 11+e.Tag.Size})
		}
	}
	for i := c.nseen; i < len(ms); i++ {
		m := ms[i]
		id, sdf := IdentifyMsg(m.typ, m.payload, m.ts)
		ids = append(ids, id)
		s := sent[id]
		if s == nil {
			bad = append(bad, fmt.Sprintf("unknown_message type=%d", m.typ))
			continue
		}
		want := s.msg.Payload
		if m.typ == 18 {
			want = s.woSdf
			if sdf {
				bad = append(bad, "meta_with_sdf")
			}
		}
		if !bytes.Equal(want, m.payload) {
			bad = append(bad, fmt.Sprintf("payload_differs id=%d", id))
		}
		if m.ts != s.msg.Header.TimestampAbs {
			bad = append(bad, fmt.Sprintf("timestamp_differs id=%d", id))
		}
		if int(s.msg.Header.MsgTypeId) != m.typ || !m.hdrOk {
			bad = append(bad, fmt.Sprintf("header_differs id=%d", id))
		}
	}
	c.nseen = len(ms)
	return
}

func runGroupScenario(sc *gScenario, tw *TraceWriter, tmp string, seed int64) {
	cfg := &logic.Config{}
	cfg.RtmpConfig.Enable = true
	cfg.RtmpConfig.GopNum = sc.Cfg.GopNumR
	cfg.RtmpConfig.SingleGopMaxFrameNum = sc.Cfg.CapR
	cfg.RtmpConfig.MergeWriteSize = sc.Cfg.MwBytes
	cfg.HttpflvConfig.Enable = true
	cfg.HttpflvConfig.GopNum = sc.Cfg.GopNumF
	cfg.HttpflvConfig.SingleGopMaxFrameNum = sc.Cfg.CapF
	recDir := filepath.Join(tmp, fmt.Sprintf("rec%d", sc.Sc))
	if sc.Cfg.Record {
		os.MkdirAll(recDir, 0755)
		cfg.RecordConfig.EnableFlv = true
		cfg.RecordConfig.FlvOutPath = recDir
	}
	stream := fmt.Sprintf("s%d", sc.Sc)
	g := logic.NewGroup("live", stream, cfg, logic.GroupOption{}, groupObserver{})
	cons := map[string]*gConsumer{}
	names := append(append([]string{}, sc.Cfg.RtmpSubs...), sc.Cfg.FlvSubs...)
	sent := map[int]*sentMsg{}
	var pub *rtmp.ServerSession
	tw.Emit(M{"ev": "reset", "sc": sc.Sc, "cfgId": sc.CfgId})
	drainAll := func() (M, []string) {
		del := M{}
		bad := []string{}
		for _, n := range names {
			if c := cons[n]; c != nil {
				ids, b := c.drain(sent)
				del[n] = ids
				bad = append(bad, b...)
			} else {
				del[n] = []int{}
			}
		}
		return del, bad
	}
	isRtmp := func(n string) bool {
		for _, x := range sc.Cfg.RtmpSubs {
			if x == n {
				return true
			}
		}
		return false
	}
	readRec := func() []int {
		ids := []int{}
		files, _ := filepath.Glob(filepath.Join(recDir, "*.flv"))
		for _, f := range files {
			b, _ := os.ReadFile(f)
			elems, left := proj.ParseFlvStream(b)
			if left != 0 {
				ids = append(ids, -1)
			}
			for _, e := range elems {
				if e.Tag != nil {
					ts := uint32(e.Tag.TsExt)<<24 | uint32(e.Tag.TsLow)
					id, _ := IdentifyMsg(e.Tag.Type, e.Payload, ts)
					s := sent[id]
					if s == nil || ts != s.msg.Header.TimestampAbs || e.Tag.Prev != 11+e.Tag.Size {
						id = -id
					} else if e.Tag.Type == 18 {
						if !bytes.Equal(e.Payload, s.woSdf) {
							id = -id
						}
					} else if !bytes.Equal(e.Payload, s.msg.Payload) {
						id = -id
					}
					ids = append(ids, id)
				}
			}
			os.Remove(f)
		}
		return ids
	}
	for _, st := range sc.Steps {
		switch st.Name {
		case "PubArrive":
			pub = rtmp.NewServerSession(nullObserver{}, NewMemConn("pub"))
			err := g.AddRtmpPubSession(pub)
			tw.Emit(M{"ev": "PubArrive", "ok": err == nil})
		case "PubLeave":
			g.DelRtmpPubSession(pub)
			del, bad := drainAll()
			tw.Emit(M{"ev": "PubLeave", "del": del, "bad": bad, "rec": readRec()})
		case "Join":
			c := &gConsumer{conn: NewMemConn(st.C), ws: sc.Cfg.Ws}
			if isRtmp(st.C) {
				c.kind = "rtmp"
				c.rs = rtmp.NewServerSession(nullObserver{}, c.conn)
				g.AddRtmpSubSession(c.rs)
			} else {
				c.kind = "flv"
				u, _ := base.ParseUrl("http://h/live/"+stream+".flv", 80)
				c.fs = httpflv.NewSubSession(c.conn, u, sc.Cfg.Ws, "dGhlIHNhbXBsZSBub25jZQ==")
				g.AddHttpflvSubSession(c.fs)
			}
			cons[st.C] = c
			tw.Emit(M{"ev": "Join", "c": st.C})
		case "Leave":
			c := cons[st.C]
			if c != nil {
				if c.kind == "rtmp" {
					g.DelRtmpSubSession(c.rs)
				} else {
					g.DelHttpflvSubSession(c.fs)
				}
				delete(cons, st.C)
			}
			tw.Emit(M{"ev": "Leave", "c": st.C})
		case "Publish":
			m := st.M
			n := 900 + (m.Id*37+int(seed)*11)%90
			if m.Sz >= 4 {
				n = 3950 + (m.Id*13+int(seed)*7)%40
			}
			if sc.Cfg.LenMode == "edges" {
				n = edgeLens[(m.Id+int(seed)+sc.Sc)%len(edgeLens)]
			}
			ts := tsPool[(m.Id*3+int(seed)+sc.Sc)%len(tsPool)]
			msg := BuildMsg(m, n, ts)
			ts = msg.Header.TimestampAbs
			s := &sentMsg{msg: msg.Clone(), woSdf: msg.Payload}
			if m.T == "meta" && m.Id%2 == 1 {
				s.woSdf = msg.Payload[16:]
			}
			sent[m.Id] = s
			wsize := 0
			if len(msg.Payload) > 0 {
				wsize = len(proj.EncodeChunk(&proj.Chunk{Fmt: 0, Csid: 6}, nil)) + len(s.woSdf)
				cont := (len(s.woSdf) - 1) / 4096
				wsize += cont
				if ts >= 0xFFFFFF {
					wsize += 4 * (cont + 1)
				}
			}
			g.OnReadRtmpAvMsg(msg)
			del, bad := drainAll()
			mm := *m
			mm.Sz = wsize
			tw.Emit(M{"ev": "Publish", "m": mm, "del": del, "bad": bad})
		}
	}
	// tear down
	if pub != nil {
		g.DelRtmpPubSession(pub)
	}
	for _, c := range cons {
		if c.kind == "rtmp" {
			g.DelRtmpSubSession(c.rs)
		} else {
			g.DelHttpflvSubSession(c.fs)
		}
	}
	readRec()
}

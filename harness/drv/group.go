package drv

import (
	"bytes"
	"encoding/json"
	"fmt"
	"github.com/q191201771/lal/pkg/rtsp"
	"os"
	"path/filepath"
	"sync"
	"time"

	"github.com/q191201771/lal/pkg/base"
	"github.com/q191201771/lal/pkg/httpflv"
	"github.com/q191201771/lal/pkg/logic"
	"github.com/q191201771/lal/pkg/rtmp"

	"lalverif/proj"
)

// Driver "group" (C01, C02, C16 start-clean): a bare logic.Group with real rtmp.ServerSession /
// httpflv.SubSession objects on in-memory connections.  Every abstract action is one call of the
// Go method that forms the critical section; after it, everything each consumer received is
// projected back to message ids.

type gCfg struct {
	RtmpSubs  []string `json:"rtmpSubs"`
	FlvSubs   []string `json:"flvSubs"`
	GopNumR   int      `json:"gopNumR"`
	GopNumF   int      `json:"gopNumF"`
	CapR      int      `json:"capR"`
	CapF      int      `json:"capF"`
	MwBytes   int      `json:"mwBytes"`
	Record    bool     `json:"record"`
	Ws        bool     `json:"ws"`        // HTTP-FLV consumers over WebSocket
	LenMode   string   `json:"lenMode"`   // units | edges
	PushSubs  []string `json:"pushSubs"`  // relay-push targets (gated stub RTMP servers on loopback)
	RtmpOff   bool     `json:"rtmpOff"`   // rtmp.enable = rtmps_enable = false; the publisher is an RTSP one
	HttpsOnly bool     `json:"httpsOnly"` // the HTTP-FLV server is configured for https only (enable=false, enable_https=true)
}

type gStep struct {
	Name string `json:"name"`
	C    string `json:"c"`
	M    *AMsg  `json:"m"`
	// predicted deliveries (hint only: how long to wait for what travels over a real connection)
	Del map[string][]int `json:"del"`
}

type gScenario struct {
	Sc    int     `json:"sc"`
	Cfg   gCfg    `json:"cfg"`
	CfgId string  `json:"cfgId"`
	Steps []gStep `json:"steps"`
}

type nullObserver struct{}

func (nullObserver) OnRtmpConnect(session *rtmp.ServerSession, opa rtmp.ObjectPairArray) {}
func (nullObserver) OnNewRtmpPubSession(session *rtmp.ServerSession) error               { return nil }
func (nullObserver) OnNewRtmpSubSession(session *rtmp.ServerSession) error               { return nil }

type groupObserver struct{}

func (groupObserver) CleanupHlsIfNeeded(appName string, streamName string, path string) {}
func (groupObserver) OnHlsMakeTs(info base.HlsMakeTsInfo)                               {}
func (groupObserver) OnRelayPullStart(info base.PullStartInfo)                          {}
func (groupObserver) OnRelayPullStop(info base.PullStopInfo)                            {}

type gConsumer struct {
	kind  string // rtmp | flv | push
	conn  *MemConn
	push  *gPushTarget
	rs    *rtmp.ServerSession
	fs    *httpflv.SubSession
	all   []byte // every byte received since join
	nseen int    // messages already reported
	ws    bool
}

type sentMsg struct {
	msg   base.RtmpMsg
	woSdf []byte
}

var edgeLens = []int{8, 9, 4095 - 10, 4096 - 10, 4097 - 10, 8192 - 10, 8193 - 10, 300}

// with WebSocket consumers also the payload sizes around a 65535 / 65536-byte FLV tag (tag = 11 + n + 4 bytes)
var wsEdgeLens = []int{8, 9, 4096 - 10, 300, 65520 - 10, 65521 - 10, 65522 - 10, 8193 - 10, 65521, 120}
var tsPool = []uint32{0, 1, 40, 0xFFFFFE, 0xFFFFFF, 0x1000000, 0x7FFFFFFF, 0x80000000, 0xFFFFFFFF, 5}

func init() { Registry["group"] = groupDriver }

func groupDriver(env *Env) error {
	httpflv.SubSessionWriteChanSize = 0
	tw, err := NewTraceWriter(env.Out)
	if err != nil {
		return err
	}
	defer tw.Close()
	tmp, err := os.MkdirTemp("", "lalverif-group")
	if err != nil {
		return err
	}
	defer os.RemoveAll(tmp)
	var scs []*gScenario
	if err := ReadScenarios(env.In, func(raw json.RawMessage) error {
		var sc gScenario
		if err := json.Unmarshal(raw, &sc); err != nil {
			return err
		}
		scs = append(scs, &sc)
		return nil
	}); err != nil {
		return err
	}
	// scenarios are independent (own Group, own consumers, own directory): those with relay-push
	// targets spend their time waiting for loopback connections, so they run concurrently; the
	// traces are written in scenario order
	bufs := make([]bytes.Buffer, len(scs))
	sem := make(chan struct{}, 12)
	var wg sync.WaitGroup
	for i := range scs {
		run := func(i int) {
			mw := NewMemTraceWriter(&bufs[i])
			runGroupScenario(scs[i], mw, tmp, env.Seed)
			mw.Flush()
		}
		if len(scs[i].Cfg.PushSubs) == 0 {
			run(i)
			continue
		}
		wg.Add(1)
		sem <- struct{}{}
		go func(i int) {
			defer wg.Done()
			defer func() { <-sem }()
			run(i)
		}(i)
	}
	wg.Wait()
	for i := range bufs {
		tw.Raw(bufs[i].Bytes())
	}
	return nil
}

// drain projects what a consumer received since the last call to message ids.
func (c *gConsumer) drain(sent map[int]*sentMsg) (ids []int, bad []string) {
	if c.conn != nil {
		out, _ := c.conn.Drain()
		c.all = append(c.all, out...)
	}
	ids = []int{}
	type dm struct {
		typ     int
		ts      uint32
		payload []byte
		hdrOk   bool
	}
	var ms []dm
	if c.kind == "push" {
		c.push.mu.Lock()
		for _, m := range c.push.msgs {
			want := map[int]int{18: 5, 8: 6, 9: 7}[int(m.Header.MsgTypeId)]
			ms = append(ms, dm{int(m.Header.MsgTypeId), m.Header.TimestampAbs, m.Payload, m.Header.MsgStreamId == 1 && m.Header.Csid == want})
		}
		c.push.mu.Unlock()
	} else if c.kind == "rtmp" {
		pm, _ := proj.ReadRtmpMessages(c.all, 4096)
		for _, m := range pm {
			want := map[int]int{18: 5, 8: 6, 9: 7}[m.Type]
			ms = append(ms, dm{m.Type, m.Ts, m.Payload, m.Msid == 1 && m.Csid == want})
		}
	} else {
		b := c.all
		k := bytes.Index(b, []byte("\r\n\r\n"))
		if k < 0 {
			return ids, nil
		}
		b = b[k+4:]
		if c.ws {
			var left int
			_, b, left = proj.Deframe(b)
			if left != 0 {
				bad = append(bad, "ws_partial_frame")
			}
		}
		elems, left := proj.ParseFlvStream(b)
		if left != 0 && len(b) >= 13 {
			bad = append(bad, "flv_partial_tag")
		}
		for _, e := range elems {
			if e.Tag == nil {
				continue
			}
			ts := uint32(e.Tag.TsExt)<<24 | uint32(e.Tag.TsLow)
			ms = append(ms, dm{e.Tag.Type, ts, e.Payload, e.Tag.Sid == 0 && e.Tag.Prev == 11+e.Tag.Size})
		}
	}
	for i := c.nseen; i < len(ms); i++ {
		m := ms[i]
		id, sdf := IdentifyMsg(m.typ, m.payload, m.ts)
		ids = append(ids, id)
		s := sent[id]
		if s == nil {
			bad = append(bad, fmt.Sprintf("unknown_message type=%d", m.typ))
			continue
		}
		want := s.msg.Payload
		if m.typ == 18 && c.kind == "push" {
			// relay push: the @setDataFrame string is ensured
			want = append(append([]byte{}, setDataFramePrefix...), s.woSdf...)
			if !sdf {
				bad = append(bad, "meta_without_sdf")
			}
		} else if m.typ == 18 {
			want = s.woSdf
			if sdf {
				bad = append(bad, "meta_with_sdf")
			}
		}
		if !bytes.Equal(want, m.payload) {
			bad = append(bad, fmt.Sprintf("payload_differs id=%d", id))
		}
		if m.ts != s.msg.Header.TimestampAbs {
			bad = append(bad, fmt.Sprintf("timestamp_differs id=%d", id))
		}
		if int(s.msg.Header.MsgTypeId) != m.typ || !m.hdrOk {
			bad = append(bad, fmt.Sprintf("header_differs id=%d", id))
		}
	}
	c.nseen = len(ms)
	return
}

func runGroupScenario(sc *gScenario, tw *TraceWriter, tmp string, seed int64) {
	cfg := &logic.Config{}
	cfg.RtmpConfig.Enable = !sc.Cfg.RtmpOff
	cfg.RtmpConfig.GopNum = sc.Cfg.GopNumR
	cfg.RtmpConfig.SingleGopMaxFrameNum = sc.Cfg.CapR
	cfg.RtmpConfig.MergeWriteSize = sc.Cfg.MwBytes
	cfg.HttpflvConfig.Enable = !sc.Cfg.HttpsOnly
	cfg.HttpflvConfig.EnableHttps = sc.Cfg.HttpsOnly
	cfg.HttpflvConfig.GopNum = sc.Cfg.GopNumF
	cfg.HttpflvConfig.SingleGopMaxFrameNum = sc.Cfg.CapF
	recDir := filepath.Join(tmp, fmt.Sprintf("rec%d", sc.Sc))
	if sc.Cfg.Record {
		os.MkdirAll(recDir, 0755)
		cfg.RecordConfig.EnableFlv = true
		cfg.RecordConfig.FlvOutPath = recDir
	}
	stream := fmt.Sprintf("s%d", sc.Sc)
	targets := map[string]*lcOrigin{}
	for _, t := range sc.Cfg.PushSubs {
		o := newLcOrigin()
		if o == nil {
			continue
		}
		defer o.close()
		targets[t] = o
		cfg.RelayPushConfig.Enable = true
		cfg.RelayPushConfig.AddrList = append(cfg.RelayPushConfig.AddrList, o.ln.Addr().String())
	}
	g := logic.NewGroup("live", stream, cfg, logic.GroupOption{}, groupObserver{})
	cons := map[string]*gConsumer{}
	names := append(append(append([]string{}, sc.Cfg.RtmpSubs...), sc.Cfg.FlvSubs...), sc.Cfg.PushSubs...)
	snapInt := func(k string) int {
		if v, ok := g.VerifSnapshot()[k].(int); ok {
			return v
		}
		return 0
	}
	// what travels to a push target crosses a real connection: wait (bounded) until the target has
	// received as many messages as the model predicts; what is there afterwards is the observation
	waitPush := func(hint map[string][]int) {
		for n, c := range cons {
			if c.kind != "push" {
				continue
			}
			want := c.nseen + len(hint[n])
			waitFor(400*time.Millisecond, func() bool { return c.push.count() >= want })
		}
	}
	sent := map[int]*sentMsg{}
	var pub *rtmp.ServerSession
	var rpub *rtsp.PubSession
	delPub := func() {
		if rpub != nil {
			g.DelRtspPubSession(rpub)
			rpub = nil
		} else {
			g.DelRtmpPubSession(pub)
		}
	}
	tw.Emit(M{"ev": "reset", "sc": sc.Sc, "cfgId": sc.CfgId})
	drainAll := func() (M, []string) {
		del := M{}
		bad := []string{}
		for _, n := range names {
			if c := cons[n]; c != nil {
				ids, b := c.drain(sent)
				del[n] = ids
				bad = append(bad, b...)
			} else {
				del[n] = []int{}
			}
		}
		return del, bad
	}
	isRtmp := func(n string) bool {
		for _, x := range sc.Cfg.RtmpSubs {
			if x == n {
				return true
			}
		}
		return false
	}
	readRec := func() []int {
		ids := []int{}
		files, _ := filepath.Glob(filepath.Join(recDir, "*.flv"))
		for _, f := range files {
			b, _ := os.ReadFile(f)
			elems, left := proj.ParseFlvStream(b)
			if left != 0 {
				ids = append(ids, -1)
			}
			for _, e := range elems {
				if e.Tag != nil {
					ts := uint32(e.Tag.TsExt)<<24 | uint32(e.Tag.TsLow)
					id, _ := IdentifyMsg(e.Tag.Type, e.Payload, ts)
					s := sent[id]
					if s == nil || ts != s.msg.Header.TimestampAbs || e.Tag.Prev != 11+e.Tag.Size {
						id = -id
					} else if e.Tag.Type == 18 {
						if !bytes.Equal(e.Payload, s.woSdf) {
							id = -id
						}
					} else if !bytes.Equal(e.Payload, s.msg.Payload) {
						id = -id
					}
					ids = append(ids, id)
				}
			}
			os.Remove(f)
		}
		return ids
	}
	for _, st := range sc.Steps {
		switch st.Name {
		case "PubArrive":
			var err error
			if sc.Cfg.RtmpOff {
				// the group's AvPacket -> RTMP remuxer hands its messages to the same broadcast function as
				// OnReadRtmpAvMsg does, so the scenario's messages are fed that way
				u, _ := base.ParseUrl("rtsp://h/live/"+stream, 554)
				rpub = rtsp.NewPubSession(u, nil)
				err = g.AddRtspPubSession(rpub)
			} else {
				pub = rtmp.NewServerSession(nullObserver{}, NewMemConn("pub"))
				err = g.AddRtmpPubSession(pub)
			}
			for _, o := range targets {
				o := o
				waitFor(3*time.Second, func() bool { o.mu.Lock(); defer o.mu.Unlock(); return len(o.parked) > 0 })
			}
			tw.Emit(M{"ev": "PubArrive", "ok": err == nil})
		case "PubLeave":
			delPub()
			// relay push ends with the publisher: attached sessions are closed by lal; attempts the
			// targets have not accepted yet are refused now.  Both report back asynchronously.
			for _, o := range targets {
				o.mu.Lock()
				for _, c := range o.parked {
					c.Close()
				}
				o.parked = nil
				o.mu.Unlock()
			}
			if len(targets) > 0 {
				waitFor(3*time.Second, func() bool { return snapInt("nPushing") == 0 })
			}
			waitPush(st.Del)
			del, bad := drainAll()
			for n, c := range cons {
				if c.kind == "push" {
					delete(cons, n)
				}
			}
			tw.Emit(M{"ev": "PubLeave", "del": del, "bad": bad, "rec": readRec()})
		case "Join":
			if o := targets[st.C]; o != nil {
				// the target accepts the attempt: a real rtmp.ServerSession serves it; lal attaches the session
				c := &gConsumer{kind: "push", push: &gPushTarget{}}
				before := snapInt("nPush")
				ok := false
				if conn := o.take(); conn != nil {
					o.mu.Lock()
					o.serving = conn
					o.mu.Unlock()
					go func() { _ = rtmp.NewServerSession(c.push, conn).RunLoop() }()
					ok = waitFor(3*time.Second, func() bool { return snapInt("nPush") > before })
				}
				cons[st.C] = c
				tw.Emit(M{"ev": "Join", "c": st.C, "ok": ok})
				continue
			}
			c := &gConsumer{conn: NewMemConn(st.C), ws: sc.Cfg.Ws}
			if isRtmp(st.C) {
				c.kind = "rtmp"
				c.rs = rtmp.NewServerSession(nullObserver{}, c.conn)
				g.AddRtmpSubSession(c.rs)
			} else {
				c.kind = "flv"
				u, _ := base.ParseUrl("http://h/live/"+stream+".flv", 80)
				c.fs = httpflv.NewSubSession(c.conn, u, sc.Cfg.Ws, "dGhlIHNhbXBsZSBub25jZQ==")
				g.AddHttpflvSubSession(c.fs)
			}
			cons[st.C] = c
			tw.Emit(M{"ev": "Join", "c": st.C})
		case "Leave":
			c := cons[st.C]
			if c != nil && c.kind == "push" {
				// the target hangs up
				o := targets[st.C]
				o.mu.Lock()
				if o.serving != nil {
					o.serving.Close()
					o.serving = nil
				}
				o.mu.Unlock()
				waitFor(3*time.Second, func() bool { return snapInt("nPushing") < len(targets) || snapInt("nPush") == 0 })
				delete(cons, st.C)
			} else if c != nil {
				if c.kind == "rtmp" {
					g.DelRtmpSubSession(c.rs)
				} else {
					g.DelHttpflvSubSession(c.fs)
				}
				delete(cons, st.C)
			}
			tw.Emit(M{"ev": "Leave", "c": st.C})
		case "Publish":
			m := st.M
			n := 900 + (m.Id*37+int(seed)*11)%90
			if m.Sz >= 4 {
				n = 3950 + (m.Id*13+int(seed)*7)%40
			}
			if sc.Cfg.LenMode == "edges" {
				n = edgeLens[(m.Id+int(seed)+sc.Sc)%len(edgeLens)]
				if sc.Cfg.Ws && sc.Sc%4 == 0 {
					n = wsEdgeLens[(m.Id+int(seed)+sc.Sc/4)%len(wsEdgeLens)]
				}
			}
			ts := tsPool[(m.Id*3+int(seed)+sc.Sc)%len(tsPool)]
			msg := BuildMsg(m, n, ts)
			ts = msg.Header.TimestampAbs
			s := &sentMsg{msg: msg.Clone()}
			s.woSdf = s.msg.Payload
			if m.T == "meta" && m.Id%2 == 1 {
				s.woSdf = s.msg.Payload[16:]
			}
			sent[m.Id] = s
			wsize := 0
			if len(msg.Payload) > 0 {
				wsize = len(proj.EncodeChunk(&proj.Chunk{Fmt: 0, Csid: 6}, nil)) + len(s.woSdf)
				cont := (len(s.woSdf) - 1) / 4096
				wsize += cont
				if ts >= 0xFFFFFF {
					wsize += 4 * (cont + 1)
				}
			}
			g.OnReadRtmpAvMsg(msg)
			// the publisher's read loop reuses its buffer for the next message (rtmp.ChunkComposer does): whatever lal
			// keeps of this one must be its own copy
			for i := range msg.Payload {
				msg.Payload[i] ^= 0x5a
			}
			waitPush(st.Del)
			del, bad := drainAll()
			mm := *m
			mm.Sz = wsize
			tw.Emit(M{"ev": "Publish", "m": mm, "del": del, "bad": bad})
		}
	}
	// tear down
	if pub != nil || rpub != nil {
		delPub()
	}
	for _, c := range cons {
		if c.kind == "rtmp" {
			g.DelRtmpSubSession(c.rs)
		} else if c.kind == "flv" {
			g.DelHttpflvSubSession(c.fs)
		}
	}
	readRec()
}

// gPushTarget is the stub relay-push target: the observer of a real rtmp.ServerSession that records
// every message lal pushes to it.
type gPushTarget struct {
	mu   sync.Mutex
	msgs []base.RtmpMsg
}

func (t *gPushTarget) OnRtmpConnect(session *rtmp.ServerSession, opa rtmp.ObjectPairArray) {}
func (t *gPushTarget) OnNewRtmpPubSession(session *rtmp.ServerSession) error {
	session.SetPubSessionObserver(t)
	return nil
}
func (t *gPushTarget) OnNewRtmpSubSession(session *rtmp.ServerSession) error { return nil }
func (t *gPushTarget) OnReadRtmpAvMsg(msg base.RtmpMsg) {
	t.mu.Lock()
	t.msgs = append(t.msgs, msg.Clone())
	t.mu.Unlock()
}
func (t *gPushTarget) count() int {
	t.mu.Lock()
	defer t.mu.Unlock()
	return len(t.msgs)
}

var setDataFramePrefix = []byte{2, 0, 13, '@', 's', 'e', 't', 'D', 'a', 't', 'a', 'F', 'r', 'a', 'm', 'e'}

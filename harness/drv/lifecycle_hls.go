package drv

import (
	"fmt"
	"net/http/httptest"
	"os"
	"path/filepath"
	"strings"
	"sync"
	"time"

	"github.com/q191201771/lal/pkg/base"
	"github.com/q191201771/lal/pkg/logic"
)

// HLS subscribers of the lifecycle driver (C03 / C16 / C17): with hls.sub_session_hash_key set, the first
// playlist request of a client creates a session (302 with its session_id), every request with that id keeps it
// alive and the once-per-second sweep of hls.ServerHandler ends it sub_session_timeout_ms after the last request.
// The requests go through (*logic.ServerManager).VerifServeHls, the entry point RunLoop registers with the mux.
//
// The model's timer is abstract: a session that is attached and has not been told to expire belongs to a client
// that asks often enough.  The driver realises that client by requests in the background; it records when a real
// time bound was missed (the scenario is then inconclusive, never judged).

const lcHlsTimeoutMs = 400

type lcHlsSess struct {
	sid    string    // the session_id the redirect carried
	remote string    // remote address of the client (one per model id)
	last   time.Time // last request with the session id
	kept   bool      // its client is still asking
	viaTs  bool      // ... for segments (otherwise for the playlist)
}

type lcHls struct {
	sm      *logic.ServerManager
	stream  string
	timeout time.Duration
	mu      sync.Mutex
	sess    map[string]*lcHlsSess
	stop    chan struct{}
	done    chan struct{}
	late    bool
}

// lcHlsConf is the hls section of the configuration of a scenario with HLS subscribers.
func lcHlsConf(outDir string) string {
	return fmt.Sprintf(`"hls":{"enable":true,"url_pattern":"/hls/","out_path":"%s/hls/","fragment_duration_ms":3000,"fragment_num":6,`+
		`"delete_threshold":6,"cleanup_mode":0,"sub_session_hash_key":"k1","sub_session_timeout_ms":%d},`, outDir, lcHlsTimeoutMs)
}

// lcHlsPlant writes a (finished) playlist for the stream, so that a request that is admitted is answered 200.
func lcHlsPlant(outDir, stream string) {
	d := filepath.Join(outDir, "hls", stream)
	os.MkdirAll(d, 0755)
	os.WriteFile(filepath.Join(d, "playlist.m3u8"),
		[]byte("#EXTM3U\n#EXT-X-VERSION:3\n#EXT-X-TARGETDURATION:3\n#EXTINF:3.000,\n"+stream+"-1-0.ts\n#EXT-X-ENDLIST\n"), 0644)
	seg := make([]byte, 188)
	seg[0] = 0x47
	os.WriteFile(filepath.Join(d, stream+"-1-0.ts"), seg, 0644)
}

func lcHlsGet(sm *logic.ServerManager, target, remote string) (code int, loc string) {
	code, loc, _ = lcHlsGetN(sm, target, remote)
	return
}

// lcHlsGetN also tells how many bytes of content the answer carried.
func lcHlsGetN(sm *logic.ServerManager, target, remote string) (code int, loc string, n int) {
	req, err := httpRequest(target, remote)
	if err != nil {
		return -1, "", 0
	}
	rec := httptest.NewRecorder()
	func() {
		defer func() {
			if x := recover(); x != nil {
				rec.Code = -2
			}
		}()
		sm.VerifServeHls(rec, req)
	}()
	return rec.Code, rec.Header().Get("Location"), rec.Body.Len()
}

func newLcHls(sm *logic.ServerManager, stream string) *lcHls {
	h := &lcHls{sm: sm, stream: stream, timeout: lcHlsTimeoutMs * time.Millisecond, sess: map[string]*lcHlsSess{},
		stop: make(chan struct{}), done: make(chan struct{})}
	go h.loop()
	return h
}

// loop is the clients that keep asking: every attached session whose client has not gone silent is requested
// several times per timeout.  An iteration that comes much too late means the process stalled.
func (h *lcHls) loop() {
	defer close(h.done)
	period := h.timeout / 8
	prev := time.Now()
	for {
		select {
		case <-h.stop:
			return
		case <-time.After(period):
		}
		now := time.Now()
		h.mu.Lock()
		if now.Sub(prev) > period+h.timeout/2 {
			h.late = true
		}
		for _, s := range h.sess {
			if s.kept {
				h.touch(s, s.viaTs)
			}
		}
		h.mu.Unlock()
		prev = time.Now()
	}
}

// touch sends one request with the session id (h.mu held).  A request of a client that is asking which comes too
// close to the timeout means that the outcome can no longer be attributed.
func (h *lcHls) touch(s *lcHlsSess, ts bool) int {
	if s.kept && time.Since(s.last) > h.timeout*6/10 {
		h.late = true
	}
	target := "/hls/" + h.stream + ".m3u8"
	if ts {
		target = "/hls/" + h.stream + "-1-0.ts"
	}
	code, _ := lcHlsGet(h.sm, target+"?session_id="+s.sid, s.remote)
	s.last = time.Now()
	return code
}

func (h *lcHls) close() {
	close(h.stop)
	<-h.done
}

func (h *lcHls) isLate() bool {
	h.mu.Lock()
	defer h.mu.Unlock()
	return h.late
}

// open is the first playlist request of client x.
func (h *lcHls) open(x, remote string, viaTs bool) string {
	code, loc := lcHlsGet(h.sm, "/hls/"+h.stream+".m3u8", remote)
	sid := ""
	if k := strings.Index(loc, "session_id="); k >= 0 {
		sid = loc[k+len("session_id="):]
	}
	if code != 302 || sid == "" {
		return fmt.Sprintf("err:%d", code)
	}
	h.mu.Lock()
	h.sess[x] = &lcHlsSess{sid: sid, remote: remote, last: time.Now(), kept: true, viaTs: viaTs}
	h.mu.Unlock()
	return "ok"
}

// poll is one request of client x with its session id.
func (h *lcHls) poll(x, how string) string {
	h.mu.Lock()
	defer h.mu.Unlock()
	s := h.sess[x]
	if s == nil {
		return "unopened"
	}
	switch code := h.touch(s, how == "ts"); code {
	case 200:
		return "ok"
	case 404:
		return "nosession"
	default:
		return fmt.Sprintf("err:%d", code)
	}
}

// blacklist: the address of client x is put on the IP black-list, and x asks again with its session id (twice: players
// retry).  The first of these requests ends the session; neither gets any content.  settle: wait for a sweep of the
// handler afterwards, which has nothing left to report.
func (h *lcHls) blacklist(x string, settle bool) string {
	h.mu.Lock()
	s := h.sess[x]
	if s != nil {
		s.kept = false
	}
	h.mu.Unlock()
	if s == nil {
		return "unopened"
	}
	ip := s.remote
	if k := strings.LastIndexByte(ip, ':'); k >= 0 {
		ip = ip[:k]
	}
	h.sm.CtrlAddIpBlacklist(base.ApiCtrlAddIpBlacklistReq{Ip: ip, DurationSec: 3600})
	ret := "ok"
	for k := 0; k < 2; k++ {
		code, _, n := lcHlsGetN(h.sm, "/hls/"+h.stream+".m3u8?session_id="+s.sid, s.remote)
		if code == 200 || n > 0 {
			ret = fmt.Sprintf("served:%d", code)
		}
	}
	if settle {
		time.Sleep(1150 * time.Millisecond)
	}
	return ret
}

// silence: the client of x stops asking.
func (h *lcHls) silence(x string) {
	h.mu.Lock()
	if s := h.sess[x]; s != nil {
		s.kept = false
	}
	h.mu.Unlock()
}

// lcHlsRemote is the remote address of the client behind model id x.
func lcHlsRemote(ids []string, x string) string {
	for i, y := range ids {
		if y == x {
			return fmt.Sprintf("10.0.7.%d:4000", i+1)
		}
	}
	return "10.0.7.99:4000"
}

//go:build !verif_c15rtsp

package drv

// stSetRtspWChan: the tree has no hook to size the write queue of an RTSP command connection.
func stSetRtspWChan(n int) (int, bool) { return 0, false }

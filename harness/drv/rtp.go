package drv

import (
	"encoding/json"
	"fmt"

	"github.com/q191201771/lal/pkg/base"
	"github.com/q191201771/lal/pkg/rtprtcp"

	"lalverif/proj"
)

// Driver "rtp" (C12).  Per scenario three bindings:
//   (i)   rtprtcp.RtpPacker            -> independent RTP reader -> Pack event (src lal), plus the
//                                         units found by the independent RFC depacketiser
//   (ii)  independent RFC packetiser   -> Pack event (src ref) and, in the scenario's arrival order,
//                                         -> lal RtpUnpackContainer -> Feed event (src ref)
//   (iii) lal packer -> lal container in the same arrival order -> Feed event (src lal)
// All events are decided by spec/Trace_Rtp.tla.

type rtpScenario struct {
	Sc     int             `json:"sc"`
	C      string          `json:"c"` // avc | hevc | aac | pcmu | pcma | opus
	Mode   string          `json:"mode"`
	Rate   int             `json:"rate"`
	Limit  int             `json:"limit"`
	Max    int             `json:"max"`
	S0     int             `json:"s0"`
	Frames []proj.RtpFrame `json:"frames"`
	Order  []int           `json:"order"` // 1-based packet indices, arrival order
}

func init() { Registry["rtp"] = rtpDriver }

func rtpPt(c string) base.AvPacketPt {
	switch c {
	case "avc":
		return base.AvPacketPtAvc
	case "hevc":
		return base.AvPacketPtHevc
	case "aac":
		return base.AvPacketPtAac
	case "pcmu":
		return base.AvPacketPtG711U
	case "pcma":
		return base.AvPacketPtG711A
	}
	return base.AvPacketPtOpus
}

// codec class of the specification
func rtpClass(c string) string {
	switch c {
	case "avc", "hevc", "aac":
		return c
	}
	return "raw"
}

func rtpDriver(env *Env) error {
	tw, err := NewTraceWriter(env.Out)
	if err != nil {
		return err
	}
	defer tw.Close()
	return ReadScenarios(env.In, func(raw json.RawMessage) error {
		var sc rtpScenario
		if err := json.Unmarshal(raw, &sc); err != nil {
			return err
		}
		cls := rtpClass(sc.C)
		pt := rtpPt(sc.C)
		tw.Emit(M{"ev": "reset", "sc": sc.Sc, "c": sc.C})

		units := []proj.RtpUnit{}
		var frameBytes [][][]byte
		var ms []int64
		for _, f := range sc.Frames {
			var fb [][]byte
			for _, u := range f.Us {
				units = append(units, u)
				fb = append(fb, proj.BuildRtpUnit(cls, u))
			}
			frameBytes = append(frameBytes, fb)
			ms = append(ms, f.Ms)
		}
		common := func(src string) M {
			return M{"src": src, "c": cls, "codec": sc.C, "mode": sc.Mode, "pt": int(pt), "rate": sc.Rate,
				"limit": sc.Limit, "s0": sc.S0, "frames": sc.Frames, "us": units}
		}

		// (i) lal packer
		var pp rtprtcp.IRtpPackerPayload
		switch cls {
		case "avc", "hevc":
			pp = rtprtcp.NewRtpPackerPayloadAvcHevc(pt, func(o *rtprtcp.RtpPackerPayloadAvcHevcOption) {
				if sc.Mode == "avcc" {
					o.Typ = rtprtcp.RtpPackerPayloadAvcHevcTypeAvcc
				} else {
					o.Typ = rtprtcp.RtpPackerPayloadAvcHevcTypeNalu
				}
			})
		case "aac":
			pp = rtprtcp.NewRtpPackerPayloadAac()
		default:
			if sc.C == "opus" {
				pp = rtprtcp.NewRtpPackerPayloadOpus()
			} else {
				pp = rtprtcp.NewRtpPackerPayloadPcm()
			}
		}
		packer := rtprtcp.NewRtpPacker(pp, sc.Rate, 0x1234abcd, func(o *rtprtcp.RtpPackerOption) {
			o.MaxPayloadSize = sc.Limit
			o.FirstSeq = uint16(sc.S0)
		})
		var lalRaw [][][]byte
		for j, fb := range frameBytes {
			var in []byte
			if sc.Mode == "avcc" {
				for _, u := range fb {
					in = append(in, byte(len(u)>>24), byte(len(u)>>16), byte(len(u)>>8), byte(len(u)))
					in = append(in, u...)
				}
			} else {
				if len(fb) != 1 {
					return fmt.Errorf("scenario %d: mode %s needs one unit per frame", sc.Sc, sc.Mode)
				}
				in = append([]byte{}, fb[0]...)
			}
			out := packer.Pack(base.AvPacket{PayloadType: pt, Timestamp: ms[j], Pts: ms[j], Payload: in})
			fr := [][]byte{}
			for _, p := range out {
				fr = append(fr, p.Raw)
			}
			lalRaw = append(lalRaw, fr)
		}
		refRaw := proj.RefRtpPack(cls, frameBytes, ms, sc.S0, sc.Limit, sc.Rate, int(pt), 0x1234abcd)

		emitPack := func(src string, raws [][][]byte) ([][]byte, []*proj.RtpPkt) {
			var flat [][]byte
			for _, fr := range raws {
				flat = append(flat, fr...)
			}
			recs := proj.ReadRtpSeq(cls, flat, units)
			pk := [][]*proj.RtpPkt{}
			i := 0
			for _, fr := range raws {
				pk = append(pk, recs[i:i+len(fr)])
				i += len(fr)
			}
			ref := []proj.RtpDelivered{}
			for _, u := range proj.RefRtpDepack(cls, flat) {
				ref = append(ref, proj.ProjectRtpUnit(cls, u, units))
			}
			ev := common(src)
			ev["ev"] = "Pack"
			ev["pk"] = pk
			ev["ref"] = ref
			tw.Emit(ev)
			return flat, recs
		}
		lalFlat, lalRecs := emitPack("lal", lalRaw)
		refFlat, refRecs := emitPack("ref", refRaw)

		// (ii), (iii) lal's container under the arrival order
		feed := func(src string, flat [][]byte, recs []*proj.RtpPkt) error {
			top := 0
			for _, i := range sc.Order {
				if i > top {
					top = i
				}
			}
			if len(sc.Order) == 0 || top != len(flat) {
				return nil // the order was chosen for a different packet count (aac fragmentation)
			}
			out := []proj.RtpDelivered{}
			cb := func(pkt base.AvPacket) {
				if cls == "avc" || cls == "hevc" {
					nals, ok := proj.RtpSplitAvcc(pkt.Payload)
					for _, n := range nals {
						out = append(out, proj.ProjectRtpUnit(cls, n, units))
					}
					if !ok {
						out = append(out, proj.RtpDelivered{H: []int{}, N: len(pkt.Payload), Id: -1})
					}
					return
				}
				out = append(out, proj.ProjectRtpUnit(cls, pkt.Payload, units))
			}
			un := rtprtcp.DefaultRtpUnpackerFactory(pt, sc.Rate, sc.Max, cb)
			perr := 0
			for _, i := range sc.Order {
				wire := flat[i-1]
				if sc.Sc%3 == 1 && len(wire) >= 12 {
					// the packet on the wire with RTP padding (RFC 3550 5.1: P bit, k-1 zero octets, the count k): no
					// part of the payload, the depacketised units are the same
					k := 1 + (i+sc.Sc)%4
					wire = append(append([]byte{}, wire...), make([]byte, k)...)
					wire[0] |= 0x20
					wire[len(wire)-1] = byte(k)
				}
				p, err := rtprtcp.ParseRtpPacket(wire)
				if err != nil {
					perr++
					continue
				}
				un.Feed(p)
			}
			ev := common(src)
			ev["ev"] = "Feed"
			ev["max"] = sc.Max
			ev["pkts"] = recs
			ev["order"] = sc.Order
			ev["out"] = out
			ev["perr"] = perr
			tw.Emit(ev)
			return nil
		}
		if err := feed("ref", refFlat, refRecs); err != nil {
			return err
		}
		return feed("lal", lalFlat, lalRecs)
	})
}

package drv

import (
	"encoding/json"
	"github.com/q191201771/lal/pkg/base"
	"github.com/q191201771/lal/pkg/remux"

	"github.com/q191201771/lal/pkg/mpegts"

	"lalverif/proj"
)

// Driver "ts" (C09): mpegts.Frame.Pack / PackPat / PackPmt -> independent TS parser -> records
// validated by spec/Trace_TsPack.tla.

type tsFrame struct {
	Len int     `json:"len"`
	Key bool    `json:"key"`
	Pts proj.T3 `json:"pts"`
	Dts proj.T3 `json:"dts"`
	Pid int     `json:"pid"`
	Sid int     `json:"sid"`
}

type tsScenario struct {
	Sc     int       `json:"sc"`
	Kind   string    `json:"kind"` // frames | psi
	Cc     int       `json:"cc"`
	Frames []tsFrame `json:"frames"`
	V      int       `json:"v"`
	A      int       `json:"a"`
	// kind "psi2": a second stream with other codecs starts while the tables of the first are still held
	V2 int `json:"v2"`
	A2 int `json:"a2"`
}

// tsHold keeps the PAT/PMT block a remuxer hands out, as logic.Group and hls.Muxer do (they write it in front of every
// later fragment and to every later subscriber)
type tsHold struct{ patpmt []byte }

func (o *tsHold) OnPatPmt(b []byte)                                    { o.patpmt = b }
func (o *tsHold) OnTsPackets(b []byte, f *mpegts.Frame, boundary bool) {}

func tsStartStream(o *tsHold, v, a int) {
	r := remux.NewRtmp2MpegtsRemuxer(o)
	vh := map[int]byte{7: 0x17, 12: 0x1c}[v]
	ah := map[int]byte{10: 0xaf, 13: 0xdf}[a]
	r.FeedRtmpMessage(base.RtmpMsg{Header: base.RtmpHeader{MsgTypeId: base.RtmpTypeIdVideo, MsgLen: 6}, Payload: []byte{vh, 0, 0, 0, 0, 1}})
	r.FeedRtmpMessage(base.RtmpMsg{Header: base.RtmpHeader{MsgTypeId: base.RtmpTypeIdAudio, MsgLen: 4}, Payload: []byte{ah, 0, 0x12, 0x10}})
}

func t3val(t proj.T3) uint64 { return uint64(t[0])<<30 | uint64(t[1])<<15 | uint64(t[2]) }

func init() { Registry["ts"] = tsDriver }

func tsDriver(env *Env) error {
	tw, err := NewTraceWriter(env.Out)
	if err != nil {
		return err
	}
	defer tw.Close()
	return ReadScenarios(env.In, func(raw json.RawMessage) error {
		var sc tsScenario
		if err := json.Unmarshal(raw, &sc); err != nil {
			return err
		}
		tw.Emit(M{"ev": "reset", "sc": sc.Sc, "kind": sc.Kind, "cc": sc.Cc})
		if sc.Kind == "psi2" {
			first, second := &tsHold{}, &tsHold{}
			tsStartStream(first, sc.V, sc.A)
			tsStartStream(second, sc.V2, sc.A2)
			// the tables of the first stream, read now
			for i, k := range []string{"pat", "pmt"} {
				var b []byte
				if len(first.patpmt) >= 188*(i+1) {
					b = first.patpmt[188*i : 188*(i+1)]
				}
				p := proj.ParseTsPacket(b, false)
				var sec *proj.PsiSection
				if p.Body != nil && !p.Bad {
					sec = proj.ParsePsi(p.Body)
				} else {
					sec = &proj.PsiSection{Bad: true, Programs: [][2]int{}, Streams: []proj.PsiStream{}, Body: []int{}}
				}
				tw.Emit(M{"ev": "Psi", "kind": k, "v": sc.V, "a": sc.A, "size": len(b), "pkt": p, "sec": sec})
			}
			return nil
		}
		if sc.Kind == "psi" {
			for _, k := range []string{"pat", "pmt"} {
				var b []byte
				if k == "pat" {
					b = mpegts.PackPat()
				} else {
					b = mpegts.PackPmt(sc.V, sc.A)
				}
				p := proj.ParseTsPacket(b, false)
				var sec *proj.PsiSection
				if p.Body != nil && !p.Bad {
					sec = proj.ParsePsi(p.Body)
				} else {
					sec = &proj.PsiSection{Bad: true, Programs: [][2]int{}, Streams: []proj.PsiStream{}, Body: []int{}}
				}
				tw.Emit(M{"ev": "Psi", "kind": k, "v": sc.V, "a": sc.A, "size": len(b), "pkt": p, "sec": sec})
			}
			return nil
		}
		cc := uint8(sc.Cc)
		for i, f := range sc.Frames {
			raw := proj.Payload(i+1, f.Len)
			fr := &mpegts.Frame{Pts: t3val(f.Pts), Dts: t3val(f.Dts), Cc: cc, Pid: uint16(f.Pid), Sid: uint8(f.Sid),
				Key: f.Key, Raw: raw}
			out := fr.Pack()
			pkts := []M{}
			off := 0
			for q := 0; q+188 <= len(out); q += 188 {
				p := proj.ParseTsPacket(out[q:q+188], true)
				dataOk := !p.Bad && off+p.N <= len(raw) && proj.IsPayload(p.Payload, i+1, off)
				b, _ := json.Marshal(p)
				var m M
				json.Unmarshal(b, &m)
				m["off"] = off
				m["dataOk"] = dataOk
				pkts = append(pkts, m)
				off += p.N
			}
			tw.Emit(M{"ev": "Frame", "frame": f, "ccIn": int(cc), "ccOut": int(fr.Cc), "size": len(out), "pkts": pkts})
			cc = fr.Cc
		}
		return nil
	})
}

// Command lockgraph extracts, from the current source of lal, the facts the Locks specification
// is bound to (property C20): every Lock/Unlock site with the mutex field it refers to, the
// "acquires M2 (directly or through calls) while holding M1" relation, blocking channel sends and
// close() calls with the mutexes held around them, and accesses to fields of mutex-carrying structs
// made without the mutex in functions all of whose callers are known.  It judges nothing: it prints
// one JSON object per fact (with a witness call chain) and Trace_Locks.tla (TLC) decides.
//
// Call resolution: static calls and closures exactly; interface calls by class hierarchy over the
// lal packages; a function value passed as an argument is taken to run inside the callee when the
// callee calls that parameter; other calls through function values are not followed (counted).
package main

import (
	"encoding/json"
	"flag"
	"fmt"
	"go/token"
	"go/types"
	"os"
	"sort"
	"strings"

	"golang.org/x/tools/go/packages"
	"golang.org/x/tools/go/ssa"
	"golang.org/x/tools/go/ssa/ssautil"
)

const lalPrefix = "github.com/q191201771/lal/"

type set map[string]bool

func (s set) clone() set {
	c := set{}
	for k := range s {
		c[k] = true
	}
	return c
}
func (s set) keys() []string {
	ks := make([]string, 0, len(s))
	for k := range s {
		ks = append(ks, k)
	}
	sort.Strings(ks)
	return ks
}
func equal(a, b set) bool {
	if len(a) != len(b) {
		return false
	}
	for k := range a {
		if !b[k] {
			return false
		}
	}
	return true
}

// one recorded program point
type site struct {
	fn      *ssa.Function
	pos     token.Pos
	kind    string // lock, call, send, close, access
	id      string // lock id / chan id / field id
	callees []*ssa.Function
	may     set
	must    set
	block   bool // send: blocking
	write   bool
	isGo    bool
	fresh   bool
}

type fnInfo struct {
	fn        *ssa.Function
	sites     []*site
	addrTaken bool
	callers   []*site // resolved non-go call sites that call this function
	goTarget  bool
	entry     set  // must-held on entry
	entryTop  bool // unknown callers
	calledPar map[int]bool
}

var (
	prog    *ssa.Program
	fset    *token.FileSet
	infos   = map[*ssa.Function]*fnInfo{}
	lalTyps []types.Type
	repoDir string
	nDyn    int
)

func inLal(fn *ssa.Function) bool {
	if fn == nil {
		return false
	}
	p := fn.Package()
	if p == nil && fn.Parent() != nil {
		return inLal(fn.Parent())
	}
	if p == nil {
		// synthetic wrappers / bound methods: decide by the receiver's or object's package
		if o := fn.Object(); o != nil && o.Pkg() != nil {
			return strings.HasPrefix(o.Pkg().Path(), lalPrefix)
		}
		return false
	}
	return strings.HasPrefix(p.Pkg.Path(), lalPrefix)
}

func shortPkg(p *types.Package) string {
	if p == nil {
		return "?"
	}
	return strings.TrimPrefix(p.Path(), lalPrefix+"pkg/")
}

func fname(fn *ssa.Function) string {
	s := fn.String()
	s = strings.ReplaceAll(s, lalPrefix+"pkg/", "")
	return s
}

func posStr(p token.Pos) string {
	if !p.IsValid() {
		return "?"
	}
	ps := fset.Position(p)
	f := strings.TrimPrefix(ps.Filename, repoDir+"/")
	return fmt.Sprintf("%s:%d", f, ps.Line)
}

func deref(t types.Type) types.Type {
	if p, ok := t.Underlying().(*types.Pointer); ok {
		return p.Elem()
	}
	return t
}

func namedStr(t types.Type) string {
	t = deref(t)
	if n, ok := t.(*types.Named); ok {
		return shortPkg(n.Obj().Pkg()) + "." + n.Obj().Name()
	}
	return ""
}

// fieldId names the struct field a value designates ("logic.Group.mutex"), through loads.
func fieldId(v ssa.Value) string {
	switch x := v.(type) {
	case *ssa.FieldAddr:
		st, ok := deref(x.X.Type()).Underlying().(*types.Struct)
		n := namedStr(x.X.Type())
		if ok && n != "" {
			return n + "." + st.Field(x.Field).Name()
		}
		if ok {
			if in := fieldId(x.X); in != "" {
				return in + "." + st.Field(x.Field).Name()
			}
		}
	case *ssa.Field:
		st, ok := x.X.Type().Underlying().(*types.Struct)
		n := namedStr(x.X.Type())
		if ok && n != "" {
			return n + "." + st.Field(x.Field).Name()
		}
	case *ssa.UnOp:
		if x.Op == token.MUL {
			return fieldId(x.X)
		}
	case *ssa.Global:
		return shortPkg(x.Pkg.Pkg) + "." + x.Name()
	case *ssa.ChangeType:
		return fieldId(x.X)
	case *ssa.MakeInterface:
		return fieldId(x.X)
	}
	return ""
}

func hasMutexField(t types.Type) string {
	st, ok := deref(t).Underlying().(*types.Struct)
	if !ok {
		return ""
	}
	for i := 0; i < st.NumFields(); i++ {
		ft := st.Field(i).Type().String()
		if ft == "sync.Mutex" || ft == "sync.RWMutex" {
			return st.Field(i).Name()
		}
	}
	return ""
}

func isFresh(v ssa.Value, depth int) bool {
	if depth > 6 {
		return false
	}
	switch x := v.(type) {
	case *ssa.Alloc:
		return true
	case *ssa.FieldAddr:
		return isFresh(x.X, depth+1)
	case *ssa.UnOp:
		return isFresh(x.X, depth+1)
	case *ssa.Phi:
		for _, e := range x.Edges {
			if !isFresh(e, depth+1) {
				return false
			}
		}
		return true
	}
	return false
}

var implCache = map[string][]*ssa.Function{}

func resolve(c *ssa.CallCommon) []*ssa.Function {
	if f := c.StaticCallee(); f != nil {
		return []*ssa.Function{f}
	}
	if c.IsInvoke() {
		key := c.Value.Type().String() + "#" + c.Method.Name()
		if r, ok := implCache[key]; ok {
			return r
		}
		iface, _ := c.Value.Type().Underlying().(*types.Interface)
		var out []*ssa.Function
		if iface != nil {
			for _, t := range lalTyps {
				for _, tt := range []types.Type{t, types.NewPointer(t)} {
					if _, isI := tt.Underlying().(*types.Interface); isI {
						continue
					}
					if types.Implements(tt, iface) {
						sel := prog.MethodSets.MethodSet(tt).Lookup(c.Method.Pkg(), c.Method.Name())
						if sel != nil {
							if fn := prog.MethodValue(sel); fn != nil {
								out = append(out, fn)
							}
						}
						break
					}
				}
			}
		}
		implCache[key] = out
		return out
	}
	nDyn++
	return nil
}

// syncHigherOrder: standard-library functions that run the function value they are given synchronously.
var syncHigherOrder = map[string]bool{
	"sync.Do": true, "sync.Range": true, "sort.Slice": true, "sort.SliceStable": true, "sort.Search": true,
	"strings.Map": true, "strings.FieldsFunc": true, "strings.IndexFunc": true, "strings.TrimFunc": true,
	"bytes.Map": true, "bytes.FieldsFunc": true, "bytes.IndexFunc": true, "bytes.TrimFunc": true,
	"path/filepath.Walk": true, "path/filepath.WalkDir": true,
}

func fnOfValue(v ssa.Value) *ssa.Function {
	switch x := v.(type) {
	case *ssa.MakeClosure:
		if f, ok := x.Fn.(*ssa.Function); ok {
			return f
		}
	case *ssa.Function:
		return x
	case *ssa.ChangeType:
		return fnOfValue(x.X)
	}
	return nil
}

// writesTo: the position of an instruction in fn (or in what it calls, depth calls deep) that stores into a field of the
// struct behind owner, or updates / deletes from a map held in such a field; "" if there is none
func writesTo(fn *ssa.Function, owner types.Type, depth int, seen map[*ssa.Function]bool) string {
	if fn == nil || seen[fn] || len(fn.Blocks) == 0 {
		return ""
	}
	seen[fn] = true
	ofOwner := func(v ssa.Value) bool {
		for i := 0; i < 4 && v != nil; i++ {
			switch x := v.(type) {
			case *ssa.FieldAddr:
				return types.Identical(x.X.Type(), owner)
			case *ssa.UnOp:
				v = x.X
			case *ssa.Field:
				v = x.X
			default:
				return false
			}
		}
		return false
	}
	for _, b := range fn.Blocks {
		for _, ins := range b.Instrs {
			switch x := ins.(type) {
			case *ssa.MapUpdate:
				if ofOwner(x.Map) {
					return posStr(x.Pos())
				}
			case *ssa.Store:
				if ofOwner(x.Addr) {
					return posStr(x.Pos())
				}
			case ssa.CallInstruction:
				c := x.Common()
				if bi, ok := c.Value.(*ssa.Builtin); ok {
					if bi.Name() == "delete" && len(c.Args) > 0 && ofOwner(c.Args[0]) {
						return posStr(ins.Pos())
					}
					continue
				}
				if depth > 0 {
					for _, cal := range resolve(c) {
						if w := writesTo(cal, owner, depth-1, seen); w != "" {
							return w
						}
					}
				}
			}
		}
	}
	return ""
}

func mutexOp(c *ssa.CallCommon) (op string, id string) {
	f := c.StaticCallee()
	if f == nil || f.Pkg == nil || f.Pkg.Pkg.Path() != "sync" || len(c.Args) == 0 {
		return "", ""
	}
	n := f.Name()
	rt := f.Signature.Recv()
	if rt == nil {
		return "", ""
	}
	rs := rt.Type().String()
	if rs != "*sync.Mutex" && rs != "*sync.RWMutex" {
		return "", ""
	}
	switch n {
	case "Lock", "RLock":
		op = "lock"
	case "Unlock", "RUnlock":
		op = "unlock"
	default:
		return "", ""
	}
	id = fieldId(c.Args[0])
	if id == "" {
		id = "?" + c.Args[0].Type().String()
	}
	return
}

// analyse runs the held-set dataflow of one function (may = union at joins, must = intersection)
// and records its sites with the sets that hold just before each.
func analyse(fi *fnInfo) {
	fn := fi.fn
	if len(fn.Blocks) == 0 {
		return
	}
	type st struct{ may, must set }
	in := make([]*st, len(fn.Blocks))
	in[0] = &st{set{}, set{}}
	work := []int{0}
	selBlocking := map[*ssa.Select]bool{}
	transfer := func(b *ssa.BasicBlock, s *st, record bool) *st {
		cur := &st{s.may.clone(), s.must.clone()}
		add := func(x *site) {
			if record {
				x.fn = fn
				x.may, x.must = cur.may.clone(), cur.must.clone()
				fi.sites = append(fi.sites, x)
			}
		}
		for _, ins := range b.Instrs {
			switch x := ins.(type) {
			case ssa.CallInstruction:
				c := x.Common()
				_, isDefer := ins.(*ssa.Defer)
				_, isGo := ins.(*ssa.Go)
				if op, id := mutexOp(c); op != "" {
					if isDefer {
						add(&site{pos: ins.Pos(), kind: "deferunlock", id: id})
						continue
					}
					if op == "lock" {
						add(&site{pos: ins.Pos(), kind: "lock", id: id})
						cur.may[id], cur.must[id] = true, true
					} else {
						add(&site{pos: ins.Pos(), kind: "unlock", id: id})
						delete(cur.may, id)
						delete(cur.must, id)
					}
					continue
				}
				if b, ok := c.Value.(*ssa.Builtin); ok {
					if b.Name() == "close" && len(c.Args) == 1 {
						add(&site{pos: ins.Pos(), kind: "close", id: chanId(c.Args[0])})
					}
					continue
				}
				callees := resolve(c)
				// function values passed as arguments that the callee calls: run at this site
				off := 0
				if c.IsInvoke() {
					off = 1
				}
				var extra []*ssa.Function
				for ai, a := range c.Args {
					af := fnOfValue(a)
					if af == nil {
						continue
					}
					called := false
					for _, cal := range callees {
						if ci := infos[cal]; ci != nil && ci.calledPar[ai+off] {
							called = true
						}
					}
					// functions of the standard library that call their function argument before they return
					// (the callee is not analysed, so calledPar knows nothing about it): sync.Once.Do above all,
					// which lal uses in every dispose path
					if sc := c.StaticCallee(); sc != nil && sc.Pkg != nil && syncHigherOrder[sc.Pkg.Pkg.Path()+"."+sc.Name()] {
						called = true
					}
					if called {
						extra = append(extra, af)
					} else if record {
						if ai2 := infos[af]; ai2 != nil {
							ai2.addrTaken = true
						}
					}
				}
				if record {
					for _, cal := range append(append([]*ssa.Function{}, callees...), extra...) {
						_ = cal
					}
				}
				add(&site{pos: ins.Pos(), kind: "call", callees: append(callees, extra...), isGo: isGo})
			case *ssa.Send:
				add(&site{pos: ins.Pos(), kind: "send", id: chanId(x.Chan), block: true})
			case *ssa.UnOp:
				// a receive outside a select blocks until the other side sends or closes: recorded like a blocking send,
				// on the pseudo channel "<-" + channel (what matters is which locks are held meanwhile)
				if x.Op == token.ARROW {
					add(&site{pos: ins.Pos(), kind: "send", id: "<-" + chanId(x.X), block: true})
				}
			case *ssa.Select:
				selBlocking[x] = x.Blocking
				for _, s := range x.States {
					if s.Dir == types.SendOnly {
						add(&site{pos: s.Pos, kind: "send", id: chanId(s.Chan), block: x.Blocking && len(x.States) == 1})
					}
				}
			case *ssa.FieldAddr:
				if mf := hasMutexField(x.X.Type()); mf != "" {
					id := fieldId(x)
					w := false
					if refs := x.Referrers(); refs != nil {
						for _, r := range *refs {
							if s, ok := r.(*ssa.Store); ok && s.Addr == x {
								w = true
							}
						}
					}
					add(&site{pos: ins.Pos(), kind: "access", id: id, write: w, fresh: isFresh(x.X, 0)})
				}
			case *ssa.Return:
				add(&site{pos: ins.Pos(), kind: "ret"})
			case *ssa.MakeClosure:
				// a closure that is neither called here nor passed to a callee that calls it has
				// unknown callers; the call cases above clear this for the known ones
			}
		}
		return cur
	}
	for len(work) > 0 {
		bi := work[0]
		work = work[1:]
		b := fn.Blocks[bi]
		out := transfer(b, in[bi], false)
		for _, sc := range b.Succs {
			if in[sc.Index] == nil {
				in[sc.Index] = &st{out.may.clone(), out.must.clone()}
				work = append(work, sc.Index)
				continue
			}
			t := in[sc.Index]
			ch := false
			for k := range out.may {
				if !t.may[k] {
					t.may[k] = true
					ch = true
				}
			}
			for k := range t.must {
				if !out.must[k] {
					delete(t.must, k)
					ch = true
				}
			}
			if ch {
				work = append(work, sc.Index)
			}
		}
	}
	for bi, b := range fn.Blocks {
		if in[bi] != nil {
			transfer(b, in[bi], true)
		}
	}
}

func chanId(v ssa.Value) string {
	if id := fieldId(v); id != "" {
		return id
	}
	return "?local"
}

type hop struct {
	pos  token.Pos
	next *ssa.Function // nil: the operation itself is at pos
}

func chain(sum map[*ssa.Function]map[string]hop, fn *ssa.Function, id string) []string {
	var out []string
	seen := map[*ssa.Function]bool{}
	for fn != nil && !seen[fn] {
		seen[fn] = true
		h, ok := sum[fn][id]
		if !ok {
			break
		}
		out = append(out, fname(fn)+" @"+posStr(h.pos))
		fn = h.next
	}
	return out
}

func main() {
	repo := flag.String("repo", "/repo", "lal source tree")
	tags := flag.String("tags", "verif", "build tags")
	flag.Parse()
	repoDir = *repo
	cfg := &packages.Config{Mode: packages.LoadAllSyntax, Dir: *repo, BuildFlags: []string{"-tags", *tags},
		Env: append(os.Environ(), "GOFLAGS=-mod=mod", "GOPROXY=off", "GOSUMDB=off", "GOTOOLCHAIN=local")}
	pkgs, err := packages.Load(cfg, "./pkg/...")
	if err != nil {
		fmt.Fprintln(os.Stderr, "load:", err)
		os.Exit(2)
	}
	if packages.PrintErrors(pkgs) > 0 {
		os.Exit(2)
	}
	var ssaPkgs []*ssa.Package
	prog, ssaPkgs = ssautil.AllPackages(pkgs, ssa.InstantiateGenerics)
	prog.Build()
	fset = prog.Fset
	for _, p := range ssaPkgs {
		if p == nil || !strings.HasPrefix(p.Pkg.Path(), lalPrefix) {
			continue
		}
		for _, m := range p.Members {
			if t, ok := m.(*ssa.Type); ok {
				lalTyps = append(lalTyps, t.Type())
			}
		}
	}
	sort.Slice(lalTyps, func(i, j int) bool { return lalTyps[i].String() < lalTyps[j].String() })
	var fns []*ssa.Function
	for fn := range ssautil.AllFunctions(prog) {
		if inLal(fn) && len(fn.Blocks) > 0 {
			fns = append(fns, fn)
		}
	}
	sort.Slice(fns, func(i, j int) bool {
		if fns[i].String() != fns[j].String() {
			return fns[i].String() < fns[j].String()
		}
		return fns[i].Pos() < fns[j].Pos()
	})
	for _, fn := range fns {
		fi := &fnInfo{fn: fn, calledPar: map[int]bool{}}
		infos[fn] = fi
		// which parameters does the function call directly?
		for _, b := range fn.Blocks {
			for _, ins := range b.Instrs {
				if ci, ok := ins.(ssa.CallInstruction); ok {
					c := ci.Common()
					if c.IsInvoke() {
						continue
					}
					for pi, p := range fn.Params {
						if c.Value == p {
							fi.calledPar[pi] = true
						}
					}
				}
			}
		}
	}
	// address-taken functions: used as a value anywhere but in call position / known argument
	for _, fn := range fns {
		for _, b := range fn.Blocks {
			for _, ins := range b.Instrs {
				var ops []*ssa.Value
				ops = ins.Operands(ops)
				ci, isCall := ins.(ssa.CallInstruction)
				for _, op := range ops {
					if op == nil || *op == nil {
						continue
					}
					tf := fnOfValue(*op)
					if tf == nil || infos[tf] == nil {
						continue
					}
					if _, isMC := ins.(*ssa.MakeClosure); isMC {
						continue // judged where the closure value is used
					}
					if isCall {
						c := ci.Common()
						if c.Value == *op {
							continue
						}
						isArg := false
						for _, a := range c.Args {
							if a == *op {
								isArg = true
							}
						}
						if isArg {
							continue // decided in analyse (known if the callee calls the parameter)
						}
					}
					infos[tf].addrTaken = true
				}
			}
		}
	}
	for _, fn := range fns {
		analyse(infos[fn])
	}
	// callers
	for _, fn := range fns {
		for _, s := range infos[fn].sites {
			if s.kind != "call" {
				continue
			}
			for _, cal := range s.callees {
				if ci := infos[cal]; ci != nil {
					if s.isGo {
						ci.goTarget = true
					} else {
						ci.callers = append(ci.callers, s)
					}
				}
			}
		}
	}
	// transitive summaries (not through go statements)
	acq := map[*ssa.Function]map[string]hop{}
	snd := map[*ssa.Function]map[string]hop{}
	cls := map[*ssa.Function]map[string]hop{}
	for _, fn := range fns {
		acq[fn], snd[fn], cls[fn] = map[string]hop{}, map[string]hop{}, map[string]hop{}
		for _, s := range infos[fn].sites {
			switch {
			case s.kind == "lock":
				if _, ok := acq[fn][s.id]; !ok {
					acq[fn][s.id] = hop{s.pos, nil}
				}
			case s.kind == "send" && s.block:
				if _, ok := snd[fn][s.id]; !ok {
					snd[fn][s.id] = hop{s.pos, nil}
				}
			case s.kind == "close":
				if _, ok := cls[fn][s.id]; !ok {
					cls[fn][s.id] = hop{s.pos, nil}
				}
			}
		}
	}
	for changed := true; changed; {
		changed = false
		for _, fn := range fns {
			for _, s := range infos[fn].sites {
				if s.kind != "call" || s.isGo {
					continue
				}
				for _, cal := range s.callees {
					for _, pair := range []struct{ a, b map[string]hop }{{acq[fn], acq[cal]}, {snd[fn], snd[cal]}, {cls[fn], cls[cal]}} {
						for id := range pair.b {
							if _, ok := pair.a[id]; !ok {
								pair.a[id] = hop{s.pos, cal}
								changed = true
							}
						}
					}
				}
			}
		}
	}
	enc := json.NewEncoder(os.Stdout)
	// 1. sites per mutex
	type mu struct {
		Locks, Unlocks, Defers int
		Fns                    set
	}
	mus := map[string]*mu{}
	for _, fn := range fns {
		for _, s := range infos[fn].sites {
			if s.kind == "lock" || s.kind == "unlock" || s.kind == "deferunlock" {
				m := mus[s.id]
				if m == nil {
					m = &mu{Fns: set{}}
					mus[s.id] = m
				}
				switch s.kind {
				case "lock":
					m.Locks++
					m.Fns[fname(fn)] = true
				case "unlock":
					m.Unlocks++
				default:
					m.Defers++
				}
			}
		}
	}
	var mids []string
	for id := range mus {
		mids = append(mids, id)
	}
	sort.Strings(mids)
	for _, id := range mids {
		m := mus[id]
		enc.Encode(map[string]interface{}{"ev": "Mutex", "mu": id, "locks": m.Locks, "unlocks": m.Unlocks, "defers": m.Defers, "fns": m.Fns.keys()})
	}
	// 2. order edges, sends and closes under a mutex
	type edge struct {
		Ev      string   `json:"ev"`
		From    string   `json:"from"`
		To      string   `json:"to"`
		Sites   int      `json:"sites"`
		Witness []string `json:"witness"`
	}
	edges := map[string]*edge{}
	put := func(ev, from, to string, w []string) {
		k := ev + "|" + from + "|" + to
		if e := edges[k]; e != nil {
			e.Sites++
			if len(w) < len(e.Witness) {
				e.Witness = w
			}
			return
		}
		edges[k] = &edge{ev, from, to, 1, w}
	}
	for _, fn := range fns {
		for _, s := range infos[fn].sites {
			here := fname(fn) + " @" + posStr(s.pos)
			switch s.kind {
			case "lock":
				for h := range s.may {
					put("Edge", h, s.id, []string{here})
				}
			case "send":
				if s.block {
					for h := range s.may {
						put("SendUnder", h, s.id, []string{here})
					}
				}
			case "close":
				for h := range s.may {
					put("CloseUnder", h, s.id, []string{here})
				}
			case "call":
				if s.isGo {
					continue
				}
				for _, cal := range s.callees {
					for h := range s.may {
						for id := range acq[cal] {
							put("Edge", h, id, append([]string{here}, chain(acq, cal, id)...))
						}
						for id := range snd[cal] {
							put("SendUnder", h, id, append([]string{here}, chain(snd, cal, id)...))
						}
						for id := range cls[cal] {
							put("CloseUnder", h, id, append([]string{here}, chain(cls, cal, id)...))
						}
					}
				}
			}
		}
	}
	// every blocking send / close anywhere (with or without a mutex held)
	for _, fn := range fns {
		for _, s := range infos[fn].sites {
			if s.kind == "send" && s.block {
				put("Send", "", s.id, []string{fname(fn) + " @" + posStr(s.pos)})
			}
			if s.kind == "close" {
				put("Close", "", s.id, []string{fname(fn) + " @" + posStr(s.pos)})
			}
		}
	}
	var eks []string
	for k := range edges {
		eks = append(eks, k)
	}
	sort.Strings(eks)
	for _, k := range eks {
		enc.Encode(edges[k])
	}
	// 3. must-held on entry (only for functions all of whose callers are known)
	for _, fn := range fns {
		fi := infos[fn]
		fi.entryTop = true // optimistic start for the greatest fixpoint
	}
	for changed := true; changed; {
		changed = false
		for _, fn := range fns {
			fi := infos[fn]
			if fi.addrTaken {
				continue // unknown callers: stays top, nothing is reported inside
			}
			var acc set
			top := true
			if fi.goTarget || len(fi.callers) == 0 {
				acc, top = set{}, false
			}
			for _, s := range fi.callers {
				ci := infos[s.fn]
				if ci.entryTop {
					continue
				}
				h := s.must.clone()
				for k := range ci.entry {
					h[k] = true
				}
				if top {
					acc, top = h, false
				} else {
					for k := range acc {
						if !h[k] {
							delete(acc, k)
						}
					}
				}
			}
			if top != fi.entryTop || (!top && !equal(acc, fi.entry)) {
				fi.entryTop, fi.entry = top, acc
				changed = true
			}
		}
	}
	// a constructor holds the (not yet shared) object exclusively: callees reached only from it
	// are treated the same way through the "fresh" flag of the access and a pseudo entry lock
	type ung struct {
		Ev     string `json:"ev"`
		Field  string `json:"field"`
		Struct string `json:"struct"`
		Name   string `json:"name"`
		Mu     string `json:"mu"`
		Fn     string `json:"fn"`
		Pos    string `json:"pos"`
		Write  bool   `json:"write"`
		N      int    `json:"n"`
	}
	ctorOnly := map[*ssa.Function]bool{}
	// functions whose every known caller is a constructor context (allocates the struct) or ctorOnly
	allocs := func(fn *ssa.Function, typ string) bool {
		for _, b := range fn.Blocks {
			for _, ins := range b.Instrs {
				if a, ok := ins.(*ssa.Alloc); ok && namedStr(a.Type()) == typ {
					return true
				}
			}
		}
		return false
	}
	ungs := map[string]*ung{}
	for _, fn := range fns {
		fi := infos[fn]
		if fi.entryTop {
			continue
		}
		for _, s := range fi.sites {
			if s.kind != "access" || s.fresh {
				continue
			}
			parts := strings.Split(s.id, ".")
			if len(parts) < 3 {
				continue
			}
			typ := parts[0] + "." + parts[1]
			var muField string
			// the mutex of the same struct
			for id := range mus {
				if strings.HasPrefix(id, typ+".") {
					muField = id
				}
			}
			if muField == "" || s.id == muField {
				continue
			}
			if s.must[muField] || fi.entry[muField] {
				continue
			}
			// constructor context: the function (or every caller, transitively) allocates the struct
			if isCtorCtx(fn, typ, allocs, ctorOnly, 0) {
				continue
			}
			k := s.id + "|" + fname(fn)
			if u := ungs[k]; u != nil {
				u.N++
				u.Write = u.Write || s.write
				continue
			}
			ungs[k] = &ung{"Unguarded", s.id, typ, strings.Join(parts[2:], "."), muField, fname(fn), posStr(s.pos), s.write, 1}
		}
	}
	var uks []string
	for k := range ungs {
		uks = append(uks, k)
	}
	sort.Strings(uks)
	for _, k := range uks {
		enc.Encode(ungs[k])
	}
	// 4. a mutex still held at a return of a function that has no deferred unlock of it
	for _, fn := range fns {
		def := set{}
		for _, s := range infos[fn].sites {
			if s.kind == "deferunlock" {
				def[s.id] = true
			}
		}
		done := set{}
		for _, s := range infos[fn].sites {
			if s.kind != "ret" {
				continue
			}
			for m := range s.may {
				if !def[m] && !done[m] {
					done[m] = true
					enc.Encode(map[string]interface{}{"ev": "Leak", "mu": m, "fn": fname(fn), "pos": posStr(s.pos)})
				}
			}
		}
	}
	// 4b. a write to the struct that owns a mutex, by a function that holds that mutex in READ mode (or by what it calls,
	// three calls deep): the design has exclusive locks only; a shared lock is sound only over pure reads
	for _, fn := range fns {
		for _, b := range fn.Blocks {
			for _, ins := range b.Instrs {
				ci, ok := ins.(ssa.CallInstruction)
				if !ok {
					continue
				}
				c := ci.Common()
				sc := c.StaticCallee()
				if sc == nil || sc.Pkg == nil || sc.Pkg.Pkg.Path() != "sync" || sc.Name() != "RLock" || len(c.Args) == 0 {
					continue
				}
				fa, ok := c.Args[0].(*ssa.FieldAddr)
				if !ok {
					continue
				}
				owner := fa.X.Type()
				if w := writesTo(fn, owner, 3, map[*ssa.Function]bool{}); w != "" {
					enc.Encode(map[string]interface{}{"ev": "RWrite", "mu": fieldId(c.Args[0]), "fn": fname(fn), "pos": posStr(ins.Pos()), "write": w})
				}
			}
		}
	}
	// 5. which functions reach a blocking send on a channel held in a struct field
	reach := map[string]set{}
	for _, fn := range fns {
		for id := range snd[fn] {
			if strings.HasPrefix(id, "?") {
				continue
			}
			if reach[id] == nil {
				reach[id] = set{}
			}
			reach[id][fname(fn)] = true
		}
	}
	var rks []string
	for k := range reach {
		rks = append(rks, k)
	}
	sort.Strings(rks)
	for _, k := range rks {
		enc.Encode(map[string]interface{}{"ev": "Reach", "chan": k, "fns": reach[k].keys()})
	}
	enc.Encode(map[string]interface{}{"ev": "Summary", "functions": len(fns), "mutexes": len(mus), "unresolvedDynamicCalls": nDyn})
}

func isCtorCtx(fn *ssa.Function, typ string, allocs func(*ssa.Function, string) bool, memo map[*ssa.Function]bool, depth int) bool {
	if allocs(fn, typ) {
		return true
	}
	if depth > 4 {
		return false
	}
	fi := infos[fn]
	if fi == nil || fi.addrTaken || fi.goTarget || len(fi.callers) == 0 {
		return false
	}
	for _, s := range fi.callers {
		if !isCtorCtx(s.fn, typ, allocs, memo, depth+1) {
			return false
		}
	}
	return true
}

// lalexec: the EXEC stage.  Reads abstract scenarios (ndjson), drives the real lal code built
// from /repo, writes recorded traces (ndjson) that TLC validates against the specifications.
package main

import (
	"flag"
	"fmt"
	"os"

	"lalverif/drv"
)

func main() {
	driver := flag.String("driver", "", "driver name")
	in := flag.String("in", "", "scenario file (ndjson)")
	out := flag.String("out", "", "trace file (ndjson)")
	seed := flag.Int64("seed", 1, "seed for concretisation choices")
	child := flag.String("child", "", "internal: child-process mode argument")
	flag.Parse()
	d, ok := drv.Registry[*driver]
	if !ok {
		fmt.Fprintf(os.Stderr, "unknown driver %q\n", *driver)
		os.Exit(3)
	}
	if err := d(&drv.Env{In: *in, Out: *out, Seed: *seed, Child: *child, Args: flag.Args()}); err != nil {
		fmt.Fprintf(os.Stderr, "driver %s: %v\n", *driver, err)
		os.Exit(3)
	}
}

package proj

import (
	"crypto/hmac"
	"crypto/sha256"
	"encoding/binary"
	"math"
)

// Independent RTMP client-side wire encoder for spec/RtmpSession.tla (C04): handshake packets
// (simple and digest forms, Adobe "RTMP handshake" with HMAC-SHA256), chunking at the chunk size the
// peer announced, commands / data / media / aggregate messages in well-formed and malformed shapes,
// and chunk-level faults.  No lal imports.  Everything here is the *peer's* side of the protocol:
// it chooses bytes, it never judges what the server did with them.

// RsMsg is the abstract message of the specification: kind, argument, shape.
type RsMsg struct {
	M string `json:"m"`
	A string `json:"a"`
	S string `json:"s"`
}

// RsEnc is the peer's own bookkeeping: the chunk size it has announced so far.
type RsEnc struct {
	Cs   uint32
	Seed int64
	InHs bool // the handshake is not finished: a Set Chunk Size sent now is handshake filler, not a message
	nf   int  // fresh chunk stream ids handed out so far
	nc   int  // commands encoded so far
}

// cmdCsid: commands travel on chunk stream 3 in every deployed client, but the peer is free to use any id:
// half of the commands use 3, the others an id of the 2-byte and 3-byte basic header forms or another small one.
func (e *RsEnc) cmdCsid() int {
	e.nc++
	return []int{3, 64, 3, 319, 3, 320, 3, 65599, 3, 8}[(int(e.Seed%10)+10+e.nc)%10]
}

func NewRsEnc(seed int64) *RsEnc { return &RsEnc{Cs: 128, Seed: seed} }

var rsFlashKey = []byte("Genuine Adobe Flash Player 001")

func rsFill(b []byte, seed int64) {
	x := uint64(seed)*6364136223846793005 + 1442695040888963407
	for i := range b {
		x = x*6364136223846793005 + 1442695040888963407
		b[i] = byte(x >> 33)
	}
}

// RsC0C1 builds C0+C1 (1537 bytes).  variant: simple (version field zero), digest0 / digest1 (valid
// HMAC-SHA256 digest in the first / second half of C1), baddigest (non-zero version, no valid digest),
// ver6 (C0 = 6), ff (all bytes 0xFF: the largest digest offsets).
func RsC0C1(variant string, seed int64) []byte {
	b := make([]byte, 1537)
	b[0] = 3
	c1 := b[1:]
	switch variant {
	case "simple":
		rsFill(c1[8:], seed)
	case "ver6":
		b[0] = 6
		rsFill(c1[8:], seed)
	case "ff":
		for i := range b {
			b[i] = 0xff
		}
	case "baddigest":
		rsFill(c1[8:], seed)
		copy(c1[4:8], []byte{9, 0, 124, 2})
	case "digest0", "digest1":
		rsFill(c1[8:], seed)
		copy(c1[4:8], []byte{9, 0, 124, 2})
		base := 8
		if variant == "digest1" {
			base = 772
		}
		off := (int(c1[base])+int(c1[base+1])+int(c1[base+2])+int(c1[base+3]))%728 + base + 4
		mac := hmac.New(sha256.New, rsFlashKey)
		mac.Write(c1[:off])
		mac.Write(c1[off+32:])
		copy(c1[off:off+32], mac.Sum(nil))
	}
	return b
}

func rsAmfStr(s string) []byte {
	if len(s) > 65535 {
		b := []byte{12, byte(len(s) >> 24), byte(len(s) >> 16), byte(len(s) >> 8), byte(len(s))}
		return append(b, s...)
	}
	b := []byte{2, byte(len(s) >> 8), byte(len(s))}
	return append(b, s...)
}

func rsAmfNum(f float64) []byte {
	b := make([]byte, 9)
	binary.BigEndian.PutUint64(b[1:], math.Float64bits(f))
	return b
}

func rsKey(k string) []byte { return append([]byte{byte(len(k) >> 8), byte(len(k))}, k...) }

func rsCat(parts ...[]byte) []byte {
	var b []byte
	for _, p := range parts {
		b = append(b, p...)
	}
	return b
}

// rsDeepObj nests n objects, each the only member "k" of its parent, all closed.
func rsDeepObj(n int) []byte {
	var b []byte
	for i := 0; i < n; i++ {
		b = append(b, 3)
		if i != n-1 {
			b = append(b, 0, 1, 'k')
		}
	}
	for i := 0; i < n; i++ {
		b = append(b, 0, 0, 9)
	}
	return b
}

// rsDeepArr nests n containers the same way: ECMA arrays (mix false), or objects, ECMA arrays and strict arrays in turn
func rsDeepArr(n int, mix bool) []byte {
	var b []byte
	kinds := make([]int, n)
	for i := 0; i < n; i++ {
		k := 1
		if mix {
			k = i % 3
		}
		kinds[i] = k
		switch k {
		case 0: // object
			b = append(b, 3)
			if i != n-1 {
				b = append(b, 0, 1, 'k')
			}
		case 1: // ECMA array, one entry
			b = append(b, 8, 0, 0, 0, 1)
			if i != n-1 {
				b = append(b, 0, 1, 'k')
			}
		default: // strict array, one element
			if i != n-1 {
				b = append(b, 10, 0, 0, 0, 1)
			} else {
				b = append(b, 10, 0, 0, 0, 0)
			}
		}
	}
	for i := n - 1; i >= 0; i-- {
		if kinds[i] != 2 {
			b = append(b, 0, 0, 9)
		}
	}
	return b
}

func rsConnectObj(withApp bool, oe float64) []byte { return rsConnectObjX(withApp, oe, 0) }

func rsConnectObjX(withApp bool, oe float64, nest int) []byte {
	b := []byte{3}
	if nest > 0 {
		b = append(b, rsKey("x")...)
		b = append(b, rsDeepObj(nest)...)
	}
	if withApp {
		b = append(b, rsKey("app")...)
		b = append(b, rsAmfStr("live")...)
	}
	b = append(b, rsKey("flashVer")...)
	b = append(b, rsAmfStr("FMLE/3.0")...)
	b = append(b, rsKey("tcUrl")...)
	b = append(b, rsAmfStr("rtmp://h/live")...)
	b = append(b, rsKey("objectEncoding")...)
	b = append(b, rsAmfNum(oe)...)
	return append(b, 0, 0, 9)
}

func rsLong(n int) string {
	b := make([]byte, n)
	for i := range b {
		b[i] = 'a' + byte(i%26)
	}
	return string(b)
}

// RsCommandPayload returns the AMF0 body of command `name` in shape `shape`; stream = the stream name
// used by publish / play.
func RsCommandPayload(name, shape, stream string) []byte {
	null := []byte{5}
	nm := rsAmfStr(name)
	if name == "unknown" {
		nm = rsAmfStr("verifUnknownCommand")
	}
	switch shape {
	case "empty":
		return []byte{}
	case "1byte":
		return []byte{2}
	case "notid":
		return nm
	case "tidstr":
		return rsCat(nm, rsAmfStr("1"), null)
	case "namenum":
		return rsCat(rsAmfNum(7), rsAmfNum(1), null)
	case "cutname":
		return nm[:len(nm)-2]
	case "cuttid":
		return rsCat(nm, rsAmfNum(1)[:5])
	case "lstrmax": // long-string marker announcing 2^32-1 bytes
		return rsCat([]byte{0x0c, 0xff, 0xff, 0xff, 0xff}, []byte("abcdefgh"), rsAmfNum(1), null)
	case "lstrwrap": // ... 2^32-4 bytes (4 + length wraps to 0 in 32-bit arithmetic)
		return rsCat([]byte{0x0c, 0xff, 0xff, 0xff, 0xfc}, []byte("abcdefgh"), rsAmfNum(1), null)
	}
	switch name {
	case "connect":
		switch shape {
		case "ok":
			return rsCat(nm, rsAmfNum(1), rsConnectObj(true, 0))
		case "ok3":
			return rsCat(nm, rsAmfNum(1), rsConnectObj(true, 3))
		case "nolast":
			return rsCat(nm, rsAmfNum(1))
		case "badmarker":
			o := rsConnectObj(true, 0)
			o[0] = 8 // ECMA array marker without its count where an object is expected
			return rsCat(nm, rsAmfNum(1), o)
		case "null":
			return rsCat(nm, rsAmfNum(1), null)
		case "noapp":
			return rsCat(nm, rsAmfNum(1), rsConnectObj(false, 0))
		case "noend":
			o := rsConnectObj(true, 0)
			return rsCat(nm, rsAmfNum(1), o[:len(o)-3])
		case "deep":
			return rsCat(nm, rsAmfNum(1), rsConnectObjX(true, 0, 3000))
		case "deepok":
			return rsCat(nm, rsAmfNum(1), rsConnectObjX(true, 0, 40))
		case "deeparr", "deepmix":
			// the command object holds 3000 nested ECMA arrays / containers of the three kinds in turn
			o := append([]byte{3}, rsKey("x")...)
			o = append(o, rsDeepArr(3000, shape == "deepmix")...)
			o = append(o, rsKey("app")...)
			o = append(o, rsAmfStr("live")...)
			o = append(o, 0, 0, 9)
			return rsCat(nm, rsAmfNum(1), o)
		case "appnum", "appbool", "appobj", "tcnum", "oestr", "fvobj":
			// a property of the command object with another AMF type than lal reads it with
			val := map[string][]byte{"appnum": rsAmfNum(7), "appbool": {1, 1}, "appobj": {3, 0, 0, 9}, "tcnum": rsAmfNum(1935),
				"oestr": rsAmfStr("3"), "fvobj": {3, 0, 0, 9}}[shape]
			key := map[string]string{"appnum": "app", "appbool": "app", "appobj": "app", "tcnum": "tcUrl", "oestr": "objectEncoding",
				"fvobj": "flashVer"}[shape]
			b := []byte{3}
			for _, k := range []string{"app", "flashVer", "tcUrl", "objectEncoding"} {
				b = append(b, rsKey(k)...)
				switch {
				case k == key:
					b = append(b, val...)
				case k == "app":
					b = append(b, rsAmfStr("live")...)
				case k == "flashVer":
					b = append(b, rsAmfStr("FMLE/3.0")...)
				case k == "tcUrl":
					b = append(b, rsAmfStr("rtmp://h/live")...)
				default:
					b = append(b, rsAmfNum(0)...)
				}
			}
			return rsCat(nm, rsAmfNum(1), append(b, 0, 0, 9))
		}
	case "createStream":
		switch shape {
		case "ok":
			return rsCat(nm, rsAmfNum(2), null)
		case "nolast":
			return rsCat(nm, rsAmfNum(2))
		}
	case "publish":
		switch shape {
		case "ok":
			return rsCat(nm, rsAmfNum(3), null, rsAmfStr(stream), rsAmfStr("live"))
		case "nolast":
			return rsCat(nm, rsAmfNum(3), null, rsAmfStr(stream))
		case "noname":
			return rsCat(nm, rsAmfNum(3), null)
		case "badmarker":
			return rsCat(nm, rsAmfNum(3), []byte{6}, rsAmfStr(stream), rsAmfStr("live"))
		case "numforstr":
			return rsCat(nm, rsAmfNum(3), null, rsAmfNum(5), rsAmfStr("live"))
		case "longstr":
			return rsCat(nm, rsAmfNum(3), null, rsAmfStr(stream+rsLong(70000)), rsAmfStr("live"))
		case "emptyname":
			return rsCat(nm, rsAmfNum(3), null, rsAmfStr(""), rsAmfStr("live"))
		case "query":
			return rsCat(nm, rsAmfNum(3), null, rsAmfStr(stream+"?a=1?b=2&c"), rsAmfStr("live"))
		case "dots":
			return rsCat(nm, rsAmfNum(3), null, rsAmfStr("../"+stream), rsAmfStr("live"))
		case "cutstr":
			s := rsAmfStr(stream)
			return rsCat(nm, rsAmfNum(3), null, s[:len(s)-1])
		case "lstrname": // stream name as a long string announcing 2^32-3 bytes
			return rsCat(nm, rsAmfNum(3), null, []byte{0x0c, 0xff, 0xff, 0xff, 0xfd}, []byte(stream), rsAmfStr("live"))
		}
	case "play":
		switch shape {
		case "ok":
			return rsCat(nm, rsAmfNum(4), null, rsAmfStr(stream), rsAmfNum(-2000))
		case "nolast":
			return rsCat(nm, rsAmfNum(4), null, rsAmfStr(stream))
		case "noname":
			return rsCat(nm, rsAmfNum(4), null)
		case "badmarker":
			return rsCat(nm, rsAmfNum(4), []byte{6}, rsAmfStr(stream))
		case "numforstr":
			return rsCat(nm, rsAmfNum(4), null, rsAmfNum(5))
		case "longstr":
			return rsCat(nm, rsAmfNum(4), null, rsAmfStr(stream+rsLong(70000)))
		case "emptyname":
			return rsCat(nm, rsAmfNum(4), null, rsAmfStr(""))
		}
	default:
		switch shape {
		case "ok":
			return rsCat(nm, rsAmfNum(5), null, rsAmfStr(stream))
		case "nolast":
			return rsCat(nm, rsAmfNum(5))
		}
	}
	return rsCat(nm, rsAmfNum(9), null)
}

func rsMetaObj() []byte {
	b := []byte{8, 0, 0, 0, 3}
	for _, kv := range []struct {
		k string
		v float64
	}{{"width", 1280}, {"height", 720}, {"videocodecid", 7}} {
		b = append(b, rsKey(kv.k)...)
		b = append(b, rsAmfNum(kv.v)...)
	}
	return append(b, 0, 0, 9)
}

// RsDataPayload: AMF0 data message bodies (type 18).
func RsDataPayload(kind string) []byte {
	switch kind {
	case "meta":
		return rsCat(rsAmfStr("onMetaData"), rsMetaObj())
	case "sdfmeta":
		return rsCat(rsAmfStr("@setDataFrame"), rsAmfStr("onMetaData"), rsMetaObj())
	case "sdfonly":
		return rsAmfStr("@setDataFrame")
	case "sample":
		return rsCat(rsAmfStr("|RtmpSampleAccess"), []byte{1, 1, 1, 1})
	case "empty":
		return []byte{}
	case "1byte":
		return []byte{2}
	case "numfirst":
		return rsCat(rsAmfNum(1), rsMetaObj())
	case "nameonly":
		return rsAmfStr("onMetaData")
	case "trunc":
		b := rsCat(rsAmfStr("onMetaData"), rsMetaObj())
		return b[:len(b)-9]
	case "deep":
		return rsCat(rsAmfStr("onMetaData"), rsDeepObj(3000))
	case "other":
		return rsCat(rsAmfStr("onTextData"), rsMetaObj())
	}
	return []byte{}
}

var rsAvcSeq = []byte{0x17, 0, 0, 0, 0, 1, 0x64, 0, 0x1f, 0xff, 0xe1, 0, 10, 0x67, 0x64, 0, 0x1f, 0xac, 0xd9, 0x40, 0x50, 5, 0xbb, 1, 0, 4, 0x68, 0xeb, 0xe3, 0xcb}

func rsNalus(first byte, nalType byte, n int) []byte {
	b := []byte{first, 1, 0, 0, 0, byte(n >> 24), byte(n >> 16), byte(n >> 8), byte(n), nalType}
	p := make([]byte, n-1)
	for i := range p {
		p[i] = byte(0x80 | i&0x7f)
	}
	return append(b, p...)
}

// RsVideoPayload: payload classes of a video message (type 9).
func RsVideoPayload(cls string) []byte {
	key := rsNalus(0x17, 0x65, 300)
	switch cls {
	case "empty":
		return []byte{}
	case "1", "2", "3", "4", "5":
		return key[:int(cls[0]-'0')]
	case "seqhdr":
		return rsAvcSeq
	case "seqcut":
		return rsAvcSeq[:7]
	case "key":
		return key
	case "inter":
		return rsNalus(0x27, 0x41, 200)
	case "ex1":
		return []byte{0x90}
	case "ex4":
		return []byte{0x90, 'h', 'v', 'c'}
	case "exseq":
		return []byte{0x90, 'h', 'v', 'c', '1'}
	case "hevcseq":
		return []byte{0x1c, 0, 0, 0, 0, 1}
	case "badnalu":
		return []byte{0x17, 1, 0, 0, 0, 0xff, 0xff, 0xff, 0xff, 0x65}
	}
	return []byte{}
}

// RsAudioPayload: payload classes of an audio message (type 8).
func RsAudioPayload(cls string) []byte {
	switch cls {
	case "empty":
		return []byte{}
	case "1":
		return []byte{0xaf}
	case "2":
		return []byte{0xaf, 1}
	case "seqhdr":
		return []byte{0xaf, 0, 0x12, 0x10}
	case "seq2":
		return []byte{0xaf, 0}
	case "seq3":
		return []byte{0xaf, 0, 0x12}
	case "frame":
		b := []byte{0xaf, 1}
		return append(b, Payload(77, 60)...)
	case "g711":
		b := []byte{0x72}
		return append(b, Payload(78, 40)...)
	}
	return []byte{}
}

func rsSub(typ byte, ts uint32, payload []byte, declared int) []byte {
	b := []byte{typ, byte(declared >> 16), byte(declared >> 8), byte(declared), byte(ts >> 16), byte(ts >> 8), byte(ts), byte(ts >> 24), 0, 0, 1}
	b = append(b, payload...)
	n := 11 + len(payload)
	return append(b, byte(n>>24), byte(n>>16), byte(n>>8), byte(n))
}

// RsAggregatePayload: aggregate message bodies (type 22).
func RsAggregatePayload(shape string) []byte {
	a, v := RsAudioPayload("frame"), RsVideoPayload("inter")
	ok := rsCat(rsSub(8, 100, a, len(a)), rsSub(9, 120, v, len(v)))
	switch shape {
	case "ok":
		return ok
	case "empty":
		return []byte{}
	case "subhdr":
		return ok[:5]
	case "sublen":
		return rsSub(9, 100, v, len(v)+1000)
	case "sublenmax":
		return rsSub(9, 100, v[:4], 0xffffff)
	case "noprev":
		return ok[:len(ok)-4]
	case "prev2":
		return ok[:len(ok)-2]
	case "sub0":
		return rsSub(9, 100, []byte{}, 0)
	}
	return []byte{}
}

// Split cuts one message into chunks of the announced chunk size: fmt 0, then fmt 3 continuations
// (which repeat the extended timestamp when the timestamp is >= 0xFFFFFF, as every deployed encoder
// does).  A peer that has announced chunk size 0 cannot chunk a non-empty message at all; it then
// sends the whole payload behind one header (and is out of step with the server from there on).
// cuts = offsets of the chunk boundaries inside the returned bytes.
func (e *RsEnc) Split(csid, typ, msid int, ts uint32, payload []byte) (b []byte, cuts []int) {
	cs := int64(e.Cs)
	if cs == 0 || cs > int64(len(payload)) {
		cs = int64(len(payload))
	}
	hdr := func(f int) *Chunk {
		c := &Chunk{Fmt: f, Csid: csid, Len: len(payload), Type: typ, Msid: msid}
		if ts >= 0xFFFFFF {
			c.Tsf = Limbs(0xFFFFFF)
			c.Ext = true
			c.ExtVal = Limbs(ts)
		} else {
			c.Tsf = Limbs(ts)
		}
		return c
	}
	if len(payload) == 0 {
		return EncodeChunk(hdr(0), nil), nil
	}
	for off := int64(0); off < int64(len(payload)); off += cs {
		end := off + cs
		if end > int64(len(payload)) {
			end = int64(len(payload))
		}
		f := 0
		if off > 0 {
			f = 3
			cuts = append(cuts, len(b))
		}
		b = append(b, EncodeChunk(hdr(f), payload[off:end])...)
	}
	return b, cuts
}

func (e *RsEnc) fresh() int {
	e.nf++
	return 20 + e.nf
}

// RsScsValue maps the abstract chunk size names to values.
func RsScsValue(a string) uint32 {
	switch a {
	case "0":
		return 0
	case "1":
		return 1
	case "128":
		return 128
	case "4096":
		return 4096
	case "max31":
		return 0x7fffffff
	case "max32":
		return 0xffffffff
	}
	return 128
}

func rsBe32(v uint32) []byte { return []byte{byte(v >> 24), byte(v >> 16), byte(v >> 8), byte(v)} }

// Bytes concretises one abstract message.  stream = name used by publish / play.
func (e *RsEnc) Bytes(m RsMsg, stream string) (b []byte, cuts []int) {
	switch m.M {
	case "c0c1":
		b = RsC0C1(m.A, e.Seed)
		if m.S == "short" {
			b = b[:1000]
		}
		return b, []int{1}
	case "c2":
		b = make([]byte, 1536)
		rsFill(b, e.Seed+1)
		if m.S == "short" {
			b = b[:700]
		}
		return b, nil
	case "junk":
		n := 1
		switch m.S {
		case "64":
			n = 64
		case "4000":
			n = 4000
		}
		b = make([]byte, n)
		switch m.A {
		case "zero":
		case "ff":
			for i := range b {
				b[i] = 0xff
			}
		default:
			rsFill(b, e.Seed+7)
		}
		return b, nil
	case "scs":
		p := rsBe32(RsScsValue(m.A))
		switch m.S {
		case "short":
			p = p[:3]
		case "empty":
			p = p[:0]
		case "long":
			p = append(p, 1, 2, 3)
		}
		b, cuts = e.Split(2, 1, 0, 0, p)
		if (m.S == "ok" || m.S == "long") && !e.InHs {
			e.Cs = RsScsValue(m.A)
		}
		return
	case "ack":
		return e.Split(2, 3, 0, 0, Payload(1, rsAtoi(m.S)))
	case "winack":
		var p []byte
		switch m.S {
		case "0":
		case "3":
			p = []byte{0, 0x26, 0x25}
		case "4z":
			p = rsBe32(0)
		case "4m":
			p = rsBe32(0xffffffff)
		case "4":
			p = rsBe32(2500000)
		case "4one":
			p = rsBe32(1)
		case "4two":
			p = rsBe32(2)
		case "4three":
			p = rsBe32(3)
		case "4h":
			p = rsBe32(0x80000000)
		case "5":
			p = append(rsBe32(2500000), 2)
		}
		return e.Split(2, 5, 0, 0, p)
	case "uc":
		p := []byte{0, 6, 0, 0, 0x12, 0x34, 9, 9}
		if m.A == "begin" {
			p[1] = 0
		} else if m.A == "buflen" {
			p[1] = 3
		} else if m.A == "ff" {
			p[0], p[1] = 0xff, 0xff
		}
		return e.Split(2, 4, 0, 0, p[:rsAtoi(m.S)])
	case "other":
		var p []byte
		switch m.S {
		case "1":
			p = []byte{0}
		case "16":
			p = Payload(2, 16)
		}
		return e.Split(3, rsAtoi(m.A), 0, 0, p)
	case "cmd":
		msid := 0
		if m.A == "publish" || m.A == "play" {
			msid = 1
		}
		return e.Split(e.cmdCsid(), 20, msid, 0, RsCommandPayload(m.A, m.S, stream))
	case "cmd3":
		var p []byte
		switch m.S {
		case "empty":
		case "only0":
			p = []byte{0}
		default:
			p = append([]byte{0}, RsCommandPayload(m.A, m.S, stream)...)
		}
		return e.Split(3, 17, 0, 0, p)
	case "data":
		return e.Split(4, 18, 1, 0, RsDataPayload(m.A))
	case "audio":
		return e.Split(4, 8, 1, 40, RsAudioPayload(m.A))
	case "video":
		return e.Split(6, 9, 1, 40, RsVideoPayload(m.A))
	case "agg":
		return e.Split(6, 22, 1, 1000, RsAggregatePayload(m.A))
	case "chunk":
		return e.fault(m.A)
	}
	return nil, nil
}

// fault: chunk-level shapes.  The carried message, where there is one, is a 4-byte acknowledgement.
func (e *RsEnc) fault(kind string) (b []byte, cuts []int) {
	ack := Payload(3, 4)
	switch kind {
	case "f3fresh": // continuation header as the first thing ever seen on a chunk stream
		return EncodeChunk(&Chunk{Fmt: 3, Csid: e.fresh()}, nil), nil
	case "f2fresh":
		return EncodeChunk(&Chunk{Fmt: 2, Csid: e.fresh(), Tsf: Limbs(10)}, nil), nil
	case "f1fresh":
		if e.Cs >= 4 {
			return EncodeChunk(&Chunk{Fmt: 1, Csid: e.fresh(), Tsf: Limbs(10), Len: 4, Type: 3}, ack), nil
		}
		// chunk size below the message length: a zero-length acknowledgement cannot be right either,
		// so carry a zero-length message of an unassigned type
		return EncodeChunk(&Chunk{Fmt: 1, Csid: e.fresh(), Tsf: Limbs(10), Len: 0, Type: 0}, nil), nil
	case "csid2lo":
		return e.Split(64, 3, 0, 0, ack)
	case "csid2hi":
		return e.Split(319, 3, 0, 0, ack)
	case "csid3lo": // three-byte form of a chunk stream id that fits the two-byte form
		c := &Chunk{Fmt: 0, Csid: 400, Len: 0, Type: 0}
		x := EncodeChunk(c, nil)
		x[1], x[2] = 0, 0 // csid 64 in the three-byte form
		return x, nil
	case "csid3hi":
		return e.Split(65599, 3, 0, 0, ack)
	case "extts":
		return e.Split(10, 3, 0, 0x01000000, ack)
	case "exttsmax":
		return e.Split(10, 3, 0, 0xffffffff, ack)
	case "exttssmall": // extended timestamp field carrying a value that would have fitted the header
		c := &Chunk{Fmt: 0, Csid: 11, Tsf: Limbs(0xFFFFFF), Ext: true, ExtVal: Limbs(5), Len: 0, Type: 0}
		return EncodeChunk(c, nil), nil
	case "lenmax": // message length 2^24-1, then exactly one chunk (or ten bytes) of it
		n := int64(e.Cs)
		if n >= 0xFFFFFF {
			n = 10
		}
		return EncodeChunk(&Chunk{Fmt: 0, Csid: 9, Len: 0xFFFFFF, Type: 9, Msid: 1}, Payload(4, int(n))), nil
	case "truncnew": // a message is abandoned after its first chunk and a new header follows on the same chunk stream
		n, l := int64(e.Cs), 2*int64(e.Cs)+10
		if n > 4096 {
			n, l = 100, 300
		}
		b = EncodeChunk(&Chunk{Fmt: 0, Csid: 12, Len: int(l), Type: 9, Msid: 1}, Payload(5, int(n)))
		cuts = []int{len(b)}
		b = append(b, EncodeChunk(&Chunk{Fmt: 0, Csid: 12, Len: 4, Type: 3}, ack)...)
		return
	case "shrink": // a new, shorter message on the chunk stream on which lenmax left a message unfinished
		return e.Split(9, 3, 0, 0, ack)
	}
	return nil, nil
}

func rsAtoi(s string) int {
	n := 0
	for _, c := range s {
		if c < '0' || c > '9' {
			return 0
		}
		n = n*10 + int(c-'0')
	}
	return n
}

package proj

// GB28181 over TCP (C13, surface "pst"): the byte stream of a connection is a sequence of frames
// "2-byte big-endian length + RTP packet" (RFC 4571 framing).  This file turns the abstract data
// elements of spec/MC_Surfaces.tla (PstPool) into the writes a peer performs on a connection, and
// holds an independent reader of the framing that tells how many payload bytes of *complete*
// frames a connection has carried so far (what a receiver can have handed on).  No lal imports;
// nothing here judges.

// SfPstFrame is one frame: the declared length (whatever it is) and the bytes that follow it.
func SfPstFrame(declared int, data []byte) []byte {
	b := make([]byte, 0, 2+len(data))
	b = append(b, byte(declared>>8), byte(declared))
	return append(b, data...)
}

// SfPstExact is a frame whose declared length is the length of the data.
func SfPstExact(data []byte) []byte { return SfPstFrame(len(data), data) }

// SfPsUnit is a well-formed access unit: pack header, system header, PSM, video PES, audio PES.
func SfPsUnit(t int64) []byte {
	var b []byte
	for _, k := range [][2]string{{"pack", "ok"}, {"sys", "ok"}, {"psm", "avc"}, {"pesv", "ok"}, {"pesa", "ok"}} {
		b = append(b, SfPsElem(k[0], k[1], t)...)
	}
	return b
}

// SfPstSeq numbers the RTP packets of one scenario.
type SfPstSeq struct{ N int }

func (s *SfPstSeq) rtp(hdr string, n int, ts int64, body []byte) []byte {
	s.N++
	return SfRtpDatagram(hdr, n, true, 96, s.N&0xffff, uint32(ts), 0x33333333, body)
}

// Good is a well-formed unit in a well-formed RTP packet in an exact frame.
func (s *SfPstSeq) Good(ts int64) []byte { return SfPstExact(s.rtp("ok", 0, ts, SfPsUnit(ts))) }

// Busy is the largest frame (65535 bytes) filled with as many well-formed pictures as fit: pack header, system
// header, PSM, then video PES packets with a time stamp of their own each; the rest is filler.  Handling it keeps
// a receiver occupied for a while.
func (s *SfPstSeq) Busy(ts int64) []byte {
	body := append(append(SfPsElem("pack", "ok", ts), SfPsElem("sys", "ok", ts)...), SfPsElem("psm", "avc", ts)...)
	for i := int64(0); ; i++ {
		pes := SfPsElem("pesv", "ok", ts+3600*i)
		if 12+len(body)+len(pes) > 65535 {
			break
		}
		body = append(body, pes...)
	}
	pkt := s.rtp("ok", 0, ts, body)
	for len(pkt) < 65535 {
		pkt = append(pkt, 0xff)
	}
	return SfPstExact(pkt)
}

// SfPstPlan is what the peer does on the connection for one data element.
type SfPstPlan struct {
	Writes [][]byte
	Paced  bool   // pause between the writes so that they travel as separate segments
	After  string // "" | "close" (orderly) | "reset" | "half" (the peer shuts down its sending side)
}

// SfPstData concretises the data elements  u / len / wr / old  of PstPool.
//
//	u    a = PS element kind (or "good" = whole unit), b = variant, c = RTP header class, n = cut of the RTP packet
//	len  a = zero | one | eleven | over_close | over_idle | max_full | max_idle | half_close | half_idle
//	wr   a = two | two_split | split1 | split3 | many
//	old  a = good | zero | max_idle | garbage   (the driver sends these on the first connection of the scenario)
func SfPstData(k, a, b, c string, n int, s *SfPstSeq, ts int64) SfPstPlan {
	one := func(w []byte) SfPstPlan { return SfPstPlan{Writes: [][]byte{w}} }
	switch k {
	case "u":
		var body []byte
		if a == "good" {
			body = SfPsUnit(ts)
		} else {
			body = SfPsElem(a, b, ts)
		}
		return one(SfPstExact(s.rtp(c, n, ts, body)))
	case "len":
		part := s.rtp("ok", 0, ts, SfPsUnit(ts))[:100]
		switch a {
		case "zero":
			return one(SfPstFrame(0, nil))
		case "one":
			return one(SfPstFrame(1, []byte{0x80}))
		case "eleven": // one byte short of an RTP header
			return one(SfPstExact(s.rtp("ok", 0, ts, nil)[:11]))
		case "over_close": // more declared than follows before the peer closes
			return SfPstPlan{Writes: [][]byte{SfPstFrame(500, part)}, After: "close"}
		case "over_idle":
			return one(SfPstFrame(500, part))
		case "max_full": // the largest frame, complete: well-formed units, then filler
			var body []byte
			for i := int64(0); len(body) < 3000; i++ {
				body = append(body, SfPsUnit(ts+i)...)
			}
			pkt := s.rtp("ok", 0, ts, body)
			for len(pkt) < 65535 {
				pkt = append(pkt, 0xff)
			}
			return one(SfPstExact(pkt[:65535]))
		case "max_idle": // the largest frame announced, little data, then silence
			return one(SfPstFrame(65535, part))
		case "half_close": // half a length field
			return SfPstPlan{Writes: [][]byte{{0x00}}, After: "close"}
		case "half_idle":
			return one([]byte{0x00})
		}
	case "wr":
		f1 := s.Good(ts)
		switch a {
		case "two": // two frames in one write
			return one(append(f1, s.Good(ts+3600)...))
		case "two_split": // the write boundary lies inside the second frame's length field
			f2 := s.Good(ts + 3600)
			return SfPstPlan{Writes: [][]byte{append(append([]byte{}, f1...), f2[0]), f2[1:]}, Paced: true}
		case "split1": // one byte per write
			p := SfPstPlan{Paced: true}
			for i := range f1 {
				p.Writes = append(p.Writes, f1[i:i+1])
			}
			return p
		case "split3": // half the length field | the other half and some data | the rest
			return SfPstPlan{Writes: [][]byte{f1[:1], f1[1:7], f1[7:]}, Paced: true}
		case "many": // a burst of frames in one write
			w := f1
			for i := int64(1); i < 50; i++ {
				w = append(w, s.Good(ts+3600*i)...)
			}
			return one(w)
		}
	case "old":
		switch a {
		case "good":
			return one(s.Good(ts))
		case "zero":
			return one(SfPstFrame(0, nil))
		case "max_idle":
			return one(SfPstFrame(65535, s.rtp("ok", 0, ts, SfPsUnit(ts))[:100]))
		case "garbage":
			w := make([]byte, 100)
			for i := range w {
				w[i] = 0xff
			}
			return one(w)
		}
	}
	return SfPstPlan{}
}

// SfPstDeframer reads the framing of one connection's byte stream.
type SfPstDeframer struct {
	hdr  []byte // bytes of the length field seen so far (0..2)
	need int    // payload bytes of the current frame still missing; -1 = reading the length field
	cur  int    // payload size of the current frame
	// Done is the sum of the payload lengths of the frames that are complete, Frames their number.
	Done   uint64
	Frames int
}

func NewSfPstDeframer() *SfPstDeframer { return &SfPstDeframer{need: -1} }

func (d *SfPstDeframer) Write(b []byte) {
	for {
		if d.need < 0 {
			for len(b) > 0 && len(d.hdr) < 2 {
				d.hdr = append(d.hdr, b[0])
				b = b[1:]
			}
			if len(d.hdr) < 2 {
				return
			}
			d.cur = int(d.hdr[0])<<8 | int(d.hdr[1])
			d.need = d.cur
			d.hdr = d.hdr[:0]
		}
		k := d.need
		if k > len(b) {
			k = len(b)
		}
		d.need -= k
		b = b[k:]
		if d.need > 0 {
			return
		}
		d.Done += uint64(d.cur)
		d.Frames++
		d.need = -1
		if len(b) == 0 {
			return
		}
	}
}

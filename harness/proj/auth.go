package proj

import (
	"crypto/md5"
	"encoding/base64"
	"encoding/binary"
	"encoding/hex"
	"math"
	"strings"
)

// Independent credential computations for spec/Auth.tla (C14): the simple-auth secret of lal's
// documentation (lower-case hex MD5 of key followed by stream name), RFC 2617 Basic and Digest
// (MD5, no qop) credentials, and the few AMF0 values an RTMP client needs for connect /
// createStream / publish / play.  No lal imports.

func md5hex(s string) string {
	h := md5.Sum([]byte(s))
	return hex.EncodeToString(h[:])
}

// LalSecret = md5(key + streamName), lower-case hex.
func LalSecret(key, stream string) string { return md5hex(key + stream) }

// BasicCredentials: RFC 2617 section 2, "Basic " base64(user ":" password).
func BasicCredentials(user, pass string) string {
	return "Basic " + base64.StdEncoding.EncodeToString([]byte(user+":"+pass))
}

// DigestResponse: RFC 2617 section 3.2.2.1 without qop: KD(H(A1), nonce ":" H(A2)).
func DigestResponse(user, realm, pass, nonce, method, uri string) string {
	ha1 := md5hex(user + ":" + realm + ":" + pass)
	ha2 := md5hex(method + ":" + uri)
	return md5hex(ha1 + ":" + nonce + ":" + ha2)
}

func DigestCredentials(user, realm, nonce, uri, response string) string {
	return `Digest username="` + user + `", realm="` + realm + `", nonce="` + nonce + `", uri="` + uri +
		`", response="` + response + `"`
}

// Challenge is a parsed WWW-Authenticate header value.
type Challenge struct {
	Scheme string
	Realm  string
	Nonce  string
}

func quoted(s, key string) string {
	k := strings.Index(s, key+`="`)
	if k < 0 {
		return ""
	}
	r := s[k+len(key)+2:]
	e := strings.IndexByte(r, '"')
	if e < 0 {
		return ""
	}
	return r[:e]
}

func ParseChallenge(v string) Challenge {
	v = strings.TrimSpace(v)
	c := Challenge{Scheme: "other"}
	if strings.HasPrefix(v, "Basic ") {
		c.Scheme = "Basic"
	} else if strings.HasPrefix(v, "Digest ") {
		c.Scheme = "Digest"
	}
	c.Realm = quoted(v, "realm")
	c.Nonce = quoted(v, "nonce")
	return c
}

// RtspResponse is one response of an RTSP server (status line, headers, body).
type RtspResponse struct {
	Code    int
	Headers map[string]string
	Body    string
}

// ParseRtspResponses splits a byte stream into complete RTSP responses; rest = bytes of an
// incomplete trailing response.
func ParseRtspResponses(b []byte) (rs []RtspResponse, rest int) {
	for len(b) > 0 {
		k := strings.Index(string(b), "\r\n\r\n")
		if k < 0 {
			return rs, len(b)
		}
		head := string(b[:k])
		lines := strings.Split(head, "\r\n")
		r := RtspResponse{Headers: map[string]string{}}
		f := strings.Fields(lines[0])
		if len(f) >= 2 {
			for _, c := range f[1] {
				if c < '0' || c > '9' {
					r.Code = -1
					break
				}
				r.Code = r.Code*10 + int(c-'0')
			}
		}
		cl := 0
		for _, l := range lines[1:] {
			i := strings.IndexByte(l, ':')
			if i < 0 {
				continue
			}
			key, val := strings.ToLower(strings.TrimSpace(l[:i])), strings.TrimSpace(l[i+1:])
			r.Headers[key] = val
			if key == "content-length" {
				cl = 0
				for _, c := range val {
					if c >= '0' && c <= '9' {
						cl = cl*10 + int(c-'0')
					}
				}
			}
		}
		if len(b) < k+4+cl {
			return rs, len(b)
		}
		r.Body = string(b[k+4 : k+4+cl])
		rs = append(rs, r)
		b = b[k+4+cl:]
	}
	return rs, 0
}

// ---- AMF0 for RTMP commands

func AmfStr(s string) []byte {
	b := []byte{2, byte(len(s) >> 8), byte(len(s))}
	return append(b, s...)
}

func AmfNum(f float64) []byte {
	b := make([]byte, 9)
	binary.BigEndian.PutUint64(b[1:], math.Float64bits(f))
	return b
}

func AmfNull() []byte { return []byte{5} }

// AmfObj encodes an object of string members (key, value, key, value, ...).
func AmfObj(kv ...string) []byte {
	b := []byte{3}
	for i := 0; i+1 < len(kv); i += 2 {
		b = append(b, byte(len(kv[i])>>8), byte(len(kv[i])))
		b = append(b, kv[i]...)
		b = append(b, AmfStr(kv[i+1])...)
	}
	return append(b, 0, 0, 9)
}

// RtmpMsgChunk is one fmt-0 chunk carrying a whole message (payload must fit the chunk size).
func RtmpMsgChunk(csid, typ, msid int, ts uint32, payload []byte) []byte {
	c := &Chunk{Fmt: 0, Csid: csid, Len: len(payload), Type: typ, Msid: msid}
	if ts >= 0xFFFFFF {
		c.Tsf = Limbs(0xFFFFFF)
		c.Ext = true
		c.ExtVal = Limbs(ts)
	} else {
		c.Tsf = Limbs(ts)
	}
	return EncodeChunk(c, payload)
}

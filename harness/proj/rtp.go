package proj

// Independent RTP (RFC 3550) header reader and RFC 6184 (H.264) / RFC 7798 (H.265) / RFC 3640
// (AAC-hbr) / raw (G.711, Opus) payload packetiser, depacketiser and projector.  Shares no code
// with lal.  Projections report what the bytes are; they do not judge.

// RtpUnit is the abstract unit of spec/Rtp.tla: NAL header fields (avc [F,NRI,Type], hevc
// [F,Type,LayerId,TID], audio []), total size in bytes and the id of its position-coded body.
type RtpUnit struct {
	H  []int `json:"h"`
	N  int   `json:"n"`
	Id int   `json:"id"`
}

type RtpFrame struct {
	Ms int64     `json:"ms"`
	Us []RtpUnit `json:"us"`
}

func RtpHdrBytes(c string) int {
	switch c {
	case "avc":
		return 1
	case "hevc":
		return 2
	}
	return 0
}

// BuildRtpUnit returns the bytes of a unit: NAL header + position-coded body.
func BuildRtpUnit(c string, u RtpUnit) []byte {
	hb := RtpHdrBytes(c)
	b := make([]byte, u.N)
	switch c {
	case "avc":
		b[0] = byte(u.H[0]<<7 | u.H[1]<<5 | u.H[2])
	case "hevc":
		b[0] = byte(u.H[0]<<7 | u.H[1]<<1 | (u.H[2]>>5)&1)
		b[1] = byte((u.H[2]&31)<<3 | u.H[3])
	}
	FillPayload(b[hb:], u.Id, 0)
	return b
}

func rtpHdrFields(c string, b []byte) []int {
	switch c {
	case "avc":
		if len(b) >= 1 {
			return []int{int(b[0] >> 7), int(b[0]>>5) & 3, int(b[0] & 31)}
		}
	case "hevc":
		if len(b) >= 2 {
			return []int{int(b[0] >> 7), int(b[0]>>1) & 63, int(b[0]&1)<<5 | int(b[1]>>3), int(b[1] & 7)}
		}
	}
	return []int{}
}

func rtpUnitHdrBytes(u RtpUnit) int {
	switch len(u.H) {
	case 3:
		return 1 // avc
	case 4:
		return 2 // hevc
	}
	return 0
}

// LocateBody finds (id, off) such that d equals the position code of unit id from offset off.
// Several answers may be true for very short d; the hint (where the previous fragment ended) and
// offset 0 are tried first.  Whatever is returned with ok=true is a fact about the bytes.
func LocateBody(d []byte, units []RtpUnit, hid, hoff int) (id, off int, ok bool) {
	if len(d) == 0 {
		return 0, 0, true
	}
	// continue the unit under way if it is still incomplete, else look for the start of a unit first
	cont := false
	for _, u := range units {
		if u.Id == hid && hid > 0 && hoff > 0 && hoff < u.N-rtpUnitHdrBytes(u) {
			cont = true
		}
	}
	if cont && IsPayload(d, hid, hoff) {
		return hid, hoff, true
	}
	for _, u := range units {
		if IsPayload(d, u.Id, 0) {
			return u.Id, 0, true
		}
	}
	if hid > 0 && IsPayload(d, hid, hoff) {
		return hid, hoff, true
	}
	if len(d) >= 11 {
		for ph := 0; ph < 6; ph++ {
			st := (6 - ph) % 6
			cid := int(d[st])<<8 | int(d[st+1])
			blk := int(d[st+2])<<24 | int(d[st+3])<<16 | int(d[st+4])<<8 | int(d[st+5])
			o := blk*6 - st
			if o >= 0 && IsPayload(d, cid, o) {
				return cid, o, true
			}
		}
		return -1, 0, false
	}
	for _, u := range units {
		for o := 1; o < u.N; o++ {
			if IsPayload(d, u.Id, o) {
				return u.Id, o, true
			}
		}
	}
	return -1, 0, false
}

// RtpDelivered is a depacketised unit as the spec sees it.
type RtpDelivered struct {
	H   []int `json:"h"`
	N   int   `json:"n"`
	Id  int   `json:"id"`
	Off int   `json:"off"`
	Ok  bool  `json:"ok"`
}

func ProjectRtpUnit(c string, b []byte, units []RtpUnit) RtpDelivered {
	hb := RtpHdrBytes(c)
	d := RtpDelivered{H: rtpHdrFields(c, b), N: len(b), Id: -1}
	if len(b) < hb {
		return d
	}
	id, off, ok := LocateBody(b[hb:], units, 0, 0)
	if ok {
		d.Id, d.Off, d.Ok = id, off, true
	}
	return d
}

// RtpPkt is one RTP packet as cut from the wire bytes.
type RtpPkt struct {
	Seq  int    `json:"seq"`
	Ts   [2]int `json:"ts"`
	M    int    `json:"m"`
	Pt   int    `json:"pt"`
	Ssrc [2]int `json:"ssrc"`
	Wf   bool   `json:"wf"`   // version 2, no padding, no extension, no CSRC, payload present
	Size int    `json:"size"` // payload bytes
	K    string `json:"k"`    // single | fu | au | raw | other
	S    int    `json:"s"`
	E    int    `json:"e"`
	R    int    `json:"r"` // reserved bit of the H.264 FU header
	H    []int  `json:"h"` // NAL header fields (for FU: rebuilt from FU indicator/PayloadHdr + FU header)
	Au   int    `json:"au"`
	Id   int    `json:"id"`
	Off  int    `json:"off"`
	N    int    `json:"n"`
	Ok   bool   `json:"ok"`
}

// ReadRtp parses one packet of codec c.  hid/hoff: where the previous packet's body bytes ended.
func ReadRtp(c string, b []byte, units []RtpUnit, hid, hoff int) *RtpPkt {
	p := &RtpPkt{K: "other", H: []int{}, Id: -1}
	if len(b) < 12 {
		return p
	}
	p.M = int(b[1] >> 7)
	p.Pt = int(b[1] & 0x7f)
	p.Seq = int(b[2])<<8 | int(b[3])
	p.Ts = [2]int{int(b[4])<<8 | int(b[5]), int(b[6])<<8 | int(b[7])}
	p.Ssrc = [2]int{int(b[8])<<8 | int(b[9]), int(b[10])<<8 | int(b[11])}
	p.Wf = b[0] == 0x80 && len(b) > 12
	pl := b[12:]
	p.Size = len(pl)
	var data []byte
	switch c {
	case "avc":
		if len(pl) < 1 {
			return p
		}
		t := int(pl[0] & 31)
		switch {
		case t >= 1 && t <= 23:
			p.K = "single"
			p.H = rtpHdrFields(c, pl)
			data = pl[1:]
		case t == 28 && len(pl) >= 2:
			p.K = "fu"
			p.S, p.E, p.R = int(pl[1]>>7), int(pl[1]>>6)&1, int(pl[1]>>5)&1
			p.H = []int{int(pl[0] >> 7), int(pl[0]>>5) & 3, int(pl[1] & 31)}
			data = pl[2:]
		default:
			return p
		}
	case "hevc":
		if len(pl) < 2 {
			return p
		}
		t := int(pl[0]>>1) & 63
		switch {
		case t < 48:
			p.K = "single"
			p.H = rtpHdrFields(c, pl)
			data = pl[2:]
		case t == 49 && len(pl) >= 3:
			p.K = "fu"
			p.S, p.E = int(pl[2]>>7), int(pl[2]>>6)&1
			hh := rtpHdrFields(c, pl)
			p.H = []int{hh[0], int(pl[2] & 63), hh[2], hh[3]}
			data = pl[3:]
		default:
			return p
		}
	case "aac":
		// AU-headers-length (bits) | one 16-bit AU-header (13-bit size, 3-bit index) | data
		if len(pl) < 4 || int(pl[0])<<8|int(pl[1]) != 16 || pl[3]&7 != 0 {
			return p
		}
		p.K = "au"
		p.Au = int(pl[2])<<5 | int(pl[3]>>3)
		data = pl[4:]
	default:
		p.K = "raw"
		data = pl
	}
	p.N = len(data)
	id, off, ok := LocateBody(data, units, hid, hoff)
	if ok {
		p.Id, p.Off, p.Ok = id, off, true
	}
	return p
}

// ReadRtpSeq reads packets in emission order, chaining the body-offset hint.
func ReadRtpSeq(c string, raws [][]byte, units []RtpUnit) []*RtpPkt {
	out := []*RtpPkt{}
	hid, hoff := 0, 0
	for _, b := range raws {
		p := ReadRtp(c, b, units, hid, hoff)
		out = append(out, p)
		if p.Ok && p.Id > 0 {
			hid, hoff = p.Id, p.Off+p.N
		}
	}
	return out
}

// ---------------------------------------------------------------------------------------------
// Reference packetiser.  Fragments are split evenly (not filled to the limit as lal does), so the
// two packetisers only share the packet count.

func rtpHeader(m bool, pt int, seq uint16, ts uint32, ssrc uint32) []byte {
	h := make([]byte, 12)
	h[0] = 0x80
	h[1] = byte(pt & 0x7f)
	if m {
		h[1] |= 0x80
	}
	h[2], h[3] = byte(seq>>8), byte(seq)
	h[4], h[5], h[6], h[7] = byte(ts>>24), byte(ts>>16), byte(ts>>8), byte(ts)
	h[8], h[9], h[10], h[11] = byte(ssrc>>24), byte(ssrc>>16), byte(ssrc>>8), byte(ssrc)
	return h
}

func rtpEvenSplit(n, cap int) []int {
	k := (n + cap - 1) / cap
	out := make([]int, k)
	for i := range out {
		out[i] = n / k
		if i < n%k {
			out[i]++
		}
	}
	return out
}

// RefRtpPayloads packetises one unit into RTP payloads.
func RefRtpPayloads(c string, unit []byte, limit int) [][]byte {
	switch c {
	case "avc":
		if len(unit) <= limit {
			return [][]byte{append([]byte{}, unit...)}
		}
		var out [][]byte
		body := unit[1:]
		parts := rtpEvenSplit(len(body), limit-2)
		pos := 0
		for i, n := range parts {
			p := []byte{unit[0]&0xe0 | 28, unit[0] & 0x1f}
			if i == 0 {
				p[1] |= 0x80
			}
			if i == len(parts)-1 {
				p[1] |= 0x40
			}
			out = append(out, append(p, body[pos:pos+n]...))
			pos += n
		}
		return out
	case "hevc":
		if len(unit) <= limit {
			return [][]byte{append([]byte{}, unit...)}
		}
		var out [][]byte
		body := unit[2:]
		parts := rtpEvenSplit(len(body), limit-3)
		pos := 0
		for i, n := range parts {
			p := []byte{unit[0]&0x81 | 49<<1, unit[1], (unit[0] >> 1) & 0x3f}
			if i == 0 {
				p[2] |= 0x80
			}
			if i == len(parts)-1 {
				p[2] |= 0x40
			}
			out = append(out, append(p, body[pos:pos+n]...))
			pos += n
		}
		return out
	case "aac":
		hdr := []byte{0, 16, byte(len(unit) >> 5), byte(len(unit)&31) << 3}
		if len(unit)+4 <= limit {
			return [][]byte{append(hdr, unit...)}
		}
		var out [][]byte
		pos := 0
		for _, n := range rtpEvenSplit(len(unit), limit-4) {
			out = append(out, append(append([]byte{}, hdr...), unit[pos:pos+n]...))
			pos += n
		}
		return out
	}
	return [][]byte{append([]byte{}, unit...)}
}

// RefRtpPack packetises frames; returns the packets per frame.
func RefRtpPack(c string, frames [][][]byte, ms []int64, s0 int, limit, rate, pt int, ssrc uint32) [][][]byte {
	seq := uint16(s0)
	var out [][][]byte
	for j, f := range frames {
		var pls [][]byte
		for _, u := range f {
			pls = append(pls, RefRtpPayloads(c, u, limit)...)
		}
		ts := uint32(uint64(ms[j]) * uint64(rate) / 1000)
		pk := [][]byte{}
		for i, pl := range pls {
			pk = append(pk, append(rtpHeader(i == len(pls)-1, pt, seq, ts, ssrc), pl...))
			seq++
		}
		out = append(out, pk)
	}
	return out
}

// RefRtpDepack reassembles units from packets taken in the given (sequence-number) order.
func RefRtpDepack(c string, raws [][]byte) [][]byte {
	units := [][]byte{}
	var cur []byte
	inFu := false
	auWant := 0
	for _, b := range raws {
		if len(b) <= 12 {
			continue
		}
		pl := b[12:]
		switch c {
		case "avc":
			t := pl[0] & 31
			if t >= 1 && t <= 23 {
				units = append(units, append([]byte{}, pl...))
			} else if t == 28 && len(pl) >= 2 {
				if pl[1]&0x80 != 0 {
					cur = []byte{pl[0]&0xe0 | pl[1]&0x1f}
					inFu = true
				}
				if inFu {
					cur = append(cur, pl[2:]...)
					if pl[1]&0x40 != 0 {
						units = append(units, cur)
						cur, inFu = nil, false
					}
				}
			}
		case "hevc":
			if len(pl) < 2 {
				continue
			}
			t := (pl[0] >> 1) & 63
			if t < 48 {
				units = append(units, append([]byte{}, pl...))
			} else if t == 49 && len(pl) >= 3 {
				if pl[2]&0x80 != 0 {
					cur = []byte{pl[0]&0x81 | (pl[2]&0x3f)<<1, pl[1]}
					inFu = true
				}
				if inFu {
					cur = append(cur, pl[3:]...)
					if pl[2]&0x40 != 0 {
						units = append(units, cur)
						cur, inFu = nil, false
					}
				}
			}
		case "aac":
			if len(pl) < 4 {
				continue
			}
			sz := int(pl[2])<<5 | int(pl[3]>>3)
			if auWant == 0 {
				cur = nil
				auWant = sz
			}
			cur = append(cur, pl[4:]...)
			if len(cur) >= auWant {
				units = append(units, cur[:auWant])
				cur, auWant = nil, 0
			}
		default:
			units = append(units, append([]byte{}, pl...))
		}
	}
	return units
}

// RtpSplitAvcc splits 4-byte-length-prefixed NAL units; ok=false when the framing is broken.
func RtpSplitAvcc(b []byte) (nals [][]byte, ok bool) {
	for len(b) > 0 {
		if len(b) < 4 {
			return nals, false
		}
		n := int(b[0])<<24 | int(b[1])<<16 | int(b[2])<<8 | int(b[3])
		if n < 0 || 4+n > len(b) {
			return nals, false
		}
		nals = append(nals, b[4:4+n])
		b = b[4+n:]
	}
	return nals, true
}

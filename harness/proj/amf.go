package proj

import (
	"encoding/binary"
	"math"
)

// Independent AMF0 encoder / tokenizer for the abstract values of spec/Amf0.tla.

type AStr struct {
	N  int    `json:"n"`
	Id int    `json:"id"`
	S  string `json:"s"`
}

type APair struct {
	Key AStr  `json:"key"`
	V   *AVal `json:"v"`
}

type AVal struct {
	K   string  `json:"k"`
	Id  int     `json:"id,omitempty"`
	B   bool    `json:"b,omitempty"`
	S   *AStr   `json:"s,omitempty"`
	M   int     `json:"m,omitempty"`
	Decl int    `json:"decl,omitempty"`
	Ps  []APair `json:"ps,omitempty"`
	Vs  []*AVal `json:"vs,omitempty"`
	Cnt int     `json:"cnt,omitempty"`
	End bool    `json:"end,omitempty"`
}

// NumPool: the numbers of the model by id; 6.. are the ones whose bit pattern matters (looked up by bits, not by ==):
// negative zero, +Inf, a NaN with a payload, the smallest subnormal
var NumPool = []float64{0, 1.5, -7, 1e300, 720, 1280, math.Copysign(0, -1), math.Inf(1), math.Float64frombits(0x7ff8000000000123), 5e-324}

// NumId is the pool index of f (bit for bit), -1 if it is not in the pool
func NumId(f float64) int {
	for i, x := range NumPool {
		if math.Float64bits(x) == math.Float64bits(f) {
			return i
		}
	}
	return -1
}

func (s *AStr) Bytes() []byte {
	if s.S != "" {
		return []byte(s.S)
	}
	return Payload(s.Id, s.N)
}

// StrOf recognises a string produced by AStr.Bytes.
func StrOf(b []byte) AStr {
	if len(b) == 0 {
		return AStr{}
	}
	if len(b) >= 2 {
		id := int(b[0])<<8 | int(b[1])
		if IsPayload(b, id, 0) {
			return AStr{N: len(b), Id: id}
		}
	} else {
		// one byte: first byte of the code of id < 256 is 0
		if b[0] == 0 {
			return AStr{N: 1, Id: -1}
		}
	}
	return AStr{N: len(b), Id: 0, S: string(b)}
}

func AmfEncode(v *AVal) []byte {
	var b []byte
	u16 := func(n int) { b = append(b, byte(n>>8), byte(n)) }
	u32 := func(n int) {
		if n < 0 {
			b = append(b, 0xff, 0xff, 0xff, 0xff)
		} else {
			b = append(b, byte(n>>24), byte(n>>16), byte(n>>8), byte(n))
		}
	}
	pairs := func(ps []APair) {
		for _, p := range ps {
			u16(p.Key.N)
			b = append(b, p.Key.Bytes()...)
			b = append(b, AmfEncode(p.V)...)
		}
	}
	switch v.K {
	case "num":
		b = append(b, 0)
		var t [8]byte
		binary.BigEndian.PutUint64(t[:], math.Float64bits(NumPool[v.Id]))
		b = append(b, t[:]...)
	case "bool":
		b = append(b, 1)
		if v.B {
			b = append(b, 1)
		} else {
			b = append(b, 0)
		}
	case "str":
		if v.S.N < 65536 {
			b = append(b, 2)
			u16(v.S.N)
		} else {
			b = append(b, 12)
			u32(v.S.N)
		}
		b = append(b, v.S.Bytes()...)
	case "lstr":
		b = append(b, 12)
		if v.Decl < 0 {
			d := uint32(int64(1)<<32 + int64(v.Decl))
			b = append(b, byte(d>>24), byte(d>>16), byte(d>>8), byte(d))
		} else {
			u32(v.Decl)
		}
		b = append(b, v.S.Bytes()...)
	case "null":
		b = append(b, 5)
	case "undef":
		b = append(b, 6)
	case "unk":
		b = append(b, byte(v.M))
	case "obj":
		b = append(b, 3)
		pairs(v.Ps)
		if v.End {
			b = append(b, 0, 0, 9)
		}
	case "ecma":
		b = append(b, 8)
		u32(v.Cnt)
		pairs(v.Ps)
		if v.End {
			b = append(b, 0, 0, 9)
		}
	case "strict":
		b = append(b, 10)
		u32(v.Cnt)
		for _, x := range v.Vs {
			b = append(b, AmfEncode(x)...)
		}
	}
	return b
}

type ATok struct {
	T  string      `json:"t"`
	V  interface{} `json:"v"`
	Sz int         `json:"sz"`
}

type rawV struct {
	Id int    `json:"id"`
	S  string `json:"s"`
}

// AmfTokenize cuts well-formed AMF0 bytes into the token sequence of spec/Amf0.tla (Enc).  It
// returns ok=false if the bytes are not a sequence of complete values.
func AmfTokenize(b []byte) (toks []ATok, ok bool) {
	pos := 0
	var val func(depth int) bool
	raw := func(n int) bool {
		if pos+n > len(b) {
			return false
		}
		s := StrOf(b[pos : pos+n])
		toks = append(toks, ATok{"raw", rawV{s.Id, s.S}, n})
		pos += n
		return true
	}
	u16 := func() (int, bool) {
		if pos+2 > len(b) {
			return 0, false
		}
		n := int(b[pos])<<8 | int(b[pos+1])
		toks = append(toks, ATok{"u16", n, 2})
		pos += 2
		return n, true
	}
	u32 := func() (int, bool) {
		if pos+4 > len(b) {
			return 0, false
		}
		n := int(binary.BigEndian.Uint32(b[pos:]))
		if n == 0xffffffff {
			n = -1
		}
		toks = append(toks, ATok{"u32", n, 4})
		pos += 4
		return n, true
	}
	members := func(depth int) bool {
		for {
			n, ok := u16()
			if !ok {
				return false
			}
			if n == 0 && pos < len(b) && b[pos] == 9 {
				toks = append(toks, ATok{"m", 9, 1})
				pos++
				return true
			}
			if !raw(n) || !val(depth+1) {
				return false
			}
		}
	}
	val = func(depth int) bool {
		if pos >= len(b) || depth > 100 {
			return false
		}
		m := int(b[pos])
		toks = append(toks, ATok{"m", m, 1})
		pos++
		switch m {
		case 0:
			if pos+8 > len(b) {
				return false
			}
			f := math.Float64frombits(binary.BigEndian.Uint64(b[pos:]))
			id := NumId(f)
			if id < 0 {
				// numbers outside the pool are reported by value when integral
				id = 1000000 + int(f)
			}
			toks = append(toks, ATok{"f64", id, 8})
			pos += 8
			return true
		case 1:
			if pos+1 > len(b) {
				return false
			}
			toks = append(toks, ATok{"b8", int(b[pos]), 1})
			pos++
			return true
		case 2:
			n, ok := u16()
			return ok && raw(n)
		case 12:
			n, ok := u32()
			return ok && n >= 0 && raw(n)
		case 5, 6:
			return true
		case 3:
			return members(depth)
		case 8:
			if _, ok := u32(); !ok {
				return false
			}
			return members(depth)
		case 10:
			n, ok := u32()
			if !ok || n < 0 {
				return false
			}
			for i := 0; i < n; i++ {
				if !val(depth + 1) {
					return false
				}
			}
			return true
		default:
			return false
		}
	}
	for pos < len(b) {
		if !val(0) {
			return toks, false
		}
	}
	return toks, true
}

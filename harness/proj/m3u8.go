package proj

// Independent projections for HLS output (C10): a reader of media playlists (RFC 8216 subset that a
// live / event playlist uses) and a reader that cuts a TS segment into packet groups.  Projections
// only: they report what they find, TLC judges.

import (
	"strconv"
	"strings"
)

// M3u8Entry is one media segment of a playlist.  T is the segment name projected to (epoch, id)
// by the caller-supplied function; Dur is #EXTINF in integer milliseconds.
type M3u8Entry struct {
	T       [2]int `json:"t"`
	Dur     int    `json:"dur"`
	Discont bool   `json:"discont"`
}

// M3u8 is a parsed playlist.  Ok = complete and well-formed: "#EXTM3U" first, exactly one integer
// EXT-X-TARGETDURATION and EXT-X-MEDIA-SEQUENCE before the first segment, every #EXTINF followed by
// its URI line, nothing after #EXT-X-ENDLIST, last line terminated.
type M3u8 struct {
	Ok      bool        `json:"ok"`
	Open    bool        `json:"open"`
	Seq     int         `json:"seq"`
	Target  int         `json:"target"`
	Ents    []M3u8Entry `json:"ents"`
	Endlist bool        `json:"endlist"`
}

// decimalMs converts a decimal-seconds literal ("5.400") to milliseconds without floating point.
func decimalMs(s string) (int, bool) {
	s = strings.TrimSpace(s)
	if s == "" {
		return 0, false
	}
	ip, fp := s, ""
	if i := strings.IndexByte(s, '.'); i >= 0 {
		ip, fp = s[:i], s[i+1:]
	}
	if ip == "" {
		ip = "0"
	}
	n, err := strconv.Atoi(ip)
	if err != nil || n < 0 {
		return 0, false
	}
	for len(fp) < 3 {
		fp += "0"
	}
	exact := true
	for _, c := range fp[3:] {
		if c != '0' {
			exact = false
		}
	}
	f, err := strconv.Atoi(fp[:3])
	if err != nil || f < 0 {
		return 0, false
	}
	return n*1000 + f, exact
}

// ParseM3u8 parses content; name maps a URI line to the abstract segment name.
func ParseM3u8(content []byte, name func(uri string) [2]int) *M3u8 {
	p := &M3u8{Ok: true, Ents: []M3u8Entry{}}
	s := string(content)
	if s == "" || !strings.HasSuffix(s, "\n") {
		p.Ok = false
	}
	lines := strings.Split(s, "\n")
	if len(lines) > 0 && lines[len(lines)-1] == "" {
		lines = lines[:len(lines)-1]
	}
	nTarget, nSeq := 0, 0
	haveInf, infDur, discont := false, 0, false
	for i, raw := range lines {
		line := strings.TrimRight(raw, "\r")
		if i == 0 {
			if line != "#EXTM3U" {
				p.Ok = false
			}
			continue
		}
		if line == "" {
			continue
		}
		if p.Endlist {
			p.Ok = false // nothing may follow the end marker
		}
		switch {
		case strings.HasPrefix(line, "#EXT-X-TARGETDURATION:"):
			v, err := strconv.Atoi(strings.TrimPrefix(line, "#EXT-X-TARGETDURATION:"))
			if err != nil || v < 0 || len(p.Ents) > 0 || haveInf {
				p.Ok = false
			}
			p.Target = v
			nTarget++
		case strings.HasPrefix(line, "#EXT-X-MEDIA-SEQUENCE:"):
			v, err := strconv.Atoi(strings.TrimPrefix(line, "#EXT-X-MEDIA-SEQUENCE:"))
			if err != nil || v < 0 || len(p.Ents) > 0 || haveInf {
				p.Ok = false
			}
			p.Seq = v
			nSeq++
		case line == "#EXT-X-DISCONTINUITY":
			if haveInf {
				p.Ok = false
			}
			discont = true
		case strings.HasPrefix(line, "#EXTINF:"):
			if haveInf {
				p.Ok = false
			}
			v := strings.TrimPrefix(line, "#EXTINF:")
			if j := strings.IndexByte(v, ','); j >= 0 {
				v = v[:j]
			} else {
				p.Ok = false
			}
			ms, exact := decimalMs(v)
			if !exact {
				p.Ok = false
			}
			haveInf, infDur = true, ms
		case line == "#EXT-X-ENDLIST":
			if haveInf {
				p.Ok = false
			}
			p.Endlist = true
		case strings.HasPrefix(line, "#"):
			// other tags and comments carry nothing the property speaks of
		default:
			if !haveInf {
				p.Ok = false
			}
			p.Ents = append(p.Ents, M3u8Entry{T: name(line), Dur: infDur, Discont: discont})
			haveInf, infDur, discont = false, 0, false
		}
	}
	if haveInf || nTarget != 1 || nSeq != 1 {
		p.Ok = false
	}
	return p
}

// SegGroup is a packet group of a TS segment: "psi" (a PAT packet directly followed by the PMT packet
// it announces), "v" / "a" (one whole PES whose payload is the position-coded frame Id; Key = random
// access indicator of its first packet) or "bad" (anything else).
type SegGroup struct {
	K   string `json:"k"`
	Id  int    `json:"id"`
	Key bool   `json:"key"`
}

// Segment is the projection of a TS file.
type Segment struct {
	Open  bool       `json:"open"`
	Whole bool       `json:"whole"` // size is a whole number of 188-byte packets
	G     []SegGroup `json:"g"`
}

// ParseSegment cuts b into groups.
func ParseSegment(b []byte) *Segment {
	s := &Segment{Whole: len(b)%188 == 0, G: []SegGroup{}}
	type pes struct {
		idx     int
		pid     int
		payload []byte
		cc      int
		ok      bool
	}
	var cur *pes
	flush := func() {
		if cur == nil {
			return
		}
		g := &s.G[cur.idx]
		if !cur.ok || len(cur.payload) < 2 {
			g.K = "bad"
		} else {
			g.Id = int(cur.payload[0])<<8 | int(cur.payload[1])
			if !IsPayload(cur.payload, g.Id, 0) {
				g.K = "bad"
			}
		}
		cur = nil
	}
	pmtPid, patAt := -1, -2
	n := len(b) / 188
	for i := 0; i < n; i++ {
		pk := b[i*188 : (i+1)*188]
		h := ParseTsPacket(pk, false)
		if patAt >= 0 && (h.Bad || h.Pid != pmtPid) { // a PAT that its PMT does not follow directly
			s.G = append(s.G, SegGroup{K: "bad"})
			patAt = -2
		}
		if h.Bad || !h.Sync {
			flush()
			s.G = append(s.G, SegGroup{K: "bad"})
			continue
		}
		switch {
		case h.Pid == 0:
			flush()
			sec := ParsePsi(h.Body)
			if h.Body == nil || sec.Bad || sec.TableId != 0 || len(sec.Programs) != 1 {
				s.G = append(s.G, SegGroup{K: "bad"})
				continue
			}
			pmtPid, patAt = sec.Programs[0][1], i
		case h.Pid == pmtPid:
			flush()
			sec := ParsePsi(h.Body)
			if h.Body == nil || sec.Bad || sec.TableId != 2 || patAt != i-1 {
				s.G = append(s.G, SegGroup{K: "bad"})
			} else {
				s.G = append(s.G, SegGroup{K: "psi"})
			}
			patAt = -2
		default:
			e := ParseTsPacket(pk, true)
			if e.Bad {
				flush()
				s.G = append(s.G, SegGroup{K: "bad"})
				continue
			}
			if e.Pusi == 1 {
				flush()
				k := "bad"
				if e.Pes.StartCode && e.Pes.Sid&0xf0 == 0xe0 {
					k = "v"
				} else if e.Pes.StartCode && e.Pes.Sid&0xe0 == 0xc0 {
					k = "a"
				}
				s.G = append(s.G, SegGroup{K: k, Key: e.Rai == 1})
				cur = &pes{idx: len(s.G) - 1, pid: e.Pid, cc: e.Cc, ok: k != "bad"}
				cur.payload = append(cur.payload, e.Payload...)
			} else if cur != nil && cur.pid == e.Pid {
				if e.Cc != (cur.cc+1)&0xf {
					cur.ok = false
				}
				cur.cc = e.Cc
				cur.payload = append(cur.payload, e.Payload...)
			} else {
				flush()
				s.G = append(s.G, SegGroup{K: "bad"})
			}
		}
	}
	flush()
	if patAt >= 0 { // a PAT that no PMT followed
		s.G = append(s.G, SegGroup{K: "bad"})
	}
	return s
}

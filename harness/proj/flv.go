package proj

import "bytes"

// Independent FLV and WebSocket readers (Adobe FLV spec v10.1 annex E, RFC 6455).

type FlvTagFields struct {
	Type  int `json:"type"`
	Size  int `json:"size"`
	TsLow int `json:"tsLow"`
	TsExt int `json:"tsExt"`
	Sid   int `json:"sid"`
	Prev  int `json:"prev"`
}

type FlvHeaderFields struct {
	Sig     bool `json:"sig"`
	Version int  `json:"version"`
	Flags   int  `json:"flags"`
	Off     int  `json:"off"`
	Prev0   int  `json:"prev0"`
}

type FlvElem struct {
	Header  *FlvHeaderFields
	Tag     *FlvTagFields
	Payload []byte
	Start   int // offset of the element in the FLV byte stream
	End     int
}

func be24(b []byte) int { return int(b[0])<<16 | int(b[1])<<8 | int(b[2]) }
func be32(b []byte) int { return int(b[0])<<24 | int(b[1])<<16 | int(b[2])<<8 | int(b[3]) }

// ParseFlvTag parses one tag (11-byte header, payload, 4-byte back pointer) at the start of b.
func ParseFlvTag(b []byte) (*FlvTagFields, []byte, int) {
	if len(b) < 11 {
		return nil, nil, 0
	}
	f := &FlvTagFields{Type: int(b[0]), Size: be24(b[1:]), TsLow: be24(b[4:]), TsExt: int(b[7]), Sid: be24(b[8:])}
	if len(b) < 11+f.Size+4 {
		return nil, nil, 0
	}
	f.Prev = be32(b[11+f.Size:])
	return f, b[11 : 11+f.Size], 11 + f.Size + 4
}

// ParseFlvStream parses header + back-pointer + tags; leftover = bytes that do not form an element.
func ParseFlvStream(b []byte) (elems []FlvElem, leftover int) {
	pos := 0
	if len(b) < 13 {
		return nil, len(b)
	}
	h := &FlvHeaderFields{Sig: bytes.Equal(b[:3], []byte("FLV")), Version: int(b[3]), Flags: int(b[4]), Off: be32(b[5:]),
		Prev0: be32(b[9:])}
	elems = append(elems, FlvElem{Header: h, Start: 0, End: 13})
	pos = 13
	for pos < len(b) {
		f, p, n := ParseFlvTag(b[pos:])
		if f == nil {
			return elems, len(b) - pos
		}
		elems = append(elems, FlvElem{Tag: f, Payload: p, Start: pos, End: pos + n})
		pos += n
	}
	return elems, 0
}

type WsFrame struct {
	Fin     int   `json:"fin"`
	Rsv     int   `json:"rsv"`
	Opcode  int   `json:"opcode"`
	Masked  int   `json:"masked"`
	Len7    int   `json:"len7"`
	Ext     []int `json:"ext"`
	HdrSize int   `json:"hdrSize"`
	N       int   `json:"n"` // payload bytes actually present (declared length if complete)
	Payload []byte `json:"-"`
	Start   int   `json:"-"`
	Whole   bool  `json:"-"`
}

// ParseWsHeader parses a frame header at the start of b; returns nil if b is too short.
func ParseWsHeader(b []byte) (*WsFrame, int) {
	if len(b) < 2 {
		return nil, 0
	}
	f := &WsFrame{Fin: int(b[0] >> 7), Rsv: int(b[0]>>4) & 7, Opcode: int(b[0] & 0xf), Masked: int(b[1] >> 7),
		Len7: int(b[1] & 0x7f), Ext: []int{}, HdrSize: 2}
	decl := f.Len7
	switch f.Len7 {
	case 126:
		if len(b) < 4 {
			return nil, 0
		}
		f.Ext = []int{int(b[2])<<8 | int(b[3])}
		decl = f.Ext[0]
		f.HdrSize = 4
	case 127:
		if len(b) < 10 {
			return nil, 0
		}
		for i := 0; i < 4; i++ {
			f.Ext = append(f.Ext, int(b[2+2*i])<<8|int(b[3+2*i]))
		}
		if f.Ext[0] != 0 || f.Ext[1] != 0 {
			decl = 1 << 40 // absurd: nothing will match
		} else {
			decl = f.Ext[2]<<16 | f.Ext[3]
		}
		f.HdrSize = 10
	}
	if f.Masked == 1 {
		f.HdrSize += 4
	}
	return f, decl
}

// Deframe splits a byte stream into WebSocket frames and returns the concatenated payloads.
func Deframe(b []byte) (frames []*WsFrame, payload []byte, leftover int) {
	pos := 0
	for pos < len(b) {
		f, decl := ParseWsHeader(b[pos:])
		if f == nil || len(b[pos:]) < f.HdrSize+decl {
			return frames, payload, len(b) - pos
		}
		f.Start = len(payload)
		f.N = decl
		f.Payload = b[pos+f.HdrSize : pos+f.HdrSize+decl]
		f.Whole = true
		payload = append(payload, f.Payload...)
		frames = append(frames, f)
		pos += f.HdrSize + decl
	}
	return frames, payload, 0
}

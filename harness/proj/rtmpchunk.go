package proj

import "encoding/binary"

// Chunk is the abstract RTMP chunk record shared with spec/RtmpChunk.tla.
type Chunk struct {
	Fmt    int    `json:"fmt"`
	Csid   int    `json:"csid"`
	Tsf    [2]int `json:"tsf"`
	Ext    bool   `json:"ext"`
	ExtVal [2]int `json:"extVal"`
	Len    int    `json:"len"`
	Type   int    `json:"type"`
	Msid   int    `json:"msid"`
	Data   int    `json:"data"`
	Off    int    `json:"off"`
	// projection-only fields
	Payload []byte `json:"-"`
	Short   bool   `json:"short,omitempty"` // input ended inside this chunk
}

// EncodeChunk serialises an abstract chunk (RTMP spec 5.3.1) followed by its payload bytes.
func EncodeChunk(c *Chunk, payload []byte) []byte {
	var b []byte
	f := byte(c.Fmt << 6)
	switch {
	case c.Csid >= 2 && c.Csid <= 63:
		b = append(b, f|byte(c.Csid))
	case c.Csid >= 64 && c.Csid <= 319:
		b = append(b, f, byte(c.Csid-64))
	default:
		b = append(b, f|1, byte((c.Csid-64)&0xff), byte((c.Csid-64)>>8))
	}
	tsf := FromLimbs(c.Tsf[:])
	if c.Fmt <= 2 {
		b = append(b, byte(tsf>>16), byte(tsf>>8), byte(tsf))
	}
	if c.Fmt <= 1 {
		b = append(b, byte(c.Len>>16), byte(c.Len>>8), byte(c.Len), byte(c.Type))
	}
	if c.Fmt == 0 {
		var t [4]byte
		binary.LittleEndian.PutUint32(t[:], uint32(c.Msid))
		b = append(b, t[:]...)
	}
	if c.Ext {
		var t [4]byte
		binary.BigEndian.PutUint32(t[:], FromLimbs(c.ExtVal[:]))
		b = append(b, t[:]...)
	}
	return append(b, payload...)
}

type splitStream struct {
	tsf  uint32 // last timestamp field seen in a header on this csid (24-bit raw value)
	len  int
	typ  int
	have int
	buf  []byte
}

// SplitChunks cuts a byte stream into chunks following the RTMP specification's header grammar:
// basic header form by csid, message header by fmt, extended timestamp present iff the
// timestamp field most recently sent on the chunk stream is 0xFFFFFF, payload = min(remaining,
// chunk size).  chunkSize is the size in force at the start; a completed Set Chunk Size message
// (type 1) changes it.  It is a *projection*: it does not judge, it reports what a reader sees.
func SplitChunks(b []byte, chunkSize int) (chunks []*Chunk, leftover int) {
	st := map[int]*splitStream{}
	pos := 0
	need := func(n int) bool { return pos+n <= len(b) }
	for pos < len(b) {
		c := &Chunk{}
		start := pos
		c.Fmt = int(b[pos] >> 6)
		cs := int(b[pos] & 0x3f)
		pos++
		switch cs {
		case 0:
			if !need(1) {
				return chunks, len(b) - start
			}
			cs = 64 + int(b[pos])
			pos++
		case 1:
			if !need(2) {
				return chunks, len(b) - start
			}
			cs = 64 + int(b[pos]) + int(b[pos+1])*256
			pos += 2
		}
		c.Csid = cs
		s := st[cs]
		if s == nil {
			s = &splitStream{}
			st[cs] = s
		}
		hl := []int{11, 7, 3, 0}[c.Fmt]
		if !need(hl) {
			return chunks, len(b) - start
		}
		if c.Fmt <= 2 {
			s.tsf = uint32(b[pos])<<16 | uint32(b[pos+1])<<8 | uint32(b[pos+2])
			c.Tsf = Limbs(s.tsf)
		}
		if c.Fmt <= 1 {
			s.len = int(b[pos+3])<<16 | int(b[pos+4])<<8 | int(b[pos+5])
			s.typ = int(b[pos+6])
			c.Len, c.Type = s.len, s.typ
		}
		if c.Fmt == 0 {
			c.Msid = int(binary.LittleEndian.Uint32(b[pos+7:]))
		}
		pos += hl
		if s.tsf == 0xFFFFFF {
			if !need(4) {
				return chunks, len(b) - start
			}
			c.Ext = true
			c.ExtVal = Limbs(binary.BigEndian.Uint32(b[pos:]))
			pos += 4
		}
		n := s.len - s.have
		if n > chunkSize {
			n = chunkSize
		}
		if n < 0 {
			n = 0
		}
		if !need(n) {
			n = len(b) - pos
			c.Short = true
		}
		c.Off = s.have
		c.Data = n
		c.Payload = b[pos : pos+n]
		pos += n
		s.buf = append(s.buf, c.Payload...)
		s.have += n
		chunks = append(chunks, c)
		if c.Short {
			return chunks, 0
		}
		if s.have >= s.len {
			if s.typ == 1 && len(s.buf) >= 4 {
				chunkSize = int(binary.BigEndian.Uint32(s.buf))
			}
			s.have = 0
			s.buf = nil
		}
	}
	return chunks, 0
}

package proj

// Independent concretisation of the abstract "peer sends element X with field F at class C"
// records of spec/Surfaces.tla (C13) into bytes.  No lal imports: RTP / RTCP headers, RFC 6184 /
// RFC 7798 / RFC 3640 payload shapes, MPEG-2 program stream elements, WebSocket frames, SDP text
// and RTSP request text are written here from the RFCs.  Nothing in this file judges.

import (
	"encoding/base64"
	"fmt"
	"strings"
)

// ---------------------------------------------------------------- parameter sets / samples

var (
	SfSps  = []byte{0x67, 0x64, 0x00, 0x20, 0xac, 0xd9, 0x40, 0xc0, 0x29, 0xb0, 0x11, 0x00, 0x00, 0x03, 0x00, 0x01, 0x00, 0x00, 0x03, 0x00, 0x32, 0x0f, 0x18, 0x31, 0x96}
	SfPps  = []byte{0x68, 0xeb, 0xec, 0xb2, 0x2c}
	SfHVps = []byte{0x40, 0x01, 0x0c, 0x01, 0xff, 0xff, 0x01, 0x60, 0x00, 0x00, 0x03, 0x00, 0x90, 0x00, 0x00, 0x03, 0x00, 0x00, 0x03, 0x00, 0x3f, 0x95, 0x98, 0x09}
	SfHSps = []byte{0x42, 0x01, 0x01, 0x01, 0x60, 0x00, 0x00, 0x03, 0x00, 0x90, 0x00, 0x00, 0x03, 0x00, 0x00, 0x03, 0x00, 0x3f, 0xa0, 0x05, 0x02, 0x01, 0x69, 0x65, 0x95, 0x9a, 0x49, 0x32, 0xbc, 0x04, 0x04, 0x00, 0x00, 0x03, 0x00, 0x04, 0x00, 0x00, 0x03, 0x00, 0x64, 0x20}
	SfHPps = []byte{0x44, 0x01, 0xc1, 0x72, 0xb4, 0x62, 0x40}
)

func sfBody(n int, seed byte) []byte {
	b := make([]byte, n)
	for i := range b {
		b[i] = seed + byte(i*7)
		if b[i] == 0 {
			b[i] = 1
		}
	}
	return b
}

// SfIdr is a slice NAL unit (with header) of the codec.
func SfNal(codec string, kind string, n int) []byte {
	switch codec {
	case "avc":
		h := byte(0x41)
		if kind == "idr" {
			h = 0x65
		}
		return append([]byte{h}, sfBody(n, 0x11)...)
	default:
		h := []byte{0x02, 0x01}
		if kind == "idr" {
			h = []byte{0x26, 0x01}
		}
		return append(h, sfBody(n, 0x21)...)
	}
}

// ---------------------------------------------------------------- SDP

type SfSdp struct {
	Shape string `json:"shape"` // ok | empty | novo (no v=/o= lines) | nom (no m= line) | lf (LF only) | m100 (100 media sections) | garbage | noeq | onlyattrs
	V     string `json:"v"`     // avc | hevc | none | unk (unknown encoding) | nortpmap
	Vr    string `json:"vr"`    // clock rate class: ok | 0 | 1 | 999 | big (2^31) | neg | nan | none (rtpmap without /rate)
	Vf    string `json:"vf"`    // fmtp: ok | none | cut (truncated base64) | empty ("a=fmtp:96 ") | nokv | one (single sprop) | badb64 | short (1-byte sets)
	A     string `json:"a"`     // aac | pcma | pcmu | opus | none | unk | pt0 (static payload type 0 without rtpmap) | pt14
	Ar    string `json:"ar"`    // as Vr
	Af    string `json:"af"`    // ok | none | cfg1 (config of 1 byte hex) | cfgodd | cfgbad (not hex) | cfg0 (empty) | noconfig | cfglong
	Ctl   string `json:"ctl"`   // ok | none | abs (absolute rtsp url) | dup (same control for both)
}

func sfRate(cls string, ok int) string {
	switch cls {
	case "ok":
		return fmt.Sprint(ok)
	case "0":
		return "0"
	case "1":
		return "1"
	case "999":
		return "999"
	case "big":
		return "2147483648"
	case "neg":
		return "-90000"
	case "nan":
		return "9x000"
	}
	return ""
}

func b64(b []byte) string { return base64.StdEncoding.EncodeToString(b) }

// SfSdpText renders the SDP of the class record.
func SfSdpText(s *SfSdp) string {
	nl := "\r\n"
	if s.Shape == "lf" {
		nl = "\n"
	}
	switch s.Shape {
	case "empty":
		return ""
	case "garbage":
		return "\x00\xff\xfe=\r\n=\r\n\r\n===\r\nm\r\na=\r\nm=\r\na=rtpmap\r\na=fmtp\r\na=control\r\n"
	case "noeq":
		return "v0\r\nm video 0 RTP/AVP 96\r\na rtpmap:96 H264/90000\r\n"
	}
	var l []string
	if s.Shape != "novo" && s.Shape != "onlyattrs" {
		l = append(l, "v=0", "o=- 0 0 IN IP4 127.0.0.1", "s=No Name", "c=IN IP4 127.0.0.1", "t=0 0", "a=tool:lalverif")
	}
	video := func(idx int) {
		if s.Shape != "nom" && s.Shape != "onlyattrs" {
			l = append(l, "m=video 0 RTP/AVP 96")
		}
		name := map[string]string{"avc": "H264", "hevc": "H265", "unk": "VP8"}[s.V]
		if s.V != "nortpmap" {
			if s.Vr == "none" {
				l = append(l, "a=rtpmap:96 "+name)
			} else {
				l = append(l, "a=rtpmap:96 "+name+"/"+sfRate(s.Vr, 90000))
			}
		}
		var f string
		if s.V == "hevc" {
			f = "a=fmtp:96 sprop-vps=" + b64(SfHVps) + "; sprop-sps=" + b64(SfHSps) + "; sprop-pps=" + b64(SfHPps)
		} else {
			f = "a=fmtp:96 packetization-mode=1; sprop-parameter-sets=" + b64(SfSps) + "," + b64(SfPps) + "; profile-level-id=640020"
		}
		switch s.Vf {
		case "ok":
			l = append(l, f)
		case "cut":
			l = append(l, f[:len(f)-len("; profile-level-id=640020")-7])
		case "empty":
			l = append(l, "a=fmtp:96 ")
		case "nokv":
			l = append(l, "a=fmtp:96 packetization-mode")
		case "one":
			if s.V == "hevc" {
				l = append(l, "a=fmtp:96 sprop-vps="+b64(SfHVps))
			} else {
				l = append(l, "a=fmtp:96 packetization-mode=1; sprop-parameter-sets="+b64(SfSps))
			}
		case "badb64":
			if s.V == "hevc" {
				l = append(l, "a=fmtp:96 sprop-vps=!!!; sprop-sps=???; sprop-pps=***")
			} else {
				l = append(l, "a=fmtp:96 packetization-mode=1; sprop-parameter-sets=!!!,???")
			}
		case "short":
			if s.V == "hevc" {
				l = append(l, "a=fmtp:96 sprop-vps="+b64(SfHVps[:1])+"; sprop-sps="+b64(SfHSps[:2])+"; sprop-pps="+b64(SfHPps[:1]))
			} else {
				l = append(l, "a=fmtp:96 packetization-mode=1; sprop-parameter-sets="+b64(SfSps[:1])+","+b64(SfPps[:1]))
			}
		case "zero":
			if s.V == "hevc" {
				l = append(l, "a=fmtp:96 sprop-vps=; sprop-sps=; sprop-pps=")
			} else {
				l = append(l, "a=fmtp:96 packetization-mode=1; sprop-parameter-sets=,")
			}
		}
		switch s.Ctl {
		case "ok", "dup":
			l = append(l, "a=control:streamid=0")
		case "abs":
			l = append(l, "a=control:rtsp://h/live/x/streamid=0")
		}
		_ = idx
	}
	audio := func() {
		pt := "97"
		switch s.A {
		case "pt0":
			pt = "0"
		case "pt14":
			pt = "14"
		case "pcma":
			pt = "8"
		}
		if s.Shape != "nom" && s.Shape != "onlyattrs" {
			l = append(l, "m=audio 0 RTP/AVP "+pt)
		}
		var name string
		rate := 44100
		switch s.A {
		case "aac":
			name = "MPEG4-GENERIC"
		case "pcma":
			name, rate = "PCMA", 8000
		case "pcmu":
			name, rate = "PCMU", 8000
		case "opus":
			name, rate = "opus", 48000
		case "unk":
			name = "speex"
		}
		if name != "" {
			if s.Ar == "none" {
				l = append(l, "a=rtpmap:"+pt+" "+name)
			} else {
				l = append(l, "a=rtpmap:"+pt+" "+name+"/"+sfRate(s.Ar, rate)+"/2")
			}
		}
		if s.A == "aac" {
			pre := "a=fmtp:97 profile-level-id=1;mode=AAC-hbr;sizelength=13;indexlength=3;indexdeltalength=3"
			switch s.Af {
			case "ok":
				l = append(l, pre+"; config=1210")
			case "cfg1":
				l = append(l, pre+"; config=12")
			case "cfgodd":
				l = append(l, pre+"; config=12100")
			case "cfgbad":
				l = append(l, pre+"; config=zzzz")
			case "cfg0":
				l = append(l, pre+"; config=")
			case "noconfig":
				l = append(l, pre)
			case "cfglong":
				l = append(l, pre+"; config="+strings.Repeat("ff", 64))
			case "cfgzero":
				l = append(l, pre+"; config=0000")
			case "cfgesc":
				l = append(l, pre+"; config=FFFF")
			}
		}
		switch s.Ctl {
		case "ok":
			l = append(l, "a=control:streamid=1")
		case "dup":
			l = append(l, "a=control:streamid=0")
		case "abs":
			l = append(l, "a=control:rtsp://h/live/x/streamid=1")
		}
	}
	if s.Shape == "m100" {
		for i := 0; i < 50; i++ {
			if s.V != "none" {
				video(i)
			}
			if s.A != "none" {
				audio()
			}
		}
	} else {
		if s.V != "none" {
			video(0)
		}
		if s.A != "none" {
			audio()
		}
	}
	return strings.Join(l, nl) + nl
}

// SfAudioPt is the payload type number the SDP announces for audio.
func SfAudioPt(s *SfSdp) int {
	switch s.A {
	case "pt0":
		return 0
	case "pt14":
		return 14
	case "pcma":
		return 8
	}
	return 97
}

// ---------------------------------------------------------------- RTP header classes

// SfRtpHeader returns a datagram: RTP header of class hdr (n parameterises "cut") followed by payload.
func SfRtpDatagram(hdr string, n int, marker bool, pt int, seq int, ts uint32, ssrc uint32, payload []byte) []byte {
	h := make([]byte, 12)
	h[0] = 0x80
	h[1] = byte(pt & 0x7f)
	if marker {
		h[1] |= 0x80
	}
	h[2], h[3] = byte(seq>>8), byte(seq)
	h[4], h[5], h[6], h[7] = byte(ts>>24), byte(ts>>16), byte(ts>>8), byte(ts)
	h[8], h[9], h[10], h[11] = byte(ssrc>>24), byte(ssrc>>16), byte(ssrc>>8), byte(ssrc)
	cat := func(x ...[]byte) []byte {
		var o []byte
		for _, y := range x {
			o = append(o, y...)
		}
		return o
	}
	switch hdr {
	case "ok":
		return cat(h, payload)
	case "cut": // the first n bytes of header+payload
		b := cat(h, payload)
		if n < len(b) {
			b = b[:n]
		}
		return b
	case "nopl":
		return h
	case "v0":
		h[0] = 0x00
		return cat(h, payload)
	case "v3":
		h[0] = 0xc0
		return cat(h, payload)
	case "pad0": // P bit, padding count 0
		h[0] |= 0x20
		return cat(h, payload, []byte{0})
	case "pad1":
		h[0] |= 0x20
		return cat(h, payload, []byte{1})
	case "pad4":
		h[0] |= 0x20
		return cat(h, payload, []byte{0, 0, 0, 4})
	case "pad255": // padding count larger than the datagram
		h[0] |= 0x20
		return cat(h, payload, []byte{255})
	case "padAll": // padding count covers the whole payload
		h[0] |= 0x20
		p := append([]byte{}, payload...)
		p[len(p)-1] = byte(len(p))
		return cat(h, p)
	case "padHdr": // padding count reaches into the fixed header
		h[0] |= 0x20
		p := append([]byte{}, payload...)
		p[len(p)-1] = byte(len(p) + 3)
		return cat(h, p)
	case "ext0":
		h[0] |= 0x10
		return cat(h, []byte{0xbe, 0xde, 0, 0}, payload)
	case "ext1":
		h[0] |= 0x10
		return cat(h, []byte{0xbe, 0xde, 0, 1, 1, 2, 3, 4}, payload)
	case "extPast": // extension length past the end
		h[0] |= 0x10
		return cat(h, []byte{0xbe, 0xde, 0xff, 0xff}, payload)
	case "ext4000", "ext8000", "extc000", "ext4001": // 4 * length is a multiple of 65536 (plus 4): wraps in 16 bits
		h[0] |= 0x10
		l := map[string]uint16{"ext4000": 0x4000, "ext8000": 0x8000, "extc000": 0xc000, "ext4001": 0x4001}[hdr]
		return cat(h, []byte{0xbe, 0xde, byte(l >> 8), byte(l)}, payload)
	case "extCut": // extension bit, 2 bytes follow
		h[0] |= 0x10
		return cat(h, []byte{0xbe, 0xde})
	case "extAll": // extension covers the rest: no payload
		h[0] |= 0x10
		return cat(h, []byte{0xbe, 0xde, 0, 1, 1, 2, 3, 4})
	case "cc2":
		h[0] |= 2
		return cat(h, []byte{0, 0, 0, 1, 0, 0, 0, 2}, payload)
	case "cc15short": // CSRC count 15, packet ends after two of them
		h[0] |= 15
		return cat(h, []byte{0, 0, 0, 1, 0, 0, 0, 2})
	case "cc15all": // CSRC count 15, all present, nothing else
		h[0] |= 15
		return cat(h, make([]byte, 60))
	case "ptOther":
		h[1] = h[1]&0x80 | 35
		return cat(h, payload)
	}
	return cat(h, payload)
}

// SfRtcp returns an RTCP packet of kind k (sr | rr | bye | app | x) cut to n bytes (n < 0: whole).
func SfRtcp(k string, n int, ssrc uint32) []byte {
	s := []byte{byte(ssrc >> 24), byte(ssrc >> 16), byte(ssrc >> 8), byte(ssrc)}
	var b []byte
	switch k {
	case "sr":
		b = append([]byte{0x80, 200, 0, 6}, s...)
		b = append(b, 0xe5, 0x10, 0x20, 0x30, 0x40, 0x50, 0x60, 0x70, 0, 1, 0x5f, 0x90, 0, 0, 0, 10, 0, 0, 4, 0)
	case "srlong": // SR with one report block and trailing bytes
		b = append([]byte{0x81, 200, 0, 12}, s...)
		b = append(b, make([]byte, 44)...)
	case "rr":
		b = append([]byte{0x81, 201, 0, 7}, s...)
		b = append(b, make([]byte, 24)...)
	case "bye":
		b = append([]byte{0x81, 203, 0, 1}, s...)
	case "app":
		b = append([]byte{0x80, 204, 0, 2}, s...)
		b = append(b, 'l', 'a', 'l', 'v')
	default:
		b = []byte{0xff, 0xff, 0xff, 0xff, 0xff, 0xff, 0xff, 0xff}
	}
	if n >= 0 && n < len(b) {
		b = b[:n]
	}
	return b
}

// ---------------------------------------------------------------- RTP payload classes

func u16(v int) []byte { return []byte{byte(v >> 8), byte(v)} }

// SfPayload returns the RTP payload of class pl for codec (avc | hevc | aac | raw).
func SfPayload(codec, pl string) []byte {
	cat := func(x ...[]byte) []byte {
		var o []byte
		for _, y := range x {
			o = append(o, y...)
		}
		return o
	}
	switch codec {
	case "avc":
		idr := SfNal("avc", "idr", 20)
		switch pl {
		case "single":
			return idr
		case "single1":
			return []byte{0x65}
		case "sps":
			return SfSps
		case "pps":
			return SfPps
		case "stapOk":
			return cat([]byte{0x78}, u16(len(SfSps)), SfSps, u16(len(SfPps)), SfPps)
		case "stapIdr":
			return cat([]byte{0x78}, u16(len(idr)), idr)
		case "stap1": // indicator only
			return []byte{0x78}
		case "stap2":
			return []byte{0x78, 0x00}
		case "stap3":
			return []byte{0x78, 0x00, 0x01}
		case "stapSize0":
			return cat([]byte{0x78}, u16(0), u16(len(SfPps)), SfPps)
		case "stapAll0":
			return cat([]byte{0x78}, u16(0))
		case "stapPast": // size past the end
			return cat([]byte{0x78}, u16(len(SfSps)), SfSps, u16(200), SfPps)
		case "stapFFFF":
			return cat([]byte{0x78}, u16(0xffff), SfPps)
		case "stapOdd": // one trailing byte
			return cat([]byte{0x78}, u16(len(SfPps)), SfPps, []byte{0})
		case "fuS":
			return cat([]byte{0x7c, 0x85}, idr[1:11])
		case "fuM":
			return cat([]byte{0x7c, 0x05}, idr[11:15])
		case "fuE":
			return cat([]byte{0x7c, 0x45}, idr[15:])
		case "fu1": // indicator only
			return []byte{0x7c}
		case "fu2S": // indicator + header, no data
			return []byte{0x7c, 0x85}
		case "fu2E":
			return []byte{0x7c, 0x45}
		case "fu2M":
			return []byte{0x7c, 0x05}
		case "fuSE": // start and end in one
			return cat([]byte{0x7c, 0xc5}, idr[1:])
		case "fuB": // FU-B
			return cat([]byte{0x7d, 0x85, 0, 1}, idr[1:5])
		case "t30":
			return []byte{0x7e, 1, 2, 3}
		case "t0":
			return []byte{0x00, 1, 2, 3}
		case "mtap":
			return []byte{0x7a, 0, 1, 0, 3, 0, 0, 0}
		case "fbit":
			return cat([]byte{0xe5}, idr[1:])
		}
	case "hevc":
		idr := SfNal("hevc", "idr", 20)
		switch pl {
		case "single":
			return idr
		case "single1":
			return []byte{0x26}
		case "single2":
			return []byte{0x26, 0x01}
		case "sps":
			return SfHSps
		case "vps":
			return SfHVps
		case "pps":
			return SfHPps
		case "apOk":
			return cat([]byte{0x60, 0x01}, u16(len(SfHVps)), SfHVps, u16(len(SfHSps)), SfHSps, u16(len(SfHPps)), SfHPps)
		case "ap1":
			return []byte{0x60}
		case "ap2":
			return []byte{0x60, 0x01}
		case "ap3":
			return []byte{0x60, 0x01, 0x00}
		case "apSize0":
			return cat([]byte{0x60, 0x01}, u16(0), u16(len(SfHPps)), SfHPps)
		case "apPast":
			return cat([]byte{0x60, 0x01}, u16(200), SfHPps)
		case "apFFFF":
			return cat([]byte{0x60, 0x01}, u16(0xffff))
		case "apOdd":
			return cat([]byte{0x60, 0x01}, u16(len(SfHPps)), SfHPps, []byte{0})
		case "fuS":
			return cat([]byte{0x62, 0x01, 0x93}, idr[2:12])
		case "fuM":
			return cat([]byte{0x62, 0x01, 0x13}, idr[12:16])
		case "fuE":
			return cat([]byte{0x62, 0x01, 0x53}, idr[16:])
		case "fu1":
			return []byte{0x62}
		case "fu2":
			return []byte{0x62, 0x01}
		case "fu3S":
			return []byte{0x62, 0x01, 0x93}
		case "fu3E":
			return []byte{0x62, 0x01, 0x53}
		case "fu3M":
			return []byte{0x62, 0x01, 0x13}
		case "fuSE":
			return cat([]byte{0x62, 0x01, 0xd3}, idr[2:])
		case "t50": // PACI
			return []byte{0x64, 0x01, 0, 0, 1}
		case "t63":
			return []byte{0x7e, 0x01, 0, 0}
		case "fbit":
			return cat([]byte{0xa6, 0x01}, idr[2:])
		}
	case "aac":
		au := sfBody(40, 0x31)
		ah := func(size int) []byte { return u16(size << 3) }
		switch pl {
		case "auOk":
			return cat(u16(16), ah(len(au)), au)
		case "au2":
			return cat(u16(32), ah(len(au)), ah(len(au)), au, au)
		case "auFragS": // AU of 80 bytes, 40 here
			return cat(u16(16), ah(80), au)
		case "auFragE":
			return cat(u16(16), ah(80), au)
		case "auFragOver": // second fragment larger than what is missing
			return cat(u16(16), ah(80), au, au)
		case "pl1": // one byte of payload
			return []byte{0x00}
		case "pl2": // AU-headers-length only, says 16 bits
			return u16(16)
		case "pl3":
			return []byte{0x00, 0x10, 0x01}
		case "ahl0": // AU-headers-length 0
			return cat(u16(0), au)
		case "ahl0only":
			return u16(0)
		case "ahlFFFF":
			return cat(u16(0xffff), ah(len(au)), au)
		case "ahlOdd": // 13 bits: not a multiple of the 16-bit AU-header
			return cat(u16(13), ah(len(au)), au)
		case "ahl8": // 8 bits = 1 byte of AU-header section
			return cat(u16(8), []byte{0x01}, au)
		case "ahl32short": // two AU-headers announced, one present, no data
			return cat(u16(32), ah(len(au)))
		case "auSize0":
			return cat(u16(16), ah(0))
		case "au2Past": // second AU size past the end
			return cat(u16(32), ah(len(au)), ah(4000), au, au[:4])
		case "au2Short": // sizes sum below the data
			return cat(u16(32), ah(4), ah(4), au)
		case "auMax": // AU size 8191 with little data: looks like a fragment
			return cat(u16(16), ah(8191), au)
		}
	case "raw":
		switch pl {
		case "ok":
			return sfBody(160, 0x41)
		case "one":
			return []byte{0x55}
		}
	}
	return []byte{0}
}

// ---------------------------------------------------------------- MPEG-2 PS elements

// SfPsElem returns the bytes of PS element k in variant v.
func SfPsElem(k, v string, pts int64) []byte {
	cat := func(x ...[]byte) []byte {
		var o []byte
		for _, y := range x {
			o = append(o, y...)
		}
		return o
	}
	annexb := func(codec string) []byte {
		if codec == "hevc" {
			return cat([]byte{0, 0, 0, 1}, SfHVps, []byte{0, 0, 0, 1}, SfHSps, []byte{0, 0, 0, 1}, SfHPps, []byte{0, 0, 0, 1}, SfNal("hevc", "idr", 30))
		}
		return cat([]byte{0, 0, 0, 1}, SfSps, []byte{0, 0, 0, 1}, SfPps, []byte{0, 0, 0, 1}, SfNal("avc", "idr", 30))
	}
	adts := func(n int) []byte {
		fl := 7 + n
		h := []byte{0xff, 0xf1, 0x50, 0x80 | byte(fl>>11), byte(fl >> 3), byte(fl<<5) | 0x1f, 0xfc}
		return append(h, sfBody(n, 0x51)...)
	}
	pes := func(id byte, declared int, flags byte, hdl int, hd []byte, payload []byte) []byte {
		n := 3 + len(hd) + len(payload)
		if declared >= 0 {
			n = declared
		}
		b := []byte{0, 0, 1, id, byte(n >> 8), byte(n), 0x80, flags, byte(hdl)}
		return cat(b, hd, payload)
	}
	p := psTs(2, uint64(pts))
	switch k {
	case "pack":
		switch v {
		case "ok":
			return PsPackHeader(uint64(pts), 0)
		case "stuff7":
			return PsPackHeader(uint64(pts), 7)
		case "stuff7short": // stuffing length 7, no stuffing bytes
			b := PsPackHeader(uint64(pts), 0)
			b[13] = 0xff
			return b
		case "mpeg1": // MPEG-1 pack header (12 bytes)
			return []byte{0, 0, 1, 0xba, 0x21, 0, 1, 0, 1, 0x80, 0x27, 0x11}
		}
	case "sys":
		switch v {
		case "ok":
			return PsSystemHeader(true)
		case "len0":
			return []byte{0, 0, 1, 0xbb, 0, 0}
		case "lenFFFF":
			return cat([]byte{0, 0, 1, 0xbb, 0xff, 0xff}, make([]byte, 9))
		case "hik": // private stream id used by some cameras
			return cat([]byte{0, 0, 1, 0xbd, 0, 4}, []byte{1, 2, 3, 4})
		case "padding":
			return cat([]byte{0, 0, 1, 0xbe, 0, 3}, []byte{0xff, 0xff, 0xff})
		}
	case "psm":
		switch v {
		case "avc":
			return PsMap("avc", "aac")
		case "hevc":
			return PsMap("hevc", "aac")
		case "g711":
			return PsMap("avc", "pcma")
		case "unk": // unknown stream types
			b := PsMap("avc", "aac")
			b[12], b[16] = 0x77, 0x78
			return b
		case "len0":
			return []byte{0, 0, 1, 0xbc, 0, 0}
		case "len4":
			return []byte{0, 0, 1, 0xbc, 0, 4, 0xe1, 0xff, 0, 0}
		case "psiPast": // program_stream_info_length past the end
			b := PsMap("avc", "aac")
			b[8], b[9] = 0xff, 0xf0
			return b
		case "esmPast": // elementary_stream_map_length past the end
			b := PsMap("avc", "aac")
			b[10], b[11] = 0xff, 0xf0
			return b
		case "esm1": // elementary_stream_map_length 1
			b := PsMap("avc", "aac")
			b[10], b[11] = 0, 1
			return b
		case "esm5":
			b := PsMap("avc", "aac")
			b[10], b[11] = 0, 5
			return b
		case "esiPast": // elementary_stream_info_length past the end
			b := PsMap("avc", "aac")
			b[14], b[15] = 0xff, 0xff
			return b
		case "esi3": // info length that makes the loop end in the middle of an entry
			b := PsMap("avc", "aac")
			b[14], b[15] = 0, 3
			return b
		case "many": // 40 map entries
			var es []byte
			for i := 0; i < 40; i++ {
				es = append(es, 0x1b, 0xe0+byte(i%16), 0, 0)
			}
			body := cat([]byte{0xe1, 0xff, 0, 0, byte(len(es) >> 8), byte(len(es))}, es)
			n := len(body) + 4
			return cat([]byte{0, 0, 1, 0xbc, byte(n >> 8), byte(n)}, body, []byte{1, 2, 3, 4})
		}
	case "pesv", "pesa":
		id := byte(0xe0)
		good := annexb("avc")
		if k == "pesa" {
			id = 0xc0
			good = adts(30)
		}
		switch v {
		case "ok":
			return pes(id, -1, 0x80, 5, p, good)
		case "hevc":
			return pes(id, -1, 0x80, 5, p, annexb("hevc"))
		case "ptsdts":
			return pes(id, -1, 0xc0, 10, cat(psTs(3, uint64(pts)), psTs(1, uint64(pts))), good)
		case "nopts":
			return pes(id, -1, 0x00, 0, nil, good)
		case "len0": // PES_packet_length 0 (unbounded)
			return pes(id, 0, 0x80, 5, p, good)
		case "len1":
			return pes(id, 1, 0x80, 5, p, good)
		case "len2":
			return pes(id, 2, 0x80, 5, p, good)
		case "len3":
			return pes(id, 3, 0x80, 0, nil, nil)
		case "lenFFFF": // declares 65535, little data
			return pes(id, 0xffff, 0x80, 5, p, good)
		case "hdl255": // header data length beyond the packet
			return pes(id, -1, 0x80, 255, p, good)
		case "hdlPast": // header data length equals what is left, flags promise PTS + DTS
			return pes(id, 3+4, 0xc0, 4, []byte{0x21, 0, 1, 0}, nil)
		case "ptsShort": // PTS flag, header data length 2
			return pes(id, -1, 0x80, 2, []byte{0x21, 0}, good)
		case "dtsShort": // PTS+DTS flags, header data length 5
			return pes(id, -1, 0xc0, 5, p, good)
		case "empty": // no payload
			return pes(id, -1, 0x80, 5, p, nil)
		case "sc3": // 3-byte start codes
			return pes(id, -1, 0x80, 5, p, cat([]byte{0, 0, 1}, SfSps, []byte{0, 0, 1}, SfPps, []byte{0, 0, 1}, SfNal("avc", "idr", 30)))
		case "scOnly4": // start code and nothing else
			return pes(id, -1, 0x80, 5, p, []byte{0, 0, 0, 1})
		case "scOnly3":
			return pes(id, -1, 0x80, 5, p, []byte{0, 0, 1})
		case "sc3nal1": // 3-byte start code + 1-byte NAL unit
			return pes(id, -1, 0x80, 5, p, []byte{0, 0, 1, 0x67})
		case "scTwice": // two start codes back to back
			return pes(id, -1, 0x80, 5, p, []byte{0, 0, 0, 1, 0, 0, 0, 1, 0x67})
		case "nosc": // no start code at all
			return pes(id, -1, 0x80, 5, p, sfBody(20, 0x61))
		case "one": // one payload byte
			return pes(id, -1, 0x80, 5, p, []byte{0x67})
		case "adtsShort": // 3 bytes of an ADTS header
			return pes(id, -1, 0x80, 5, p, []byte{0xff, 0xf1, 0x50})
		case "adts7": // ADTS header only, frame length 7
			return pes(id, -1, 0x80, 5, p, adts(0))
		case "adtsLen0": // ADTS header with frame length 0
			b := adts(10)
			b[3], b[4], b[5] = 0x80, 0, 0x1f
			return pes(id, -1, 0x80, 5, p, b)
		case "adtsBig": // frame length larger than the payload
			b := adts(10)
			b[3], b[4], b[5] = 0x83, 0xff, 0xff
			return pes(id, -1, 0x80, 5, p, b)
		case "unkId": // stream id nobody announced
			return pes(0xf9, -1, 0x80, 5, p, good)
		case "private1":
			return pes(0xbd, -1, 0x80, 5, p, good)
		}
	case "raw":
		switch v {
		case "zeros":
			return make([]byte, 8)
		case "ff":
			return []byte{0xff, 0xff, 0xff, 0xff, 0xff, 0xff}
		case "sc": // a bare start code prefix
			return []byte{0, 0, 1}
		case "end":
			return []byte{0, 0, 1, 0xb9}
		case "one":
			return []byte{0}
		}
	}
	return []byte{0, 0, 1, 0xb9}
}

// ---------------------------------------------------------------- WebSocket frames

// SfWsFrame builds one client frame.  lenForm: 7 | 16 | 64 | 2e63 (64-bit form announcing 2^63) |
// 16big (16-bit form announcing 65535 with the payload given) ; cut < 0: whole frame.
func SfWsFrame(fin bool, opcode int, masked bool, lenForm string, payload []byte, cut int) []byte {
	b0 := byte(opcode & 0xf)
	if fin {
		b0 |= 0x80
	}
	m := byte(0)
	if masked {
		m = 0x80
	}
	var b []byte
	n := len(payload)
	switch lenForm {
	case "7":
		if n > 125 {
			n = 125
			payload = payload[:125]
		}
		b = []byte{b0, m | byte(n)}
	case "16":
		b = []byte{b0, m | 126, byte(n >> 8), byte(n)}
	case "64":
		b = []byte{b0, m | 127, 0, 0, 0, 0, byte(n >> 24), byte(n >> 16), byte(n >> 8), byte(n)}
	case "2e63":
		b = []byte{b0, m | 127, 0x80, 0, 0, 0, 0, 0, 0, 0}
	case "2e64m1":
		b = []byte{b0, m | 127, 0xff, 0xff, 0xff, 0xff, 0xff, 0xff, 0xff, 0xff}
	case "16big":
		b = []byte{b0, m | 126, 0xff, 0xff}
	}
	if masked {
		key := []byte{0x12, 0x34, 0x56, 0x78}
		b = append(b, key...)
		p := make([]byte, len(payload))
		for i := range payload {
			p[i] = payload[i] ^ key[i%4]
		}
		payload = p
	}
	b = append(b, payload...)
	if cut >= 0 && cut < len(b) {
		b = b[:cut]
	}
	return b
}

// SfUnWs strips server-to-client frame headers (unmasked) and returns the payload bytes.
func SfUnWs(b []byte) []byte {
	_, p, _ := Deframe(b)
	return p
}

// ---------------------------------------------------------------- FLV

func SfFlvHeader() []byte { return []byte{'F', 'L', 'V', 1, 5, 0, 0, 0, 9, 0, 0, 0, 0} }

// SfFlvTag returns a tag with the declared data size (declared < 0: real size) and trailing prev-tag-size.
func SfFlvTag(typ byte, declared int, ts uint32, data []byte) []byte {
	n := len(data)
	if declared >= 0 {
		n = declared
	}
	b := []byte{typ, byte(n >> 16), byte(n >> 8), byte(n), byte(ts >> 16), byte(ts >> 8), byte(ts), byte(ts >> 24), 0, 0, 0}
	b = append(b, data...)
	t := 11 + len(data)
	return append(b, byte(t>>24), byte(t>>16), byte(t>>8), byte(t))
}

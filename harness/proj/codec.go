package proj

// Independent codec-configuration writers and readers for C19 (no lal imports):
//   - RBSP bit writer with Exp-Golomb codes and emulation prevention (H.264 7.4.1 / H.265 7.4.2);
//     serialises the abstract SPS syntax trees enumerated by spec/Codec.tla
//   - AVC / HEVC decoder configuration record writer + reader (ISO/IEC 14496-15)
//   - Annex-B and length-prefixed (AVCC) NAL stream writer + splitter (H.264 Annex B)
//   - SDP reader following RFC 4566 / 6184 / 7798 / 3640
//   - AudioSpecificConfig writer/reader and ADTS fixed/variable header reader (ISO/IEC 14496-3)
// Projections only: they report what they find, they never judge.

import (
	"bytes"
	"encoding/base64"
	"encoding/hex"
	"strconv"
	"strings"
)

// ---------------------------------------------------------------------------- bit writer

type BitW struct {
	buf []byte
	n   uint // bits used in the last byte (0 = byte aligned)
}

func (w *BitW) Bit(b uint) {
	if w.n == 0 {
		w.buf = append(w.buf, 0)
	}
	if b&1 == 1 {
		w.buf[len(w.buf)-1] |= 1 << (7 - w.n)
	}
	w.n = (w.n + 1) % 8
}

func (w *BitW) U(n uint, v uint64) {
	for i := int(n) - 1; i >= 0; i-- {
		w.Bit(uint(v>>uint(i)) & 1)
	}
}

// UE writes ue(v): codeNum v as [leading zeros][1][info].
func (w *BitW) UE(v uint32) {
	x := uint64(v) + 1
	nb := uint(0)
	for t := x; t > 1; t >>= 1 {
		nb++
	}
	w.U(nb, 0)
	w.U(nb+1, x)
}

// SE writes se(v): k>0 -> codeNum 2k-1, k<=0 -> codeNum -2k.
func (w *BitW) SE(v int64) {
	if v > 0 {
		w.UE(uint32(2*v - 1))
	} else {
		w.UE(uint32(-2 * v))
	}
}

// Trailing writes rbsp_trailing_bits.
func (w *BitW) Trailing() {
	w.Bit(1)
	for w.n != 0 {
		w.Bit(0)
	}
}

func (w *BitW) Bytes() []byte { return w.buf }

// AddEPB inserts emulation_prevention_three_byte: inside a NAL unit 00 00 must not be followed
// by 00, 01, 02 or 03.  Returns the escaped bytes and the number of bytes inserted.
func AddEPB(rbsp []byte) ([]byte, int) {
	out := make([]byte, 0, len(rbsp)+8)
	z, cnt := 0, 0
	for _, b := range rbsp {
		if z >= 2 && b <= 3 {
			out = append(out, 3)
			cnt++
			z = 0
		}
		out = append(out, b)
		if b == 0 {
			z++
		} else {
			z = 0
		}
	}
	return out, cnt
}

// ---------------------------------------------------------------------------- SPS syntax trees

// SpsTree is the abstract SPS of spec/Codec.tla (all fields always present; flags are 0/1).
type SpsTree struct {
	Codec string `json:"codec"` // h264 | h265
	// H.264
	Profile int   `json:"profile"`
	Chroma  int   `json:"chroma"`
	Sep     int   `json:"sep"`
	Scal    int   `json:"scal"` // 0 no matrix, 1 matrix flag with no list, 2 lists present
	Poc     int   `json:"poc"`
	Cyc     int   `json:"cyc"`
	Big     int   `json:"big"` // pic-order-count offsets large enough to need emulation prevention
	Wmbs    int   `json:"wmbs"`
	Hmap    int   `json:"hmap"`
	Fmo     int   `json:"fmo"`
	Mbaff   int   `json:"mbaff"`
	Crop    int   `json:"crop"`
	Co      []int `json:"co"` // left right top bottom
	Vui     int   `json:"vui"`
	// H.265
	Msl int `json:"msl"` // sps_max_sub_layers_minus1
	Slp int `json:"slp"` // sub_layer_profile_present_flag (all sub-layers)
	Sll int `json:"sll"` // sub_layer_level_present_flag
	W   int `json:"w"`
	H   int `json:"h"`
	Ord int `json:"ord"` // sps_sub_layer_ordering_info_present_flag
	Bd  int `json:"bd"`  // bit_depth_minus8
}

var h264ChromaProfiles = map[int]bool{100: true, 110: true, 122: true, 244: true, 44: true, 83: true,
	86: true, 118: true, 128: true, 138: true, 139: true, 134: true, 135: true}

func writeScalingList(w *BitW, size int, variant int) {
	last, next := 8, 8
	for j := 0; j < size; j++ {
		if next != 0 {
			var d int
			switch variant {
			case 0: // useDefaultScalingMatrixFlag: first delta makes nextScale 0
				d = -8
			case 1: // full list, alternating
				if j%2 == 0 {
					d = 2
				} else {
					d = -2
				}
			case 2: // five values then the list ends early (nextScale 0)
				if j < 5 {
					d = 1
				} else {
					d = -last
				}
			default: // flat
				d = 0
			}
			w.SE(int64(d))
			next = (last + d + 256) % 256
		}
		if next != 0 {
			last = next
		}
	}
}

// WriteH264Sps serialises the tree to a complete NAL unit (header byte 0x67, escaped RBSP).
func WriteH264Sps(t *SpsTree) ([]byte, int) {
	w := &BitW{}
	w.U(8, uint64(t.Profile))
	cs := uint64(0)
	if t.Profile == 66 {
		cs = 0xC0
	}
	w.U(8, cs)
	w.U(8, 31)
	w.UE(0)
	if h264ChromaProfiles[t.Profile] {
		w.UE(uint32(t.Chroma))
		if t.Chroma == 3 {
			w.U(1, uint64(t.Sep))
		}
		w.UE(0)
		w.UE(0)
		w.U(1, 0)
		if t.Scal == 0 {
			w.U(1, 0)
		} else {
			w.U(1, 1)
			n := 8
			if t.Chroma == 3 {
				n = 12
			}
			for i := 0; i < n; i++ {
				if t.Scal == 1 || i%2 == 1 && i != 7 {
					w.U(1, 0)
					continue
				}
				w.U(1, 1)
				size := 16
				if i >= 6 {
					size = 64
				}
				writeScalingList(w, size, map[int]int{0: 0, 2: 1, 4: 3, 6: 1, 7: 2, 8: 0, 10: 3}[i])
			}
		}
	}
	w.UE(0)
	w.UE(uint32(t.Poc))
	if t.Poc == 0 {
		w.UE(2)
	} else if t.Poc == 1 {
		w.U(1, 0)
		if t.Big == 1 {
			w.SE(1 << 30)
			w.SE(-(1 << 30))
		} else {
			w.SE(-1)
			w.SE(1)
		}
		w.UE(uint32(t.Cyc))
		for i := 0; i < t.Cyc; i++ {
			if t.Big == 1 {
				w.SE(int64(1<<29 + i))
			} else {
				w.SE(int64(i - 1))
			}
		}
	}
	w.UE(1)
	w.U(1, 0)
	w.UE(uint32(t.Wmbs))
	w.UE(uint32(t.Hmap))
	w.U(1, uint64(t.Fmo))
	if t.Fmo == 0 {
		w.U(1, uint64(t.Mbaff))
	}
	w.U(1, 1)
	w.U(1, uint64(t.Crop))
	if t.Crop == 1 {
		for i := 0; i < 4; i++ {
			w.UE(uint32(t.Co[i]))
		}
	}
	w.U(1, uint64(t.Vui))
	if t.Vui == 1 {
		w.U(1, 1) // aspect_ratio_info_present_flag
		w.U(8, 255)
		w.U(16, 4)
		w.U(16, 3)
		w.U(1, 0) // overscan_info_present_flag
		w.U(1, 1) // video_signal_type_present_flag
		w.U(3, 5)
		w.U(1, 0)
		w.U(1, 1)
		w.U(8, 1)
		w.U(8, 1)
		w.U(8, 1)
		w.U(1, 0) // chroma_loc_info_present_flag
		w.U(1, 1) // timing_info_present_flag
		w.U(32, 1)
		w.U(32, 50)
		w.U(1, 1)
		w.U(1, 0) // nal_hrd_parameters_present_flag
		w.U(1, 0) // vcl_hrd_parameters_present_flag
		w.U(1, 0) // pic_struct_present_flag
		w.U(1, 0) // bitstream_restriction_flag
	}
	w.Trailing()
	esc, n := AddEPB(w.Bytes())
	return append([]byte{0x67}, esc...), n
}

func writePtl(w *BitW, msl, slp, sll int) {
	one := func() {
		w.U(2, 0)
		w.U(1, 0)
		w.U(5, 1)
		w.U(32, 0x60000000)
		w.U(1, 1)
		w.U(1, 0)
		w.U(1, 0)
		w.U(1, 1)
		w.U(43, 0)
		w.U(1, 0)
	}
	one()
	w.U(8, 93)
	for i := 0; i < msl; i++ {
		w.U(1, uint64(slp))
		w.U(1, uint64(sll))
	}
	if msl > 0 {
		for i := msl; i < 8; i++ {
			w.U(2, 0)
		}
	}
	for i := 0; i < msl; i++ {
		if slp == 1 {
			one()
		}
		if sll == 1 {
			w.U(8, 90)
		}
	}
}

// WriteH265Sps serialises the tree to a complete NAL unit (2-byte header, escaped RBSP).
func WriteH265Sps(t *SpsTree) ([]byte, int) {
	w := &BitW{}
	w.U(4, 0)
	w.U(3, uint64(t.Msl))
	w.U(1, 1)
	writePtl(w, t.Msl, t.Slp, t.Sll)
	w.UE(0)
	w.UE(uint32(t.Chroma))
	if t.Chroma == 3 {
		w.U(1, uint64(t.Sep))
	}
	w.UE(uint32(t.W))
	w.UE(uint32(t.H))
	w.U(1, uint64(t.Crop))
	if t.Crop == 1 {
		for i := 0; i < 4; i++ {
			w.UE(uint32(t.Co[i]))
		}
	}
	w.UE(uint32(t.Bd))
	w.UE(uint32(t.Bd))
	w.UE(4)
	w.U(1, uint64(t.Ord))
	i0 := t.Msl
	if t.Ord == 1 {
		i0 = 0
	}
	for i := i0; i <= t.Msl; i++ {
		w.UE(1)
		w.UE(0)
		w.UE(0)
	}
	w.UE(0)
	w.UE(3)
	w.UE(0)
	w.UE(3)
	w.UE(0)
	w.UE(0)
	w.U(1, 0) // scaling_list_enabled_flag
	w.U(1, 1)
	w.U(1, 1)
	w.U(1, 0) // pcm_enabled_flag
	w.UE(0)   // num_short_term_ref_pic_sets
	w.U(1, 0) // long_term_ref_pics_present_flag
	w.U(1, 1)
	w.U(1, 1)
	w.U(1, 0) // vui_parameters_present_flag
	w.U(1, 0) // sps_extension_present_flag
	w.Trailing()
	esc, n := AddEPB(w.Bytes())
	return append([]byte{0x42, 0x01}, esc...), n
}

// WriteH265Vps writes a minimal single-layer VPS.
func WriteH265Vps() []byte {
	w := &BitW{}
	w.U(4, 0)
	w.U(2, 3)
	w.U(6, 0)
	w.U(3, 0)
	w.U(1, 1)
	w.U(16, 0xffff)
	writePtl(w, 0, 0, 0)
	w.U(1, 1)
	w.UE(1)
	w.UE(0)
	w.UE(0)
	w.U(6, 0)
	w.UE(0)
	w.U(1, 0)
	w.U(1, 0)
	w.Trailing()
	esc, _ := AddEPB(w.Bytes())
	return append([]byte{0x40, 0x01}, esc...)
}

// ---------------------------------------------------------------------------- parameter-set bytes

// NalFill writes position-coded filler that is legal NAL payload (every byte >= 0x80): byte i of
// the code of `id` is one of a repeating 4-byte group (id, block bits 20..14, 13..7, 6..0).
func NalFill(id int, off int, n int) []byte {
	b := make([]byte, n)
	for i := range b {
		p := off + i
		blk := p / 4
		switch p % 4 {
		case 0:
			b[i] = 0x80 | byte(id&0x7f)
		case 1:
			b[i] = 0x80 | byte(blk>>14)&0x7f
		case 2:
			b[i] = 0x80 | byte(blk>>7)&0x7f
		case 3:
			b[i] = 0x80 | byte(blk)&0x7f
		}
	}
	return b
}

// SetKinds in canonical order.
var SetKinds = []string{"vps", "sps", "pps"}

func setHeader(codec, kind string) []byte {
	switch codec + "." + kind {
	case "h264.sps":
		b, _ := WriteH264Sps(&SpsTree{Codec: "h264", Profile: 100, Chroma: 1, Wmbs: 19, Hmap: 14, Fmo: 1, Co: []int{0, 0, 0, 0}})
		return b
	case "h264.pps":
		return []byte{0x68}
	case "h265.vps":
		return WriteH265Vps()
	case "h265.sps":
		b, _ := WriteH265Sps(&SpsTree{Codec: "h265", Chroma: 1, W: 320, H: 240, Co: []int{0, 0, 0, 0}})
		return b
	case "h265.pps":
		return []byte{0x44, 0x01}
	}
	return nil
}

// MinSet is the length of the syntactically meaningful prefix of a generated set.
func MinSet(codec, kind string) int { return len(setHeader(codec, kind)) }

// GenSet builds a parameter set of exactly n bytes: the real syntax prefix (cut when n is
// smaller), then position-coded filler.  Class "e" overlays emulation-prevention patterns
// (00 00 03 xx) through the filler, across the 255/256 boundary and at the very end, and bytes
// that exercise every base64 alphabet region.
func GenSet(codec, kind string, n int, cls string) []byte {
	id := map[string]int{"vps": 1, "sps": 2, "pps": 3}[kind]
	h := setHeader(codec, kind)
	if n <= len(h) {
		return append([]byte{}, h[:n]...)
	}
	b := append(append([]byte{}, h...), NalFill(id, 0, n-len(h))...)
	if cls == "e" {
		pat := [][]byte{{0, 0, 3, 0}, {0, 0, 3, 1}, {0, 0, 3, 2}, {0, 0, 3, 3}, {0xfb, 0xef, 0xbe, 0xff}, {0, 0, 3, 0, 0, 3, 1}}
		k := 0
		put := func(pos int, p []byte) {
			if pos > len(h) && pos+len(p)+1 < len(b) {
				copy(b[pos:], p)
			}
		}
		for pos := len(h) + 2; pos < len(b); pos += 61 {
			put(pos, pat[k%len(pat)])
			k++
		}
		put(251, pat[1])
		put(255, pat[0])
		put(65528, pat[3])
		if len(b) >= len(h)+4 {
			copy(b[len(b)-3:], []byte{0, 0, 3}) // cabac_zero_words style ending
		}
		// overlapping overlays must not leave a start code emulation in the filler
		for i := len(h); i+2 < len(b); i++ {
			if b[i] == 0 && b[i+1] == 0 && b[i+2] <= 2 {
				b[i+2] = 3
			}
		}
	}
	return b
}

// SetView is the position-coded identity of one parameter set found in a representation.
type SetView struct {
	K  string `json:"k"`
	N  int    `json:"n"`
	Eq bool   `json:"eq"`
}

// KindOfNal classifies a parameter set by its NAL unit type.
func KindOfNal(codec string, b []byte) string {
	if len(b) == 0 {
		return "empty"
	}
	if codec == "h264" {
		switch b[0] & 0x1f {
		case 7:
			return "sps"
		case 8:
			return "pps"
		}
		return "other"
	}
	switch (b[0] >> 1) & 0x3f {
	case 32:
		return "vps"
	case 33:
		return "sps"
	case 34:
		return "pps"
	}
	return "other"
}

// ViewSets compares found sets (in the order found) with the originals of the same kind.
func ViewSets(codec string, found [][]byte, orig map[string][]byte) []SetView {
	out := []SetView{}
	for _, f := range found {
		k := KindOfNal(codec, f)
		o, ok := orig[k]
		out = append(out, SetView{K: k, N: len(f), Eq: ok && bytes.Equal(f, o)})
	}
	return out
}

// ---------------------------------------------------------------------------- decoder configuration records

type AvcRecord struct {
	Tag     []int    `json:"tag"` // the five FLV video tag bytes
	Version int      `json:"version"`
	Profile int      `json:"profile"`
	Compat  int      `json:"compat"`
	Level   int      `json:"level"`
	LenSize int      `json:"lenSize"`
	Nsps    int      `json:"nsps"`
	Npps    int      `json:"npps"`
	Trail   int      `json:"trail"`
	Bad     bool     `json:"bad"`
	Sets    [][]byte `json:"-"`
}

// ReadAvcSeqHeader parses FLV/RTMP AVC sequence header = 5 tag bytes + AVCDecoderConfigurationRecord.
func ReadAvcSeqHeader(b []byte) *AvcRecord {
	r := &AvcRecord{Tag: []int{}}
	if len(b) < 11 {
		r.Bad = true
		return r
	}
	for _, x := range b[:5] {
		r.Tag = append(r.Tag, int(x))
	}
	r.Version, r.Profile, r.Compat, r.Level = int(b[5]), int(b[6]), int(b[7]), int(b[8])
	r.LenSize = int(b[9]&3) + 1
	r.Nsps = int(b[10] & 0x1f)
	p := 11
	rd := func(cnt int) bool {
		for i := 0; i < cnt; i++ {
			if p+2 > len(b) {
				return false
			}
			l := int(b[p])<<8 | int(b[p+1])
			p += 2
			if p+l > len(b) {
				return false
			}
			r.Sets = append(r.Sets, b[p:p+l])
			p += l
		}
		return true
	}
	if !rd(r.Nsps) || p >= len(b) {
		r.Bad = true
		return r
	}
	r.Npps = int(b[p])
	p++
	if !rd(r.Npps) {
		r.Bad = true
		return r
	}
	r.Trail = len(b) - p
	return r
}

// WriteAvcSeqHeader is an independent muxer's sequence header (profile bytes copied from the SPS).
func WriteAvcSeqHeader(sps, pps []byte) []byte {
	g := func(i int) byte {
		if i < len(sps) {
			return sps[i]
		}
		return 0
	}
	b := []byte{0x17, 0, 0, 0, 0, 1, g(1), g(2), g(3), 0xff, 0xe1, byte(len(sps) >> 8), byte(len(sps))}
	b = append(b, sps...)
	b = append(b, 1, byte(len(pps)>>8), byte(len(pps)))
	return append(b, pps...)
}

type HevcRecord struct {
	Tag     []int    `json:"tag"`
	Version int      `json:"version"`
	LenSize int      `json:"lenSize"`
	Arrays  []int    `json:"arrays"` // NAL unit type of each array
	Counts  []int    `json:"counts"`
	Trail   int      `json:"trail"`
	Bad     bool     `json:"bad"`
	Sets    [][]byte `json:"-"`
}

func ReadHevcSeqHeader(b []byte) *HevcRecord {
	r := &HevcRecord{Tag: []int{}, Arrays: []int{}, Counts: []int{}}
	if len(b) < 28 {
		r.Bad = true
		return r
	}
	for _, x := range b[:5] {
		r.Tag = append(r.Tag, int(x))
	}
	r.Version = int(b[5])
	r.LenSize = int(b[26]&3) + 1
	na := int(b[27])
	p := 28
	for a := 0; a < na; a++ {
		if p+3 > len(b) {
			r.Bad = true
			return r
		}
		r.Arrays = append(r.Arrays, int(b[p]&0x3f))
		cnt := int(b[p+1])<<8 | int(b[p+2])
		r.Counts = append(r.Counts, cnt)
		p += 3
		for i := 0; i < cnt; i++ {
			if p+2 > len(b) {
				r.Bad = true
				return r
			}
			l := int(b[p])<<8 | int(b[p+1])
			p += 2
			if p+l > len(b) {
				r.Bad = true
				return r
			}
			r.Sets = append(r.Sets, b[p:p+l])
			p += l
		}
	}
	r.Trail = len(b) - p
	return r
}

func WriteHevcSeqHeader(vps, sps, pps []byte) []byte {
	b := []byte{0x1c, 0, 0, 0, 0, 1, 0x01, 0x60, 0, 0, 0, 0x90, 0, 0, 0, 0, 0, 93, 0xf0, 0, 0xfc, 0xfd, 0xf8, 0xf8, 0, 0, 0x0f, 3}
	for i, s := range [][]byte{vps, sps, pps} {
		b = append(b, byte(0x80|(32+i)), 0, 1, byte(len(s)>>8), byte(len(s)))
		b = append(b, s...)
	}
	return b
}

// ---------------------------------------------------------------------------- NAL stream framing

// SplitAnnexB follows H.264 Annex B: a NAL unit starts after a 00 00 01 prefix and extends to
// the next 00 00 00 / 00 00 01 or the end of the stream; trailing_zero_8bits are not part of it.
func SplitAnnexB(s []byte) [][]byte {
	out := [][]byte{}
	next := func(i int) int {
		for ; i+2 < len(s); i++ {
			if s[i] == 0 && s[i+1] == 0 && s[i+2] == 1 {
				return i
			}
		}
		return -1
	}
	j := next(0)
	for j >= 0 {
		st := j + 3
		k := next(st)
		end := k
		if k < 0 {
			end = len(s)
		}
		for end > st && s[end-1] == 0 {
			end--
		}
		out = append(out, s[st:end])
		j = k
	}
	return out
}

// WriteAnnexB writes units with the given start code length each (3 or 4) and tz trailing zeros.
func WriteAnnexB(units [][]byte, sc []int, tz int) []byte {
	var b []byte
	for i, u := range units {
		for k := 3; k < sc[i]; k++ {
			b = append(b, 0)
		}
		b = append(b, 0, 0, 1)
		b = append(b, u...)
	}
	return append(b, make([]byte, tz)...)
}

// SplitAvcc splits 4-byte length prefixed units; ok is false when the lengths do not tile the buffer.
func SplitAvcc(s []byte) ([][]byte, bool) {
	out := [][]byte{}
	p := 0
	for p < len(s) {
		if p+4 > len(s) {
			return out, false
		}
		l := int(s[p])<<24 | int(s[p+1])<<16 | int(s[p+2])<<8 | int(s[p+3])
		p += 4
		if l < 0 || p+l > len(s) {
			return out, false
		}
		out = append(out, s[p:p+l])
		p += l
	}
	return out, true
}

func WriteAvcc(units [][]byte) []byte {
	var b []byte
	for _, u := range units {
		b = append(b, byte(len(u)>>24), byte(len(u)>>16), byte(len(u)>>8), byte(len(u)))
		b = append(b, u...)
	}
	return b
}

// NalUnit of the framing scenarios: explicit head bytes (all < 0x80) then n filler bytes.
type NalUnit struct {
	B []int `json:"b"`
	N int   `json:"n"`
}

func (u NalUnit) Bytes(id int) []byte {
	b := make([]byte, 0, len(u.B)+u.N)
	for _, x := range u.B {
		b = append(b, byte(x))
	}
	return append(b, NalFill(id, 0, u.N)...)
}

// UnitView decomposes found bytes: head = bytes before the first filler byte, rest = filler.
type UnitView struct {
	B  []int `json:"b"`
	N  int   `json:"n"`
	Eq bool  `json:"eq"` // rest is exactly the filler code of its own first byte's id
}

func ViewUnit(x []byte) UnitView {
	v := UnitView{B: []int{}, Eq: true}
	i := 0
	for i < len(x) && x[i] < 0x80 {
		v.B = append(v.B, int(x[i]))
		i++
	}
	v.N = len(x) - i
	if v.N > 0 {
		v.Eq = bytes.Equal(x[i:], NalFill(int(x[i]&0x7f), 0, v.N))
	}
	return v
}

// ---------------------------------------------------------------------------- AAC

var AacRates = []int{96000, 88200, 64000, 48000, 44100, 32000, 24000, 22050, 16000, 12000, 11025, 8000, 7350}

// Asc is the abstract AudioSpecificConfig: object type (1..30), frequency index (0..12), channel
// configuration, the three GASpecificConfig flag bits, and ext extra bytes that follow.
type Asc struct {
	Ot  int `json:"ot"`
	Fi  int `json:"fi"`
	Ch  int `json:"ch"`
	Low int `json:"low"`
	Ext int `json:"ext"`
}

func (a Asc) Bytes() []byte {
	w := &BitW{}
	w.U(5, uint64(a.Ot))
	w.U(4, uint64(a.Fi))
	w.U(4, uint64(a.Ch))
	w.U(3, uint64(a.Low))
	b := w.Bytes()
	for i := 0; i < a.Ext; i++ {
		b = append(b, byte(0x56+0x31*i))
	}
	return b
}

type AscView struct {
	Ot  int  `json:"ot"`
	Fi  int  `json:"fi"`
	Ch  int  `json:"ch"`
	Low int  `json:"low"`
	N   int  `json:"n"`
	Eq  bool `json:"eq"`
}

func ViewAsc(b []byte, orig []byte) AscView {
	v := AscView{N: len(b), Eq: bytes.Equal(b, orig), Ot: -1, Fi: -1, Ch: -1, Low: -1}
	if len(b) >= 2 {
		v.Ot = int(b[0] >> 3)
		v.Fi = int(b[0]&7)<<1 | int(b[1]>>7)
		v.Ch = int(b[1]>>3) & 0xf
		v.Low = int(b[1] & 7)
	}
	return v
}

type AdtsView struct {
	Size    int `json:"size"`
	Sync    int `json:"sync"`
	Id      int `json:"id"`
	Layer   int `json:"layer"`
	Pa      int `json:"pa"`
	Profile int `json:"profile"`
	Fi      int `json:"fi"`
	Priv    int `json:"priv"`
	Ch      int `json:"ch"`
	Copy    int `json:"copy"` // original_copy, home, copyright id bit, copyright id start
	Len     int `json:"len"`
	Full    int `json:"full"`
	Blocks  int `json:"blocks"`
}

func ReadAdts(b []byte) AdtsView {
	v := AdtsView{Size: len(b)}
	if len(b) < 7 {
		return v
	}
	v.Sync = int(b[0])<<4 | int(b[1]>>4)
	v.Id = int(b[1]>>3) & 1
	v.Layer = int(b[1]>>1) & 3
	v.Pa = int(b[1] & 1)
	v.Profile = int(b[2] >> 6)
	v.Fi = int(b[2]>>2) & 0xf
	v.Priv = int(b[2]>>1) & 1
	v.Ch = int(b[2]&1)<<2 | int(b[3]>>6)
	v.Copy = int(b[3]>>2) & 0xf
	v.Len = int(b[3]&3)<<11 | int(b[4])<<3 | int(b[5]>>5)
	v.Full = int(b[5]&0x1f)<<6 | int(b[6]>>2)
	v.Blocks = int(b[6] & 3)
	return v
}

// ---------------------------------------------------------------------------- SDP (RFC 4566 / 6184 / 7798 / 3640)

type SdpMedia struct {
	Media   string
	Fmts    []string
	Rtpmap  map[string]string // fmt -> "<enc>/<clock>[/<params>]"
	Fmtp    map[string]map[string]string
	Control string
}

// ReadSdp is a small RFC 4566 reader: lines end with CRLF (a bare LF is tolerated), media-level
// attributes follow their m= line.
func ReadSdp(raw []byte) []*SdpMedia {
	var out []*SdpMedia
	var cur *SdpMedia
	for _, ln := range strings.Split(string(raw), "\n") {
		ln = strings.TrimSuffix(ln, "\r")
		if len(ln) < 2 || ln[1] != '=' {
			continue
		}
		val := ln[2:]
		switch ln[0] {
		case 'm':
			f := strings.Fields(val)
			cur = &SdpMedia{Rtpmap: map[string]string{}, Fmtp: map[string]map[string]string{}}
			if len(f) >= 1 {
				cur.Media = f[0]
			}
			if len(f) > 3 {
				cur.Fmts = f[3:]
			}
			out = append(out, cur)
		case 'a':
			if cur == nil {
				continue
			}
			name, v := val, ""
			if i := strings.Index(val, ":"); i >= 0 {
				name, v = val[:i], val[i+1:]
			}
			switch name {
			case "rtpmap":
				if i := strings.Index(v, " "); i > 0 {
					cur.Rtpmap[v[:i]] = strings.TrimSpace(v[i+1:])
				}
			case "fmtp":
				if i := strings.Index(v, " "); i > 0 {
					m := map[string]string{}
					for _, kv := range strings.Split(v[i+1:], ";") {
						kv = strings.TrimSpace(kv)
						if kv == "" {
							continue
						}
						if j := strings.Index(kv, "="); j >= 0 {
							m[strings.ToLower(kv[:j])] = kv[j+1:]
						} else {
							m[strings.ToLower(kv)] = ""
						}
					}
					cur.Fmtp[v[:i]] = m
				}
			case "control":
				cur.Control = v
			}
		}
	}
	return out
}

// SdpView is what a reader understood about one media section.
type SdpView struct {
	Codec string    `json:"codec"`
	Pt    int       `json:"pt"`
	Rate  int       `json:"rate"`
	Ctl   string    `json:"ctl"`
	Sets  []SetView `json:"sets"`
}

var NoMedia = SdpView{Codec: "none", Pt: -1, Rate: 0, Ctl: "", Sets: []SetView{}}

func b64list(s string) [][]byte {
	var out [][]byte
	for _, p := range strings.Split(s, ",") {
		p = strings.TrimSpace(p)
		if p == "" {
			continue
		}
		b, err := base64.StdEncoding.DecodeString(p)
		if err != nil {
			b = []byte{}
		}
		out = append(out, b)
	}
	return out
}

// ViewSdpMedia interprets the first format of a media section per the payload format RFCs and
// resolves the control attribute against base (RFC 2326 C.1.1).
func ViewSdpMedia(m *SdpMedia, base string, orig map[string][]byte) SdpView {
	v := SdpView{Codec: "unknown", Pt: -1, Sets: []SetView{}}
	if len(m.Fmts) == 0 {
		return v
	}
	f := m.Fmts[0]
	v.Pt, _ = strconv.Atoi(f)
	enc, rate := "", 0
	if rm, ok := m.Rtpmap[f]; ok {
		parts := strings.Split(rm, "/")
		enc = strings.ToUpper(parts[0])
		if len(parts) > 1 {
			rate, _ = strconv.Atoi(parts[1])
		}
	} else if f == "0" {
		enc, rate = "PCMU", 8000
	} else if f == "8" {
		enc, rate = "PCMA", 8000
	}
	v.Rate = rate
	switch {
	case m.Control == "*" || m.Control == "":
		v.Ctl = base
	case strings.Contains(m.Control, "://"):
		v.Ctl = m.Control
	default:
		v.Ctl = base + "/" + m.Control
	}
	p := m.Fmtp[f]
	switch enc {
	case "H264":
		v.Codec = "H264"
		v.Sets = ViewSets("h264", b64list(p["sprop-parameter-sets"]), orig)
	case "H265":
		v.Codec = "H265"
		var all [][]byte
		for _, k := range []string{"sprop-vps", "sprop-sps", "sprop-pps"} {
			all = append(all, b64list(p[k])...)
		}
		v.Sets = ViewSets("h265", all, orig)
	case "MPEG4-GENERIC":
		v.Codec = "AAC"
		if c, ok := p["config"]; ok {
			b, err := hex.DecodeString(c)
			if err != nil {
				b = []byte{}
			}
			v.Sets = []SetView{{K: "asc", N: len(b), Eq: bytes.Equal(b, orig["asc"])}}
		}
	case "PCMA", "PCMU", "OPUS":
		v.Codec = enc
	}
	return v
}

// Package proj holds the independent projections (wire readers/writers that share no code with
// lal) and the position-coded payload generator used by all drivers.
package proj

// Payload returns n position-coded bytes for message id: byte i belongs to a repeating 6-byte
// code (id:16, block:32) with block = i/6, so any fragment maps back to (id, offset).
func Payload(id int, n int) []byte {
	b := make([]byte, n)
	FillPayload(b, id, 0)
	return b
}

// FillPayload writes the code for positions off..off+len(b)-1 into b.
func FillPayload(b []byte, id int, off int) {
	for i := range b {
		p := off + i
		blk := uint32(p / 6)
		switch p % 6 {
		case 0:
			b[i] = byte(id >> 8)
		case 1:
			b[i] = byte(id)
		case 2:
			b[i] = byte(blk >> 24)
		case 3:
			b[i] = byte(blk >> 16)
		case 4:
			b[i] = byte(blk >> 8)
		case 5:
			b[i] = byte(blk)
		}
	}
}

// IsPayload reports whether b equals positions off.. of the code of message id.
func IsPayload(b []byte, id int, off int) bool {
	for i := range b {
		p := off + i
		blk := uint32(p / 6)
		var w byte
		switch p % 6 {
		case 0:
			w = byte(id >> 8)
		case 1:
			w = byte(id)
		case 2:
			w = byte(blk >> 24)
		case 3:
			w = byte(blk >> 16)
		case 4:
			w = byte(blk >> 8)
		case 5:
			w = byte(blk)
		}
		if b[i] != w {
			return false
		}
	}
	return true
}

// U32 <-> limb pair helpers ([hi, lo] with 16-bit limbs) used in all traces.
func Limbs(v uint32) [2]int { return [2]int{int(v >> 16), int(v & 0xffff)} }
func FromLimbs(l []int) uint32 {
	if len(l) != 2 {
		return 0
	}
	return uint32(l[0])<<16 | uint32(l[1])&0xffff
}

package proj

// Independent MPEG-TS / PES / PSI reader (ISO/IEC 13818-1).  A projection: it reports the
// fields it finds, it does not judge.

// T3 is a 33-bit PTS/DTS/PCR base as three limbs [bits 32..30, 29..15, 14..0].
type T3 [3]int

func ToT3(v uint64) T3 { return T3{int(v>>30) & 7, int(v>>15) & 0x7fff, int(v) & 0x7fff} }

type TsPes struct {
	StartCode bool `json:"startCode"`
	Sid       int  `json:"sid"`
	PesLen    int  `json:"pesLen"`
	Marker    int  `json:"marker"` // first flag byte (0x80 expected)
	Flags     int  `json:"flags"`  // PTS_DTS_flags (2 bits)
	HdrLen    int  `json:"hdrLen"`
	Pts       T3   `json:"pts"`
	Dts       T3   `json:"dts"`
	PtsPrefix int  `json:"ptsPrefix"` // 4-bit prefix of the PTS field
	DtsPrefix int  `json:"dtsPrefix"`
	MarkersOk bool `json:"markersOk"`
	Size      int  `json:"size"` // bytes of PES header in this packet
}

type TsPacket struct {
	Sync    bool   `json:"sync"`
	Tei     int    `json:"tei"`
	Pusi    int    `json:"pusi"`
	Pid     int    `json:"pid"`
	Scr     int    `json:"scr"`
	Afc     int    `json:"afc"`
	Cc      int    `json:"cc"`
	AfLen   int    `json:"afLen"` // -1 when no adaptation field
	AfFlags int    `json:"afFlags"`
	Rai     int    `json:"rai"`
	PcrFlag int    `json:"pcrFlag"`
	Pcr     T3     `json:"pcr"`
	PcrExt  int    `json:"pcrExt"`
	StuffN  int    `json:"stuffN"`
	StuffOk bool   `json:"stuffOk"` // all stuffing bytes 0xFF
	Bad     bool   `json:"bad"`     // structurally impossible (lengths exceed the packet)
	HasPes  bool   `json:"hasPes"`
	Pes     TsPes  `json:"pes"`
	N       int    `json:"n"` // elementary payload bytes in this packet
	Payload []byte `json:"-"`
	Body    []byte `json:"-"` // everything after TS header + adaptation field
}

func parseTs33(b []byte) (T3, int, bool) {
	v := (uint64(b[0]>>1)&7)<<30 | uint64(b[1])<<22 | uint64(b[2]>>1)<<15 | uint64(b[3])<<7 | uint64(b[4]>>1)
	ok := b[0]&1 == 1 && b[2]&1 == 1 && b[4]&1 == 1
	return ToT3(v), int(b[0] >> 4), ok
}

// ParseTsPacket parses one 188-byte packet; pes says whether a PES header is expected at the
// start of the payload (pusi on an elementary PID).
func ParseTsPacket(b []byte, elementary bool) *TsPacket {
	p := &TsPacket{AfLen: -1, StuffOk: true}
	if len(b) != 188 {
		p.Bad = true
		return p
	}
	p.Sync = b[0] == 0x47
	p.Tei = int(b[1] >> 7)
	p.Pusi = int(b[1]>>6) & 1
	p.Pid = int(b[1]&0x1f)<<8 | int(b[2])
	p.Scr = int(b[3] >> 6)
	p.Afc = int(b[3]>>4) & 3
	p.Cc = int(b[3] & 0xf)
	pos := 4
	if p.Afc&2 != 0 {
		p.AfLen = int(b[4])
		pos = 5 + p.AfLen
		if pos > 188 {
			p.Bad = true
			return p
		}
		if p.AfLen > 0 {
			p.AfFlags = int(b[5])
			p.Rai = int(b[5]>>6) & 1
			p.PcrFlag = int(b[5]>>4) & 1
			q := 6
			if p.PcrFlag == 1 {
				if p.AfLen < 7 {
					p.Bad = true
					return p
				}
				v := uint64(b[6])<<25 | uint64(b[7])<<17 | uint64(b[8])<<9 | uint64(b[9])<<1 | uint64(b[10]>>7)
				p.Pcr = ToT3(v)
				p.PcrExt = int(b[10]&1)<<8 | int(b[11])
				q = 12
			}
			for ; q < pos; q++ {
				p.StuffN++
				if b[q] != 0xff {
					p.StuffOk = false
				}
			}
		}
	}
	if p.Afc&1 == 0 {
		return p
	}
	p.Body = b[pos:]
	if elementary && p.Pusi == 1 {
		p.HasPes = true
		if 188-pos < 9 {
			p.Bad = true
			return p
		}
		h := b[pos:]
		p.Pes.StartCode = h[0] == 0 && h[1] == 0 && h[2] == 1
		p.Pes.Sid = int(h[3])
		p.Pes.PesLen = int(h[4])<<8 | int(h[5])
		p.Pes.Marker = int(h[6])
		p.Pes.Flags = int(h[7] >> 6)
		p.Pes.HdrLen = int(h[8])
		p.Pes.Size = 9 + p.Pes.HdrLen
		if pos+p.Pes.Size > 188 {
			p.Bad = true
			return p
		}
		p.Pes.MarkersOk = true
		if p.Pes.Flags&2 != 0 && p.Pes.HdrLen >= 5 {
			var ok bool
			p.Pes.Pts, p.Pes.PtsPrefix, ok = parseTs33(h[9:])
			p.Pes.MarkersOk = p.Pes.MarkersOk && ok
			p.Pes.Dts = p.Pes.Pts
		}
		if p.Pes.Flags == 3 && p.Pes.HdrLen >= 10 {
			var ok bool
			p.Pes.Dts, p.Pes.DtsPrefix, ok = parseTs33(h[14:])
			p.Pes.MarkersOk = p.Pes.MarkersOk && ok
		}
		pos += p.Pes.Size
	}
	p.Payload = b[pos:]
	p.N = 188 - pos
	return p
}

// PSI section as found in a packet whose payload starts with a pointer field.
type PsiStream struct {
	StreamType int   `json:"st"`
	Pid        int   `json:"pid"`
	EsInfo     []int `json:"esInfo"`
}

type PsiSection struct {
	Pointer   int         `json:"pointer"`
	TableId   int         `json:"tid"`
	Ssi       int         `json:"ssi"`
	SecLen    int         `json:"secLen"`
	IdExt     int         `json:"idExt"`
	Version   int         `json:"version"`
	CurNext   int         `json:"curNext"`
	SecNum    int         `json:"secNum"`
	LastSec   int         `json:"lastSec"`
	PcrPid    int         `json:"pcrPid"`
	ProgInfo  int         `json:"progInfoLen"`
	Programs  [][2]int    `json:"programs"` // PAT: (program number, pid)
	Streams   []PsiStream `json:"streams"`  // PMT
	Body      []int       `json:"body"`     // section bytes from table_id up to (not incl.) the CRC
	Crc       [2]int      `json:"crc"`      // CRC_32 as 16-bit limbs
	TrailOk   bool        `json:"trailOk"`  // all bytes after the section are 0xFF
	Bad       bool        `json:"bad"`
}

func ParsePsi(body []byte) *PsiSection {
	s := &PsiSection{Programs: [][2]int{}, Streams: []PsiStream{}, Body: []int{}}
	if len(body) < 4 {
		s.Bad = true
		return s
	}
	s.Pointer = int(body[0])
	b := body[1+s.Pointer:]
	if len(b) < 3 {
		s.Bad = true
		return s
	}
	s.TableId = int(b[0])
	s.Ssi = int(b[1] >> 7)
	s.SecLen = int(b[1]&0x0f)<<8 | int(b[2])
	if 3+s.SecLen > len(b) || s.SecLen < 9 {
		s.Bad = true
		return s
	}
	sec := b[:3+s.SecLen]
	for _, x := range sec[:len(sec)-4] {
		s.Body = append(s.Body, int(x))
	}
	c := sec[len(sec)-4:]
	s.Crc = [2]int{int(c[0])<<8 | int(c[1]), int(c[2])<<8 | int(c[3])}
	s.TrailOk = true
	for _, x := range b[3+s.SecLen:] {
		if x != 0xff {
			s.TrailOk = false
		}
	}
	s.IdExt = int(sec[3])<<8 | int(sec[4])
	s.Version = int(sec[5]>>1) & 0x1f
	s.CurNext = int(sec[5] & 1)
	s.SecNum = int(sec[6])
	s.LastSec = int(sec[7])
	d := sec[8 : len(sec)-4]
	switch s.TableId {
	case 0:
		for len(d) >= 4 {
			s.Programs = append(s.Programs, [2]int{int(d[0])<<8 | int(d[1]), int(d[2]&0x1f)<<8 | int(d[3])})
			d = d[4:]
		}
		if len(d) != 0 {
			s.Bad = true
		}
	case 2:
		if len(d) < 4 {
			s.Bad = true
			return s
		}
		s.PcrPid = int(d[0]&0x1f)<<8 | int(d[1])
		s.ProgInfo = int(d[2]&0x0f)<<8 | int(d[3])
		if 4+s.ProgInfo > len(d) {
			s.Bad = true
			return s
		}
		d = d[4+s.ProgInfo:]
		for len(d) >= 5 {
			st := PsiStream{StreamType: int(d[0]), Pid: int(d[1]&0x1f)<<8 | int(d[2]), EsInfo: []int{}}
			n := int(d[3]&0x0f)<<8 | int(d[4])
			if 5+n > len(d) {
				s.Bad = true
				return s
			}
			for _, x := range d[5 : 5+n] {
				st.EsInfo = append(st.EsInfo, int(x))
			}
			s.Streams = append(s.Streams, st)
			d = d[5+n:]
		}
		if len(d) != 0 {
			s.Bad = true
		}
	}
	return s
}

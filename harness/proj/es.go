package proj

// Elementary-stream helpers for C06 (RTMP -> TS / HLS / RTSP): an Annex-B safe position code, an
// Annex-B splitter (ISO/IEC 14496-10 annex B), an ADTS reader (ISO/IEC 14496-3 1.A.2.2) and a
// PSI-aware TS demultiplexer with PES reassembly (ISO/IEC 13818-1) built on ParseTsPacket /
// ParsePsi.  No lal imports.  Projections report what the bytes are; they do not judge.

// ES position code: byte p of unit id is one of a repeating 6-byte group
// (11iiiiii 11iiiiii 10bbbbbb 10bbbbbb 10bbbbbb 10bbbbbb) with a 12-bit id and a 24-bit block
// number b = p/6.  No byte is below 0x80, so the code contains neither start codes nor sequences
// that need emulation prevention, and the two id bytes mark the phase.
func esByte(id, p int) byte {
	blk := p / 6
	switch p % 6 {
	case 0:
		return 0xC0 | byte((id>>6)&0x3f)
	case 1:
		return 0xC0 | byte(id&0x3f)
	case 2:
		return 0x80 | byte((blk>>18)&0x3f)
	case 3:
		return 0x80 | byte((blk>>12)&0x3f)
	case 4:
		return 0x80 | byte((blk>>6)&0x3f)
	}
	return 0x80 | byte(blk&0x3f)
}

func EsFill(b []byte, id, off int) {
	for i := range b {
		b[i] = esByte(id, off+i)
	}
}

func EsPayload(id, n int) []byte {
	b := make([]byte, n)
	EsFill(b, id, 0)
	return b
}

// EsIs reports whether b equals positions off.. of the code of unit id.
func EsIs(b []byte, id, off int) bool {
	for i := range b {
		if b[i] != esByte(id, off+i) {
			return false
		}
	}
	return true
}

// EsLocate decodes (id, off) from a fragment of at least 11 bytes and verifies the whole fragment.
func EsLocate(b []byte) (id, off int, ok bool) {
	if len(b) < 11 {
		return 0, 0, false
	}
	for st := 0; st < 6; st++ {
		if b[st]&0xC0 == 0xC0 && b[st+1]&0xC0 == 0xC0 {
			id = int(b[st]&0x3f)<<6 | int(b[st+1]&0x3f)
			blk := int(b[st+2]&0x3f)<<18 | int(b[st+3]&0x3f)<<12 | int(b[st+4]&0x3f)<<6 | int(b[st+5]&0x3f)
			off = blk*6 - st
			if off >= 0 && EsIs(b, id, off) {
				return id, off, true
			}
		}
	}
	return 0, 0, false
}

// EsSplitAnnexB cuts a byte stream at start codes (00 00 01 with any number of leading zero bytes).
// junk = number of bytes before the first start code that are not zero bytes of that start code.
// Trailing zero bytes of a unit belong to the next start code / trailing_zero_8bits.
func EsSplitAnnexB(b []byte) (units [][]byte, junk int) {
	n := len(b)
	var starts, ends []int // ends[i] = index where start code i begins (incl. leading zeros)
	for i := 0; i+2 < n; {
		if b[i] == 0 && b[i+1] == 0 && b[i+2] == 1 {
			z := i
			for z > 0 && b[z-1] == 0 && (len(starts) == 0 || z > starts[len(starts)-1]) {
				z--
			}
			ends = append(ends, z)
			starts = append(starts, i+3)
			i += 3
		} else {
			i++
		}
	}
	if len(starts) == 0 {
		return nil, n
	}
	junk = ends[0]
	for k, s := range starts {
		e := n
		if k+1 < len(ends) {
			e = ends[k+1]
		} else {
			for e > s && b[e-1] == 0 {
				e--
			}
		}
		units = append(units, b[s:e])
	}
	return units, junk
}

// EsAdtsFrame is one ADTS frame as found in the bytes.
type EsAdtsFrame struct {
	Sync    bool   `json:"sync"`
	MpegId  int    `json:"mpegId"`
	Layer   int    `json:"layer"`
	ProtAbs int    `json:"protAbs"`
	Profile int    `json:"profile"`
	Sfi     int    `json:"sfi"`
	Priv    int    `json:"priv"`
	Ch      int    `json:"ch"`
	Flen    int    `json:"flen"`
	Full    int    `json:"full"`
	Blocks  int    `json:"blocks"`
	Hdr     int    `json:"hdr"` // header bytes (7, or 9 with CRC)
	Data    []byte `json:"-"`
}

// EsReadAdts walks ADTS frames by their length fields; rest = bytes that do not form a frame.
func EsReadAdts(b []byte) (frames []EsAdtsFrame, rest int) {
	for len(b) >= 7 {
		f := EsAdtsFrame{}
		f.Sync = b[0] == 0xff && b[1]&0xf0 == 0xf0
		f.MpegId = int(b[1]>>3) & 1
		f.Layer = int(b[1]>>1) & 3
		f.ProtAbs = int(b[1] & 1)
		f.Profile = int(b[2] >> 6)
		f.Sfi = int(b[2]>>2) & 0xf
		f.Priv = int(b[2]>>1) & 1
		f.Ch = int(b[2]&1)<<2 | int(b[3]>>6)
		f.Flen = int(b[3]&3)<<11 | int(b[4])<<3 | int(b[5]>>5)
		f.Full = int(b[5]&0x1f)<<6 | int(b[6]>>2)
		f.Blocks = int(b[6] & 3)
		f.Hdr = 7
		if f.ProtAbs == 0 {
			f.Hdr = 9
		}
		if !f.Sync || f.Flen < f.Hdr || f.Flen > len(b) {
			break
		}
		f.Data = b[f.Hdr:f.Flen]
		frames = append(frames, f)
		b = b[f.Flen:]
	}
	return frames, len(b)
}

// EsFrame is one reassembled PES packet of an elementary stream declared in the PMT.
type EsFrame struct {
	Pid    int
	St     int // stream_type from the PMT
	Sid    int
	Pts    T3
	Dts    T3
	Flags  int // PTS_DTS_flags
	Rai    int
	PesLen int  // PES_packet_length field
	LenOk  bool // bounded PES: field equals the bytes found; unbounded (0): video only
	CcOk   bool // continuity counter advanced by one on every packet of the PES
	HdrOk  bool // start code, marker bits, '10' prefix
	Data   []byte
	Npkts  int
}

type esPid struct {
	st      int
	cur     *EsFrame
	lastCc  int
	flushed bool
}

// TsDemux is a PSI-aware demultiplexer: nothing is known about a PID until PAT and PMT say so.
type TsDemux struct {
	pmtPid  int
	pids    map[int]*esPid
	Pat     int      // PAT sections seen
	Pmt     int      // PMT sections seen
	Streams [][2]int // (stream_type, pid) of the last PMT
	Bad     []string // structural problems (projection facts, judged by the spec: must be empty)
	Out     []*EsFrame
}

func NewTsDemux() *TsDemux {
	return &TsDemux{pmtPid: -1, pids: map[int]*esPid{}, Streams: [][2]int{}, Bad: []string{}}
}

func (d *TsDemux) bad(s string) {
	if len(d.Bad) < 8 {
		d.Bad = append(d.Bad, s)
	}
}

func (d *TsDemux) finish(p *esPid) {
	f := p.cur
	if f == nil {
		return
	}
	p.cur = nil
	if f.PesLen != 0 {
		// PES_packet_length counts the bytes after the field: 3 + header data + payload
		f.LenOk = f.PesLen == 3+f.hdrData()+len(f.Data)
	} else {
		f.LenOk = f.Sid >= 0xe0 && f.Sid <= 0xef
	}
	d.Out = append(d.Out, f)
}

func (f *EsFrame) hdrData() int {
	switch f.Flags {
	case 2:
		return 5
	case 3:
		return 10
	}
	return 0
}

// Feed consumes a whole number of 188-byte packets.
func (d *TsDemux) Feed(b []byte) {
	if len(b)%188 != 0 {
		d.bad("not_multiple_of_188")
	}
	for q := 0; q+188 <= len(b); q += 188 {
		pk := b[q : q+188]
		pid := int(pk[1]&0x1f)<<8 | int(pk[2])
		es := d.pids[pid]
		p := ParseTsPacket(pk, es != nil)
		if !p.Sync || p.Bad || p.Tei != 0 {
			d.bad("bad_packet")
			continue
		}
		switch {
		case pid == 0:
			if p.Body != nil && p.Pusi == 1 {
				s := ParsePsi(p.Body)
				if !s.Bad && s.TableId == 0 && len(s.Programs) == 1 {
					d.pmtPid = s.Programs[0][1]
					d.Pat++
				} else {
					d.bad("bad_pat")
				}
			}
		case pid == d.pmtPid:
			if p.Body != nil && p.Pusi == 1 {
				s := ParsePsi(p.Body)
				if !s.Bad && s.TableId == 2 {
					d.Pmt++
					d.Streams = [][2]int{}
					for _, x := range s.Streams {
						d.Streams = append(d.Streams, [2]int{x.StreamType, x.Pid})
						if d.pids[x.Pid] == nil {
							d.pids[x.Pid] = &esPid{st: x.StreamType, lastCc: -1}
						} else {
							d.pids[x.Pid].st = x.StreamType
						}
					}
				} else {
					d.bad("bad_pmt")
				}
			}
		case es != nil:
			if p.Afc&1 == 0 {
				continue
			}
			ccOk := es.lastCc < 0 || p.Cc == (es.lastCc+1)%16
			es.lastCc = p.Cc
			if p.Pusi == 1 {
				d.finish(es)
				es.flushed = false
				h := p.Pes
				es.cur = &EsFrame{Pid: pid, St: es.st, Sid: h.Sid, Pts: h.Pts, Dts: h.Dts, Flags: h.Flags, Rai: p.Rai,
					PesLen: h.PesLen, CcOk: true, HdrOk: h.StartCode && h.MarkersOk && h.Marker&0xc0 == 0x80 &&
						h.PtsPrefix == h.Flags && (h.Flags != 3 || h.DtsPrefix == 1) && h.HdrLen == map[int]int{0: 0, 2: 5, 3: 10}[h.Flags]}
			} else if es.cur == nil {
				if es.flushed {
					d.bad("continuation_after_quiescence")
				}
				// otherwise: the tail of a PES that began before this consumer joined: a demuxer skips it
				continue
			}
			es.cur.CcOk = es.cur.CcOk && ccOk
			es.cur.Data = append(es.cur.Data, p.Payload...)
			es.cur.Npkts++
		default:
			if pid != 0x1fff && d.Pmt > 0 {
				d.bad("undeclared_pid")
			} else if d.Pmt == 0 {
				d.bad("es_before_pmt")
			}
		}
	}
}

// Flush completes the PES packets under way: called at quiescent points (everything lal wrote for
// a message is in).  A later continuation packet on such a PID is reported in Bad.
func (d *TsDemux) Flush() {
	for _, pid := range []int{256, 257} {
		if p := d.pids[pid]; p != nil && p.cur != nil {
			d.finish(p)
			p.flushed = true
		}
	}
	for pid, p := range d.pids {
		if pid != 256 && pid != 257 && p.cur != nil {
			d.finish(p)
			p.flushed = true
		}
	}
}

// NewEpoch is called for a consumer that stays attached while the source of the stream is replaced: what the
// consumer learnt from PAT / PMT stays (that is what a player still holds), the continuity counters of the new
// source start wherever they like.
func (d *TsDemux) NewEpoch() {
	for _, p := range d.pids {
		p.lastCc = -1
		p.flushed = false
		p.cur = nil
	}
}

// Take returns and clears the frames completed so far.
func (d *TsDemux) Take() []*EsFrame {
	o := d.Out
	d.Out = nil
	return o
}

package proj

// Second part of the C13 concretisation (no lal imports): HTTP requests to lal's HTTP-API, HTTP-FLV /
// HTTP-TS / HLS handlers, and what an upstream RTMP / RTSP / HTTP-FLV server sends back while lal is
// the client.

import (
	"encoding/binary"
	"fmt"
	"math"
	"strings"
)

// ---------------------------------------------------------------- HTTP requests

// SfHttpPath renders the request path of class cls for a stream and an extension (".flv", ".ts", ".m3u8").
func SfHttpPath(prefix, cls, stream, ext string) string {
	switch cls {
	case "ok":
		return prefix + stream + ext
	case "noext":
		return prefix + stream
	case "onlyext":
		return prefix + ext
	case "emptyname":
		return prefix + "/" + ext
	case "root":
		return "/"
	case "prefixonly":
		return prefix
	case "deep":
		return prefix + "a/b/c/d/" + stream + ext
	case "noapp":
		return "/" + stream + ext
	case "esc":
		return prefix + "%2e%2e%2f%2e%2e%2f" + stream + ext
	case "badesc":
		return prefix + "%zz" + stream + ext
	case "pctend":
		return prefix + stream + ext + "%"
	case "long":
		return prefix + strings.Repeat("n", 6000) + ext
	case "dotdot":
		return prefix + "../../" + stream + ext
	case "dotdot2":
		return prefix + stream + "/../.." + ext
	case "space":
		return prefix + "a b" + ext
	case "utf":
		return prefix + "\xe4\xb8\xad\xff" + ext
	case "dblslash":
		return prefix + "/" + stream + ext
	case "twoext":
		return prefix + stream + ".flv.ts.m3u8" + ext
	case "upper":
		return prefix + stream + strings.ToUpper(ext)
	case "hash":
		return prefix + stream + ext + "#frag"
	case "semicolon":
		return prefix + stream + ";a=b" + ext
	case "tsname": // an HLS fragment name shape
		return prefix + stream + "-1700000000000-1" + ext
	case "tsname_bad":
		return prefix + "-" + ext
	case "star":
		return "*"
	case "abs":
		return "http://h:80" + prefix + stream + ext
	case "noslash":
		return stream + ext
	}
	return prefix + stream + ext
}

func SfHttpQuery(cls string) string {
	switch cls {
	case "none":
		return ""
	case "empty":
		return "?"
	case "novalue":
		return "?a"
	case "noname":
		return "?=v"
	case "ok":
		return "?a=b&c=d"
	case "dup":
		return "?a=1&a=2&session_id=x&session_id=y"
	case "esc":
		return "?a=%2e%2e%2f&b=%00"
	case "badesc":
		return "?a=%zz&%"
	case "long":
		return "?a=" + strings.Repeat("v", 6000)
	case "session": // HLS session id nobody issued
		return "?session_id=0123456789abcdef"
	case "session_empty":
		return "?session_id="
	case "amp":
		return "?&&&=&"
	case "qq":
		return "??a=b?c"
	case "semi":
		return "?a=b;c=d"
	}
	return ""
}

// SfHttpHeaders renders the header block (without the request line) of class cls.
func SfHttpHeaders(cls string) (version string, lines []string) {
	version = "HTTP/1.1"
	host := "Host: 127.0.0.1"
	switch cls {
	case "plain":
		lines = []string{host, "User-Agent: lalverif", "Accept: */*"}
	case "ws_ok":
		lines = []string{host, "Connection: Upgrade", "Upgrade: websocket", "Sec-WebSocket-Version: 13", "Sec-WebSocket-Key: dGhlIHNhbXBsZSBub25jZQ=="}
	case "ws_nokey":
		lines = []string{host, "Connection: Upgrade", "Upgrade: websocket"}
	case "ws_emptykey":
		lines = []string{host, "Connection: Upgrade", "Upgrade: websocket", "Sec-WebSocket-Key: "}
	case "ws_badkey":
		lines = []string{host, "Connection: Upgrade", "Upgrade: websocket", "Sec-WebSocket-Key: !!!not base64!!! \x01"}
	case "ws_longkey":
		lines = []string{host, "Connection: Upgrade", "Upgrade: websocket", "Sec-WebSocket-Key: " + strings.Repeat("A", 5000)}
	case "ws_twokeys":
		lines = []string{host, "Connection: keep-alive, Upgrade", "Upgrade: websocket", "Sec-WebSocket-Key: a", "Sec-WebSocket-Key: b"}
	case "ws_upgrade_only":
		lines = []string{host, "Upgrade: websocket", "Sec-WebSocket-Key: dGhlIHNhbXBsZSBub25jZQ=="}
	case "ws_conn_only":
		lines = []string{host, "Connection: Upgrade", "Sec-WebSocket-Key: dGhlIHNhbXBsZSBub25jZQ=="}
	case "ws_case":
		lines = []string{host, "Connection: upgrade", "Upgrade: WebSocket", "Sec-WebSocket-Key: dGhlIHNhbXBsZSBub25jZQ=="}
	case "nohost":
		lines = []string{"User-Agent: lalverif"}
	case "emptyhost":
		lines = []string{"Host: "}
	case "badhost":
		lines = []string{"Host: [::1"}
	case "hostport":
		lines = []string{"Host: 127.0.0.1:99999"}
	case "http10":
		version = "HTTP/1.0"
		lines = []string{"User-Agent: lalverif"}
	case "range":
		lines = []string{host, "Range: bytes=-1-", "If-Modified-Since: x", "Origin: null"}
	case "many":
		lines = []string{host}
		for i := 0; i < 300; i++ {
			lines = append(lines, fmt.Sprintf("X-H%d: %s", i, strings.Repeat("v", 100)))
		}
	}
	return
}

// SfHttpRequest assembles a request.
func SfHttpRequest(method, target, version string, headers []string, body []byte, withCL bool) []byte {
	s := method + " " + target + " " + version + "\r\n"
	for _, h := range headers {
		s += h + "\r\n"
	}
	if withCL {
		s += fmt.Sprintf("Content-Type: application/json\r\nContent-Length: %d\r\n", len(body))
	}
	s += "\r\n"
	return append([]byte(s), body...)
}

var sfApiPaths = map[string]string{
	"stat_group": "/api/stat/group", "stat_all_group": "/api/stat/all_group", "stat_lal_info": "/api/stat/lal_info",
	"start_relay_pull": "/api/ctrl/start_relay_pull", "stop_relay_pull": "/api/ctrl/stop_relay_pull",
	"kick_session": "/api/ctrl/kick_session", "start_rtp_pub": "/api/ctrl/start_rtp_pub",
	"add_ip_blacklist": "/api/ctrl/add_ip_blacklist", "lal_html": "/lal.html", "unknown": "/api/ctrl/nope",
	"root": "/", "api_dir": "/api/", "case": "/API/STAT/LAL_INFO", "dots": "/api/stat/../ctrl/kick_session",
}

func SfApiPath(ep string) string { return sfApiPaths[ep] }

// SfApiBody renders the JSON body of class cls for endpoint ep.  has = the request carries a body.
func SfApiBody(ep, cls, stream string) (body []byte, has bool) {
	q := func(s string) string { return "\"" + s + "\"" }
	// the well-formed field list of each control endpoint
	var okFields []string
	switch ep {
	case "start_relay_pull":
		okFields = []string{`"url": "rtmp://127.0.0.1:1/live/` + stream + `"`, `"stream_name": ` + q(stream+"r"), `"pull_timeout_ms": 200`, `"pull_retry_num": 0`,
			`"auto_stop_pull_after_no_out_ms": -1`, `"rtsp_mode": 0`}
	case "kick_session":
		okFields = []string{`"stream_name": ` + q(stream), `"session_id": "FLVSUB999"`}
	case "start_rtp_pub":
		okFields = []string{`"stream_name": ` + q(stream+"g"), `"port": 0`, `"timeout_ms": 1000`, `"is_tcp_flag": 0`}
	case "add_ip_blacklist":
		okFields = []string{`"ip": "10.9.9.9"`, `"duration_sec": 1`}
	default:
		okFields = []string{`"stream_name": ` + q(stream)}
	}
	obj := func(fs []string) []byte { return []byte("{" + strings.Join(fs, ", ") + "}") }
	retype := func(f string, to string) string {
		k := strings.SplitN(f, ":", 2)[0]
		return k + ": " + to
	}
	all := func(to string) []byte {
		var fs []string
		for _, f := range okFields {
			fs = append(fs, retype(f, to))
		}
		return obj(fs)
	}
	switch cls {
	case "none":
		return nil, false
	case "empty":
		return []byte{}, true
	case "ok":
		return obj(okFields), true
	case "notjson":
		return []byte("hello=world&x=1"), true
	case "trunc":
		b := obj(okFields)
		return b[:len(b)/2], true
	case "array":
		return []byte("[1, 2, 3]"), true
	case "null":
		return []byte("null"), true
	case "string":
		return []byte(`"stream_name"`), true
	case "number":
		return []byte("1"), true
	case "missing":
		return []byte("{}"), true
	case "firstonly":
		return obj(okFields[:1]), true
	case "wrongtype_num": // every field a number
		return all("12345"), true
	case "wrongtype_str":
		return all(`"abc"`), true
	case "wrongtype_obj":
		return all(`{"a": [1, {"b": null}]}`), true
	case "wrongtype_arr":
		return all(`[]`), true
	case "wrongtype_bool":
		return all(`true`), true
	case "nullfields":
		return all(`null`), true
	case "huge": // numbers beyond every integer type
		return all(`99999999999999999999999999`), true
	case "exp":
		return all(`1e400`), true
	case "neg":
		return all(`-2147483649`), true
	case "float":
		return all(`1.5`), true
	case "max64":
		return all(`9223372036854775807`), true
	case "emptystr":
		return all(`""`), true
	case "longstr":
		return all(q(strings.Repeat("s", 100000))), true
	case "unknown": // unknown fields around the good ones
		return obj(append([]string{`"zzz": {"deep": [1, 2, {"x": "y"}]}`}, append(okFields, `"": 0`, `"stream_name ": 1`)...)), true
	case "nested": // 20000-fold nested array behind the first key
		k := strings.SplitN(okFields[0], ":", 2)[0]
		return []byte("{" + k + ": " + strings.Repeat("[", 20000) + strings.Repeat("]", 20000) + "}"), true
	case "nested_open":
		return []byte(strings.Repeat(`{"a":`, 20000)), true
	case "dup":
		return obj(append(append([]string{}, okFields...), okFields...)), true
	case "dup_types":
		var fs []string
		for _, f := range okFields {
			fs = append(fs, f, retype(f, "[]"))
		}
		return obj(fs), true
	case "big": // 2 MiB of padding in an unknown field
		return obj(append([]string{`"pad": ` + q(strings.Repeat("p", 2<<20))}, okFields...)), true
	case "utf":
		return all("\"\xff\xfe\\u0000\\ud800\""), true
	case "bom":
		return append([]byte{0xef, 0xbb, 0xbf}, obj(okFields)...), true
	case "trailing":
		return append(obj(okFields), []byte(" garbage")...), true
	case "caps":
		return []byte(strings.ToUpper(string(obj(okFields)))), true
	// start_relay_pull url classes
	case "url_empty", "url_garbage", "url_noscheme", "url_nopath", "url_onlyapp", "url_badport", "url_rtsp", "url_rtsp_user", "url_flv", "url_unknown", "url_space", "url_long", "url_ipv6",
		"url_q1", "url_q2", "url_q2app", "url_q2root", "url_q3", "url_frag", "url_qonly":
		u := map[string]string{"url_empty": "", "url_garbage": "::::%%%", "url_noscheme": "127.0.0.1/live/x", "url_nopath": "rtmp://127.0.0.1:1",
			"url_onlyapp": "rtmp://127.0.0.1:1/live", "url_badport": "rtmp://127.0.0.1:99999999/live/x", "url_rtsp": "rtsp://127.0.0.1:1/live/x",
			"url_rtsp_user": "rtsp://u:p@127.0.0.1:1/", "url_flv": "http://127.0.0.1:1/live/x.flv", "url_unknown": "gopher://127.0.0.1:1/live/x",
			"url_space": "rtmp://127.0.0.1:1/li ve/x y", "url_long": "rtmp://127.0.0.1:1/live/" + strings.Repeat("x", 50000), "url_ipv6": "rtmp://[::1/live/x",
			// question marks: one query, the "vhost" form with two, two without a stream segment, at the root, three, fragment, bare
			"url_q1": "rtmp://127.0.0.1:1/live/x?a=1&b=2", "url_q2": "rtmp://127.0.0.1:1/live?vhost=v?token=t/x", "url_q2app": "rtmp://127.0.0.1:1/live?x?y",
			"url_q2root": "rtmp://127.0.0.1:1/?x?y", "url_q3": "rtmp://127.0.0.1:1/live/x?a?b?c", "url_frag": "rtmp://127.0.0.1:1/live/x#f?a?b", "url_qonly": "rtmp://127.0.0.1:1?a?b"}[cls]
		return []byte(`{"url": ` + q(u) + `, "stream_name": ` + q(stream+cls) + `, "pull_timeout_ms": 200, "pull_retry_num": 0}`), true
	case "rtp_to_1", "rtp_to_500", "rtp_to_999", "rtp_to_1001", "rtp_to_neg", "rtp_to_max": // the liveness timeout of the GB28181 input
		to := map[string]string{"rtp_to_1": "1", "rtp_to_500": "500", "rtp_to_999": "999", "rtp_to_1001": "1001", "rtp_to_neg": "-1000",
			"rtp_to_max": "2147483647"}[cls]
		return []byte(`{"stream_name": ` + q(stream+cls) + `, "port": 0, "timeout_ms": ` + to + `}`), true
	case "rtp_port_neg":
		return []byte(`{"stream_name": ` + q(stream+"n") + `, "port": -1, "timeout_ms": 1000}`), true
	case "rtp_port_big":
		return []byte(`{"stream_name": ` + q(stream+"b") + `, "port": 65536, "timeout_ms": 1000}`), true
	case "rtp_port_1":
		return []byte(`{"stream_name": ` + q(stream+"o") + `, "port": 1, "timeout_ms": 1000}`), true
	case "rtp_tcp":
		return []byte(`{"stream_name": ` + q(stream+"t") + `, "port": 0, "timeout_ms": 1000, "is_tcp_flag": 1}`), true
	case "rtp_dump":
		return []byte(`{"stream_name": ` + q(stream+"d") + `, "port": 0, "timeout_ms": -5, "debug_dump_packet": "/nonexistent-dir/x/y.dump"}`), true
	case "rtp_empty_name":
		return []byte(`{"stream_name": "", "port": 0}`), true
	case "bl_badip":
		return []byte(`{"ip": "999.1.1.1.1", "duration_sec": 1}`), true
	case "bl_neg":
		return []byte(`{"ip": "10.9.9.8", "duration_sec": -1}`), true
	case "bl_max":
		return []byte(`{"ip": "10.9.9.7", "duration_sec": 9223372036854775807}`), true
	case "kick_empty":
		return []byte(`{"stream_name": "", "session_id": ""}`), true
	case "kick_nostream":
		return []byte(`{"stream_name": "nobody-` + stream + `", "session_id": "RTMPPUBSUB1"}`), true
	}
	return nil, false
}

// ---------------------------------------------------------------- RTMP upstream elements

func sfAmfNum(f float64) []byte {
	b := make([]byte, 9)
	binary.BigEndian.PutUint64(b[1:], math.Float64bits(f))
	return b
}
func sfAmfStr(s string) []byte { return append([]byte{2, byte(len(s) >> 8), byte(len(s))}, s...) }
func sfAmfKey(s string) []byte { return append([]byte{byte(len(s) >> 8), byte(len(s))}, s...) }
func sfAmfObj(kv ...interface{}) []byte {
	b := []byte{3}
	for i := 0; i+1 < len(kv); i += 2 {
		b = append(b, sfAmfKey(kv[i].(string))...)
		switch v := kv[i+1].(type) {
		case string:
			b = append(b, sfAmfStr(v)...)
		case float64:
			b = append(b, sfAmfNum(v)...)
		case []byte:
			b = append(b, v...)
		}
	}
	return append(b, 0, 0, 9)
}

// SfRtmpChunks serialises one message as a type-0 chunk followed by type-3 chunks of chunkSize.
func SfRtmpChunks(csid int, typ int, msid int, ts uint32, payload []byte, declared int, chunkSize int) []byte {
	n := len(payload)
	if declared >= 0 {
		n = declared
	}
	t := ts
	if t > 0xffffff {
		t = 0xffffff
	}
	b := []byte{byte(csid & 0x3f), byte(t >> 16), byte(t >> 8), byte(t), byte(n >> 16), byte(n >> 8), byte(n), byte(typ),
		byte(msid), byte(msid >> 8), byte(msid >> 16), byte(msid >> 24)}
	if ts >= 0xffffff {
		b = append(b, byte(ts>>24), byte(ts>>16), byte(ts>>8), byte(ts))
	}
	for first := true; first || len(payload) > 0; first = false {
		k := len(payload)
		if k > chunkSize {
			k = chunkSize
		}
		if !first {
			b = append(b, 0xc0|byte(csid&0x3f))
		}
		b = append(b, payload[:k]...)
		payload = payload[k:]
		if k == 0 {
			break
		}
	}
	return b
}

func be32b(v uint32) []byte { return []byte{byte(v >> 24), byte(v >> 16), byte(v >> 8), byte(v)} }

// SfRtmpElem returns the bytes an upstream RTMP server sends for element class a (handshake parts and
// messages), and the chunk size in force afterwards (0 = unchanged).
func SfRtmpElem(a string, chunkSize int) (out []byte, newChunk int) {
	msg := func(csid, typ, msid int, p []byte) []byte { return SfRtmpChunks(csid, typ, msid, 0, p, -1, chunkSize) }
	cmd := func(parts ...[]byte) []byte {
		var p []byte
		for _, x := range parts {
			p = append(p, x...)
		}
		return msg(3, 20, 0, p)
	}
	status := func(code string) []byte {
		return sfAmfObj("level", "status", "code", code, "description", "d")
	}
	null := []byte{5}
	switch a {
	// ---- handshake
	case "hs_ok":
		b := make([]byte, 3073)
		b[0] = 3
		for i := 9; i < 3073; i++ {
			b[i] = byte(i * 31)
		}
		return b, 0
	case "hs_v0":
		b := make([]byte, 3073)
		return b, 0
	case "hs_v6":
		b := make([]byte, 3073)
		b[0] = 6
		return b, 0
	case "hs_ff":
		b := make([]byte, 3073)
		for i := range b {
			b[i] = 0xff
		}
		return b, 0
	case "hs_short":
		return make([]byte, 100), 0
	case "hs_s0s1": // S0 + S1 and never S2
		b := make([]byte, 1537)
		b[0] = 3
		return b, 0
	case "hs_text":
		return []byte("HTTP/1.1 400 Bad Request\r\n\r\n"), 0
	// ---- protocol control
	case "winack_ok":
		return msg(2, 5, 0, be32b(2500000)), 0
	case "winack_small": // window of 1 byte: an acknowledgement after every message
		return msg(2, 5, 0, be32b(1)), 0
	case "winack_neg":
		return msg(2, 5, 0, be32b(0x80000000)), 0
	case "winack_short":
		return msg(2, 5, 0, []byte{0, 0, 1}), 0
	case "winack_empty":
		return msg(2, 5, 0, nil), 0
	case "bw_ok":
		return msg(2, 6, 0, append(be32b(2500000), 2)), 0
	case "bw_short":
		return msg(2, 6, 0, []byte{0}), 0
	case "cs_ok":
		return msg(2, 1, 0, be32b(4096)), 4096
	case "cs_0":
		return msg(2, 1, 0, be32b(0)), 0
	case "cs_1":
		return msg(2, 1, 0, be32b(1)), 1
	case "cs_huge":
		return msg(2, 1, 0, be32b(0x7fffffff)), 0
	case "cs_neg":
		return msg(2, 1, 0, be32b(0x80000000)), 0
	case "cs_short":
		return msg(2, 1, 0, []byte{0, 0}), 0
	case "cs_empty":
		return msg(2, 1, 0, nil), 0
	case "abort":
		return msg(2, 2, 0, be32b(3)), 0
	case "abort_short":
		return msg(2, 2, 0, []byte{0}), 0
	case "ack_ok":
		return msg(2, 3, 0, be32b(1000)), 0
	case "ack_3":
		return msg(2, 3, 0, []byte{0, 0, 1}), 0
	case "ack_1":
		return msg(2, 3, 0, []byte{0}), 0
	case "ack_0":
		return msg(2, 3, 0, nil), 0
	case "uc_begin":
		return msg(2, 4, 0, []byte{0, 0, 0, 0, 0, 1}), 0
	case "uc_ping":
		return msg(2, 4, 0, []byte{0, 6, 0, 0, 0, 9}), 0
	case "uc_ping_5":
		return msg(2, 4, 0, []byte{0, 6, 0, 0, 0}), 0
	case "uc_ping_2":
		return msg(2, 4, 0, []byte{0, 6}), 0
	case "uc_1":
		return msg(2, 4, 0, []byte{0}), 0
	case "uc_0":
		return msg(2, 4, 0, nil), 0
	case "uc_unknown":
		return msg(2, 4, 0, []byte{0, 99, 1, 2}), 0
	// ---- message types lal's client does not name
	case "type0":
		return msg(3, 0, 0, []byte{1, 2, 3}), 0
	case "type7":
		return msg(3, 7, 0, []byte{1, 2, 3}), 0
	case "type15": // AMF3 data
		return msg(3, 15, 0, []byte{0, 2, 0, 1, 'x'}), 0
	case "type16": // AMF3 shared object
		return msg(3, 16, 0, []byte{0}), 0
	case "type17": // AMF3 command
		return msg(3, 17, 0, append([]byte{0}, sfAmfStr("onBWDone")...)), 0
	case "type19":
		return msg(3, 19, 0, []byte{0}), 0
	case "type22": // aggregate
		return msg(3, 22, 1, []byte{9, 0, 0, 1, 0, 0, 0, 0, 0, 0, 0, 0x17, 0, 0, 0, 12}), 0
	case "type22_short":
		return msg(3, 22, 1, []byte{9, 0, 0}), 0
	case "type127":
		return msg(3, 127, 0, nil), 0
	// ---- commands
	case "connect_ok":
		return cmd(sfAmfStr("_result"), sfAmfNum(1), sfAmfObj("fmsVer", "FMS/3,0,1,123", "capabilities", float64(31)),
			sfAmfObj("level", "status", "code", "NetConnection.Connect.Success", "description", "ok", "objectEncoding", float64(0))), 0
	case "connect_rejected":
		return cmd(sfAmfStr("_result"), sfAmfNum(1), sfAmfObj("fmsVer", "x"), sfAmfObj("level", "error", "code", "NetConnection.Connect.Rejected")), 0
	case "connect_nocode":
		return cmd(sfAmfStr("_result"), sfAmfNum(1), sfAmfObj("fmsVer", "x"), sfAmfObj("level", "status")), 0
	case "connect_codenum":
		return cmd(sfAmfStr("_result"), sfAmfNum(1), sfAmfObj("fmsVer", "x"), sfAmfObj("code", float64(200))), 0
	case "connect_oneobj":
		return cmd(sfAmfStr("_result"), sfAmfNum(1), sfAmfObj("fmsVer", "x")), 0
	case "connect_nulls":
		return cmd(sfAmfStr("_result"), sfAmfNum(1), null, null), 0
	case "connect_noobj":
		return cmd(sfAmfStr("_result"), sfAmfNum(1)), 0
	case "connect_ecma": // info as ECMA array
		return cmd(sfAmfStr("_result"), sfAmfNum(1), sfAmfObj("fmsVer", "x"),
			append(append([]byte{8, 0, 0, 0, 1}, sfAmfKey("code")...), append(sfAmfStr("NetConnection.Connect.Success"), 0, 0, 9)...)), 0
	case "create_ok":
		return cmd(sfAmfStr("_result"), sfAmfNum(2), null, sfAmfNum(1)), 0
	case "create_nonum":
		return cmd(sfAmfStr("_result"), sfAmfNum(2), null), 0
	case "create_nonull":
		return cmd(sfAmfStr("_result"), sfAmfNum(2), sfAmfNum(1)), 0
	case "create_strid":
		return cmd(sfAmfStr("_result"), sfAmfNum(2), null, sfAmfStr("1")), 0
	case "create_bigid":
		return cmd(sfAmfStr("_result"), sfAmfNum(2), null, sfAmfNum(1e300)), 0
	case "create_nan":
		return cmd(sfAmfStr("_result"), sfAmfNum(2), null, sfAmfNum(math.NaN())), 0
	case "create_neg":
		return cmd(sfAmfStr("_result"), sfAmfNum(2), null, sfAmfNum(-1)), 0
	case "result_tid0":
		return cmd(sfAmfStr("_result"), sfAmfNum(0), null, null), 0
	case "result_tid99":
		return cmd(sfAmfStr("_result"), sfAmfNum(99), null, sfAmfNum(1)), 0
	case "result_tidnan":
		return cmd(sfAmfStr("_result"), sfAmfNum(math.NaN()), null, sfAmfNum(1)), 0
	case "result_tidstr":
		return cmd(sfAmfStr("_result"), sfAmfStr("1"), null), 0
	case "result_only":
		return cmd(sfAmfStr("_result")), 0
	case "play_ok":
		return msg(5, 20, 1, append(append(append(sfAmfStr("onStatus"), sfAmfNum(0)...), null...), status("NetStream.Play.Start")...)), 0
	case "publish_ok":
		return msg(5, 20, 1, append(append(append(sfAmfStr("onStatus"), sfAmfNum(0)...), null...), status("NetStream.Publish.Start")...)), 0
	case "status_other":
		return msg(5, 20, 1, append(append(append(sfAmfStr("onStatus"), sfAmfNum(0)...), null...), status("NetStream.Play.StreamNotFound")...)), 0
	case "status_nocode":
		return msg(5, 20, 1, append(append(append(sfAmfStr("onStatus"), sfAmfNum(0)...), null...), sfAmfObj("level", "status")...)), 0
	case "status_codenum":
		return msg(5, 20, 1, append(append(append(sfAmfStr("onStatus"), sfAmfNum(0)...), null...), sfAmfObj("code", float64(1))...)), 0
	case "status_nonull":
		return msg(5, 20, 1, append(append(sfAmfStr("onStatus"), sfAmfNum(0)...), status("NetStream.Play.Start")...)), 0
	case "status_noobj":
		return msg(5, 20, 1, append(append(sfAmfStr("onStatus"), sfAmfNum(0)...), null...)), 0
	case "status_only":
		return msg(5, 20, 1, sfAmfStr("onStatus")), 0
	case "error_ok":
		return cmd(sfAmfStr("_error"), sfAmfNum(1), null, sfAmfObj("level", "error", "code", "NetConnection.Connect.Rejected", "description", "nope")), 0
	case "error_nodesc":
		return cmd(sfAmfStr("_error"), sfAmfNum(1), null, sfAmfObj("level", "error")), 0
	case "error_descnum":
		return cmd(sfAmfStr("_error"), sfAmfNum(1), null, sfAmfObj("description", float64(5))), 0
	case "error_noobj":
		return cmd(sfAmfStr("_error"), sfAmfNum(1), null), 0
	case "error_needauth": // adobe authentication, step 1
		return cmd(sfAmfStr("_error"), sfAmfNum(1), null, sfAmfObj("description", "[ AccessManager.Reject ] : [ code=403 need auth; authmod=adobe ] : ")), 0
	case "error_reason3": // adobe authentication, step 2, three ':'-separated parts
		return cmd(sfAmfStr("_error"), sfAmfNum(1), null, sfAmfObj("description", "[ AccessManager.Reject ] : [ authmod=adobe ] : ?reason=needauth&user=u&salt=s&challenge=c&opaque=o")), 0
	case "error_reason2": // the same with two parts
		return cmd(sfAmfStr("_error"), sfAmfNum(1), null, sfAmfObj("description", "[ authmod=adobe ] : ?reason=needauth")), 0
	case "error_reason_empty":
		return cmd(sfAmfStr("_error"), sfAmfNum(1), null, sfAmfObj("description", "a:b:?reason=needauth&=&&salt&challenge=")), 0
	case "cmd_unknown":
		return cmd(sfAmfStr("onFCSubscribe"), sfAmfNum(0), null), 0
	case "cmd_bwdone":
		return cmd(sfAmfStr("onBWDone"), sfAmfNum(0), null), 0
	case "cmd_empty":
		return msg(3, 20, 0, nil), 0
	case "cmd_num":
		return cmd(sfAmfNum(1)), 0
	case "cmd_strcut": // string marker and a length beyond the message
		return msg(3, 20, 0, []byte{2, 0xff, 0xff, 'a'}), 0
	case "cmd_notid":
		return cmd(sfAmfStr("onStatus")), 0
	case "cmd_objcut":
		return cmd(sfAmfStr("_result"), sfAmfNum(1), []byte{3, 0, 4, 'c', 'o'}), 0
	case "cmd_deep":
		p := append(sfAmfStr("_result"), sfAmfNum(1)...)
		for i := 0; i < 3000; i++ {
			p = append(p, 3, 0, 1, 'k')
		}
		return SfRtmpChunks(3, 20, 0, 0, p, -1, chunkSize), 0
	// ---- data / media
	case "meta_ok":
		return msg(4, 18, 1, append(sfAmfStr("onMetaData"), sfAmfObj("width", float64(640), "height", float64(360))...)), 0
	case "meta_sample":
		return msg(4, 18, 1, append(sfAmfStr("|RtmpSampleAccess"), 1, 1, 1, 1)), 0
	case "meta_empty":
		return msg(4, 18, 1, nil), 0
	case "meta_num":
		return msg(4, 18, 1, sfAmfNum(1)), 0
	case "meta_strcut":
		return msg(4, 18, 1, []byte{2, 0, 10, 'o', 'n'}), 0
	case "video_ok":
		return msg(6, 9, 1, append([]byte{0x17, 1, 0, 0, 0, 0, 0, 0, 5}, SfNal("avc", "idr", 4)...)), 0
	case "video_seq":
		return msg(6, 9, 1, []byte{0x17, 0, 0, 0, 0, 1, 0x64, 0, 0x20, 0xff, 0xe1, 0, 0}), 0
	case "video_0":
		return msg(6, 9, 1, nil), 0
	case "video_1":
		return msg(6, 9, 1, []byte{0x17}), 0
	case "video_2":
		return msg(6, 9, 1, []byte{0x17, 1}), 0
	case "video_4":
		return msg(6, 9, 1, []byte{0x17, 1, 0, 0}), 0
	case "video_hevc1":
		return msg(6, 9, 1, []byte{0x1c}), 0
	case "video_ext": // enhanced-rtmp header bit
		return msg(6, 9, 1, []byte{0x90, 'h', 'v'}), 0
	case "audio_ok":
		return msg(4, 8, 1, append([]byte{0xaf, 1}, sfBody(20, 0x71)...)), 0
	case "audio_seq":
		return msg(4, 8, 1, []byte{0xaf, 0, 0x12, 0x10}), 0
	case "audio_seq1":
		return msg(4, 8, 1, []byte{0xaf, 0, 0x12}), 0
	case "audio_0":
		return msg(4, 8, 1, nil), 0
	case "audio_1":
		return msg(4, 8, 1, []byte{0xaf}), 0
	// ---- chunk level
	case "chunk_fmt1_first": // type-1 chunk on a chunk stream that never had a type-0
		return []byte{0x40 | 9, 0, 0, 1, 0, 0, 4, 20, 2, 0, 1, 'a'}, 0
	case "chunk_fmt3_first":
		return []byte{0xc0 | 10, 1, 2, 3, 4}, 0
	case "chunk_csid0": // 2-byte basic header
		return append([]byte{0, 10, 0, 0, 0, 0, 0, 4, 3, 0, 0, 0, 0}, be32b(1)...), 0
	case "chunk_csid1": // 3-byte basic header, csid 65599
		return append([]byte{1, 0xff, 0xff, 0, 0, 0, 0, 0, 4, 3, 0, 0, 0, 0}, be32b(1)...), 0
	case "chunk_lenmax": // message length 0xFFFFFF, a few bytes follow
		return SfRtmpChunks(3, 20, 0, 0, []byte{2, 0, 1}, 0xffffff, chunkSize), 0
	case "chunk_tsext":
		return SfRtmpChunks(6, 9, 1, 0xffffffff, []byte{0x17, 1, 0, 0, 0, 0, 0, 0, 1, 0x65}, -1, chunkSize), 0
	case "chunk_len0":
		return SfRtmpChunks(3, 20, 0, 0, nil, 0, chunkSize), 0
	case "chunk_cut": // a chunk header of 5 bytes
		return []byte{3, 0, 0, 0, 0}, 0
	case "bytes_ff":
		b := make([]byte, 64)
		for i := range b {
			b[i] = 0xff
		}
		return b, 0
	}
	return nil, 0
}

// ---------------------------------------------------------------- RTSP upstream replies

// SfRtspReply renders the reply of class a to a request (method, cseq).  sdp is the DESCRIBE body.
func SfRtspReply(a string, method string, cseq string, sdp string) []byte {
	hdr := func(status string, lines ...string) string {
		s := "RTSP/1.0 " + status + "\r\n"
		if cseq != "" {
			s += "CSeq: " + cseq + "\r\n"
		}
		for _, l := range lines {
			s += l + "\r\n"
		}
		return s
	}
	okFor := func(public string, transportTcp bool) []byte {
		switch method {
		case "OPTIONS":
			return []byte(hdr("200 OK", "Public: "+public) + "\r\n")
		case "DESCRIBE":
			return []byte(hdr("200 OK", "Content-Base: rtsp://127.0.0.1/live/x/", "Content-Type: application/sdp", fmt.Sprintf("Content-Length: %d", len(sdp))) + "\r\n" + sdp)
		case "SETUP":
			if transportTcp {
				return []byte(hdr("200 OK", "Transport: RTP/AVP/TCP;unicast;interleaved=0-1", "Session: 12345678;timeout=60") + "\r\n")
			}
			return []byte(hdr("200 OK", "Transport: RTP/AVP/UDP;unicast;client_port=30000-30001;server_port=40000-40001", "Session: 12345678;timeout=60") + "\r\n")
		}
		return []byte(hdr("200 OK", "Session: 12345678") + "\r\n")
	}
	frame := func(ch byte, n int, have int) []byte {
		b := []byte{'$', ch, byte(n >> 8), byte(n)}
		return append(b, make([]byte, have)...)
	}
	switch a {
	case "ok":
		return okFor("OPTIONS, DESCRIBE, SETUP, TEARDOWN, PLAY, PAUSE", true)
	case "ok_gp": // GET_PARAMETER announced: the client starts its keep-alive loop
		return okFor("OPTIONS, DESCRIBE, SETUP, TEARDOWN, PLAY, GET_PARAMETER", true)
	case "ok_udp":
		return okFor("OPTIONS, DESCRIBE, SETUP, PLAY", false)
	case "s461":
		return []byte(hdr("461 Unsupported Transport") + "\r\n")
	case "s404":
		return []byte(hdr("404 Not Found") + "\r\n")
	case "s500body":
		return []byte(hdr("500 Internal Server Error", "Content-Length: 5") + "\r\nsorry")
	case "s302":
		return []byte(hdr("302 Moved", "Location: rtsp://127.0.0.1:1/x") + "\r\n")
	case "status_garbage":
		return []byte("\x00\xff\xfe\x01\r\n\r\n")
	case "status_nospace":
		return []byte("RTSP/1.0\r\nCSeq: " + cseq + "\r\n\r\n")
	case "status_onlycode":
		return []byte("RTSP/1.0 200\r\nCSeq: " + cseq + "\r\n\r\n")
	case "status_empty":
		return []byte("\r\n\r\n")
	case "status_http":
		return []byte("HTTP/1.1 200 OK\r\nContent-Length: 0\r\n\r\n")
	case "status_codestr":
		return []byte(hdr("abc OK") + "\r\n")
	case "status_long":
		return []byte("RTSP/1.0 200 " + strings.Repeat("K", 70000) + "\r\n\r\n")
	case "nocseq":
		return []byte("RTSP/1.0 200 OK\r\nSession: 1\r\n\r\n")
	case "hdr_nocolon":
		return []byte(hdr("200 OK", "nocolonhere", "Public") + "\r\n")
	case "hdr_dup":
		return []byte(hdr("200 OK", "Session: a", "Session: b;x", "Transport: a", "Transport: b") + "\r\n")
	case "a401_nochal":
		return []byte(hdr("401 Unauthorized") + "\r\n")
	case "a401_basic":
		return []byte(hdr("401 Unauthorized", `WWW-Authenticate: Basic realm="r"`) + "\r\n")
	case "a401_digest":
		return []byte(hdr("401 Unauthorized", `WWW-Authenticate: Digest realm="r", nonce="0123456789abcdef", algorithm="MD5"`) + "\r\n")
	case "a401_both":
		return []byte(hdr("401 Unauthorized", `WWW-Authenticate: Digest realm="r", nonce="n"`, `WWW-Authenticate: Basic realm="r"`) + "\r\n")
	case "a401_norealm":
		return []byte(hdr("401 Unauthorized", `WWW-Authenticate: Digest nonce=`) + "\r\n")
	case "a401_openquote":
		return []byte(hdr("401 Unauthorized", `WWW-Authenticate: Digest realm="r, nonce="`) + "\r\n")
	case "a401_empty":
		return []byte(hdr("401 Unauthorized", `WWW-Authenticate: `) + "\r\n")
	case "a401_schemeonly":
		return []byte(hdr("401 Unauthorized", `WWW-Authenticate: Digest`) + "\r\n")
	case "a401_unknown":
		return []byte(hdr("401 Unauthorized", `WWW-Authenticate: Negotiate abc==`) + "\r\n")
	case "a401_sha":
		return []byte(hdr("401 Unauthorized", `WWW-Authenticate: Digest realm="r", nonce="n", algorithm="SHA-256", qop="auth", stale=TRUE`) + "\r\n")
	case "a401_long":
		return []byte(hdr("401 Unauthorized", `WWW-Authenticate: Digest realm="`+strings.Repeat("r", 20000)+`", nonce="n"`) + "\r\n")
	case "cl_short": // Content-Length smaller than the body
		return []byte(hdr("200 OK", "Content-Type: application/sdp", "Content-Length: 10") + "\r\n" + sdp)
	case "cl_long": // larger: the client waits for more (the stub ends the stream)
		return []byte(hdr("200 OK", "Content-Type: application/sdp", fmt.Sprintf("Content-Length: %d", len(sdp)+500)) + "\r\n" + sdp)
	case "cl_neg":
		return []byte(hdr("200 OK", "Content-Length: -1") + "\r\n")
	case "cl_huge":
		return []byte(hdr("200 OK", "Content-Length: 99999999999999999999") + "\r\n")
	case "cl_2e62":
		return []byte(hdr("200 OK", "Content-Length: 4611686018427387904") + "\r\n")
	case "cl_nan":
		return []byte(hdr("200 OK", "Content-Length: 1x") + "\r\n")
	case "cl_none_body": // a body without Content-Length
		return []byte(hdr("200 OK", "Content-Type: application/sdp") + "\r\n" + sdp)
	case "t_none": // 200 without Transport / Session
		return []byte(hdr("200 OK") + "\r\n")
	case "t_garbage":
		return []byte(hdr("200 OK", "Transport: ;;;=;server_port=", "Session: ;") + "\r\n")
	case "t_noports":
		return []byte(hdr("200 OK", "Transport: RTP/AVP;unicast", "Session: 1") + "\r\n")
	case "t_port_garbage":
		return []byte(hdr("200 OK", "Transport: RTP/AVP;unicast;server_port=a-b", "Session: 1") + "\r\n")
	case "t_port_one":
		return []byte(hdr("200 OK", "Transport: RTP/AVP;unicast;server_port=40000", "Session: 1") + "\r\n")
	case "t_port_big":
		return []byte(hdr("200 OK", "Transport: RTP/AVP;unicast;server_port=70000-99999999999", "Session: 1") + "\r\n")
	case "t_port_0":
		return []byte(hdr("200 OK", "Transport: RTP/AVP;unicast;server_port=0-0", "Session: 1") + "\r\n")
	case "t_il_garbage":
		return []byte(hdr("200 OK", "Transport: RTP/AVP/TCP;unicast;interleaved=x-", "Session: 1") + "\r\n")
	case "sess_empty":
		return []byte(hdr("200 OK", "Transport: RTP/AVP/TCP;unicast;interleaved=0-1", "Session: ") + "\r\n")
	case "sess_long":
		return []byte(hdr("200 OK", "Transport: RTP/AVP/TCP;unicast;interleaved=0-1", "Session: "+strings.Repeat("s", 20000)) + "\r\n")
	case "il_before": // interleaved data ahead of the reply
		return append(frame(0, 12, 12), okFor("OPTIONS, DESCRIBE, SETUP, PLAY", true)...)
	case "il_only":
		return frame(0, 4, 4)
	case "il_short": // frame announcing more than follows
		return frame(0, 0xffff, 3)
	case "il_hdr1":
		return []byte{'$'}
	case "il_len0":
		return append(frame(0, 0, 0), frame(1, 0, 0)...)
	case "il_ch255":
		return frame(255, 1, 1)
	case "il_rtcp1":
		return frame(1, 1, 1)
	case "il_rtp_small":
		return frame(0, 3, 3)
	case "il_media": // well-formed media of both tracks, an SR, and padding extremes
		var b []byte
		add := func(ch byte, dg []byte) {
			b = append(b, '$', ch, byte(len(dg)>>8), byte(len(dg)))
			b = append(b, dg...)
		}
		add(0, SfRtpDatagram("ok", 0, false, 96, 1, 0, 1, SfPayload("avc", "stapOk")))
		add(0, SfRtpDatagram("ok", 0, true, 96, 2, 0, 1, SfPayload("avc", "single")))
		add(2, SfRtpDatagram("ok", 0, true, 97, 1, 0, 2, SfPayload("aac", "au2")))
		add(1, SfRtcp("sr", -1, 1))
		add(3, SfRtcp("sr", 7, 2))
		add(0, SfRtpDatagram("pad255", 0, true, 96, 3, 3000, 1, SfPayload("avc", "single")))
		add(0, SfRtpDatagram("ok", 0, true, 96, 4, 3000, 1, SfPayload("avc", "fu1")))
		add(2, SfRtpDatagram("ok", 0, true, 97, 2, 1024, 2, SfPayload("aac", "pl1")))
		return b
	case "two": // two replies at once
		return append(okFor("OPTIONS", true), okFor("OPTIONS", true)...)
	case "half": // half a reply, then the stream ends
		b := okFor("OPTIONS, DESCRIBE", true)
		return b[:len(b)/2]
	case "bytes":
		return []byte{0xff, 0x00, 0x24, 0x24, 0x0d, 0x0a}
	}
	return nil
}

// ---------------------------------------------------------------- HTTP-FLV upstream elements

func SfFlvUpstream(k, a string, n int, self string) []byte {
	switch k {
	case "st": // status line + headers
		switch a {
		case "ok":
			return []byte("HTTP/1.1 200 OK\r\nContent-Type: video/x-flv\r\nConnection: close\r\n\r\n")
		case "ok10":
			return []byte("HTTP/1.0 200 OK\r\n\r\n")
		case "chunked":
			return []byte("HTTP/1.1 200 OK\r\nTransfer-Encoding: chunked\r\n\r\n")
		case "cl0":
			return []byte("HTTP/1.1 200 OK\r\nContent-Length: 0\r\n\r\n")
		case "s404":
			return []byte("HTTP/1.1 404 Not Found\r\nContent-Length: 9\r\n\r\nnot found")
		case "s500":
			return []byte("HTTP/1.1 500 x\r\n\r\n")
		case "s302_self":
			return []byte("HTTP/1.1 302 Found\r\nLocation: " + self + "\r\n\r\n")
		case "s302_noloc":
			return []byte("HTTP/1.1 302 Found\r\n\r\n")
		case "s302_bad":
			return []byte("HTTP/1.1 302 Found\r\nLocation: ::%%\r\n\r\n")
		case "s302_rel":
			return []byte("HTTP/1.1 301 Moved\r\nLocation: /other.flv\r\n\r\n")
		case "s302_https":
			return []byte("HTTP/1.1 302 Found\r\nLocation: https://127.0.0.1:1/x.flv\r\n\r\n")
		case "s302_rtmp":
			return []byte("HTTP/1.1 302 Found\r\nLocation: rtmp://127.0.0.1:1/live/x\r\n\r\n")
		case "s302_empty":
			return []byte("HTTP/1.1 302 Found\r\nLocation: \r\n\r\n")
		case "garbage":
			return []byte("\x00\x01\xff\xfe\r\n\r\n")
		case "empty":
			return []byte("\r\n\r\n")
		case "nospace":
			return []byte("HTTP/1.1\r\n\r\n")
		case "onlycode":
			return []byte("HTTP/1.1 200\r\n\r\n")
		case "nocolon":
			return []byte("HTTP/1.1 200 OK\r\nnocolon\r\n\r\n")
		case "longline":
			return []byte("HTTP/1.1 200 " + strings.Repeat("K", 70000) + "\r\n\r\n")
		case "manyhdr":
			s := "HTTP/1.1 200 OK\r\n"
			for i := 0; i < 3000; i++ {
				s += fmt.Sprintf("X-%d: v\r\n", i)
			}
			return []byte(s + "\r\n")
		case "cut": // the first n bytes of a good status block
			b := []byte("HTTP/1.1 200 OK\r\nContent-Type: video/x-flv\r\n\r\n")
			if n < len(b) {
				b = b[:n]
			}
			return b
		case "rtmp": // the upstream speaks another protocol
			return make([]byte, 1537)
		}
	case "fh": // FLV header (9 bytes + PreviousTagSize0)
		b := SfFlvHeader()
		switch a {
		case "ok":
			return b
		case "cut":
			if n < len(b) {
				b = b[:n]
			}
			return b
		case "garbage":
			return []byte("NOTFLVATALL!!")
		case "v9":
			b[3] = 9
			return b
		case "offs": // DataOffset 0xFFFFFFFF
			b[5], b[6], b[7], b[8] = 0xff, 0xff, 0xff, 0xff
			return b
		case "noflags":
			b[4] = 0
			return b
		}
	case "tag":
		switch a {
		case "meta":
			return SfFlvTag(18, -1, 0, append(sfAmfStr("onMetaData"), sfAmfObj("width", float64(640))...))
		case "vseq":
			return SfFlvTag(9, -1, 0, append([]byte{0x17, 0, 0, 0, 0, 1, 0x64, 0, 0x20, 0xff, 0xe1, 0, byte(len(SfSps))}, append(append([]byte{}, SfSps...), append([]byte{1, 0, byte(len(SfPps))}, SfPps...)...)...))
		case "video":
			return SfFlvTag(9, -1, 40, append([]byte{0x17, 1, 0, 0, 0, 0, 0, 0, 5}, SfNal("avc", "idr", 4)...))
		case "audio":
			return SfFlvTag(8, -1, 23, append([]byte{0xaf, 1}, sfBody(20, 0x71)...))
		case "size0":
			return SfFlvTag(9, -1, 0, nil)
		case "size1":
			return SfFlvTag(9, -1, 0, []byte{0x17})
		case "asize1":
			return SfFlvTag(8, -1, 0, []byte{0xaf})
		case "msize1":
			return SfFlvTag(18, -1, 0, []byte{2})
		case "declmax": // DataSize 0xFFFFFF, a few bytes follow
			return SfFlvTag(9, 0xffffff, 0, []byte{0x17, 1, 0, 0, 0})
		case "declbig":
			return SfFlvTag(9, 70000, 0, []byte{0x17, 1, 0, 0, 0})
		case "type0":
			return SfFlvTag(0, -1, 0, []byte{1, 2, 3})
		case "type255":
			return SfFlvTag(255, -1, 0, []byte{1, 2, 3})
		case "tsmax":
			return SfFlvTag(9, -1, 0xffffffff, append([]byte{0x17, 1, 0, 0, 0, 0, 0, 0, 5}, SfNal("avc", "idr", 4)...))
		case "prevbad": // PreviousTagSize that does not match
			b := SfFlvTag(8, -1, 0, append([]byte{0xaf, 1}, sfBody(20, 0x71)...))
			b[len(b)-1] ^= 0xff
			return b
		case "cut": // the first n bytes of a video tag
			b := SfFlvTag(9, -1, 40, append([]byte{0x17, 1, 0, 0, 0, 0, 0, 0, 5}, SfNal("avc", "idr", 4)...))
			if n < len(b) {
				b = b[:n]
			}
			return b
		case "chunkhdr": // chunked-encoding framing in front of a tag
			t := SfFlvTag(8, -1, 0, append([]byte{0xaf, 1}, sfBody(20, 0x71)...))
			return append([]byte(fmt.Sprintf("%x\r\n", len(t))), append(t, '\r', '\n')...)
		case "ff":
			b := make([]byte, 40)
			for i := range b {
				b[i] = 0xff
			}
			return b
		}
	}
	return nil
}

package proj

import "encoding/binary"

// RtmpMsgP is an RTMP message reassembled from a chunk stream by the independent reader.
type RtmpMsgP struct {
	Csid    int
	Type    int
	Msid    int
	Ts      uint32
	Payload []byte
}

// ReadRtmpMessages reassembles complete messages from a chunk byte stream (RTMP spec 5.3):
// per chunk stream header memory, fmt 0 absolute timestamps, fmt 1/2 deltas, fmt 3 repeating
// the last delta for a new message, extended timestamps, Set Chunk Size.  leftover = bytes of an
// incomplete trailing chunk/message (not an error: the writer may be mid-message).
func ReadRtmpMessages(b []byte, chunkSize int) (msgs []RtmpMsgP, incomplete bool) {
	type st struct {
		ts, delta uint32
		len, typ  int
		msid      int
		buf       []byte
		abs       bool
	}
	ss := map[int]*st{}
	chunks, left := SplitChunks(b, chunkSize)
	incomplete = left != 0
	for _, c := range chunks {
		if c.Short {
			incomplete = true
			break
		}
		s := ss[c.Csid]
		if s == nil {
			s = &st{}
			ss[c.Csid] = s
		}
		first := len(s.buf) == 0 && c.Off == 0
		switch c.Fmt {
		case 0:
			v := FromLimbs(c.Tsf[:])
			if c.Ext {
				v = FromLimbs(c.ExtVal[:])
			}
			s.ts, s.delta, s.abs = v, v, true
			s.len, s.typ, s.msid = c.Len, c.Type, c.Msid
		case 1, 2:
			v := FromLimbs(c.Tsf[:])
			if c.Ext {
				v = FromLimbs(c.ExtVal[:])
			}
			s.delta, s.abs = v, false
			s.ts += v
			if c.Fmt == 1 {
				s.len, s.typ = c.Len, c.Type
			}
		case 3:
			if first && !s.abs {
				s.ts += s.delta
			} else if first && s.abs {
				// fmt 3 directly after a fmt 0 message: delta = that timestamp (spec 5.3.1.2.4)
				s.ts += s.delta
			}
		}
		if first {
			s.abs = c.Fmt == 0
		}
		s.buf = append(s.buf, c.Payload...)
		if len(s.buf) >= s.len {
			msgs = append(msgs, RtmpMsgP{Csid: c.Csid, Type: s.typ, Msid: s.msid, Ts: s.ts, Payload: s.buf})
			s.buf = nil
		}
	}
	for _, s := range ss {
		if len(s.buf) != 0 {
			incomplete = true
		}
	}
	return
}

var _ = binary.BigEndian

package proj

// Independent MPEG-2 Program Stream writer (ISO/IEC 13818-1 2.5: pack header, system header,
// program stream map, PES packets) and the plan-driven RTP packetiser used by the ingest driver
// (C07): single NAL unit / STAP-A / AP / FU-A / FU packets (RFC 6184, RFC 7798), AAC-hbr access
// units and fragments (RFC 3640) and raw audio, with the fragment count chosen by the plan, and
// the slicing of a PS pack over RTP packets.  Shares no code with lal.

// PsPackHeader writes a pack_header with the given system clock reference base, a fixed
// program_mux_rate and `stuff` stuffing bytes (0..7).
func PsPackHeader(scr uint64, stuff int) []byte {
	b := []byte{0, 0, 1, 0xba}
	ext := uint64(0)
	v := make([]byte, 6)
	v[0] = 0x40 | byte((scr>>30)&7)<<3 | 0x04 | byte((scr>>28)&3)
	v[1] = byte(scr >> 20)
	v[2] = byte((scr>>15)&0x1f)<<3 | 0x04 | byte((scr>>13)&3)
	v[3] = byte(scr >> 5)
	v[4] = byte(scr&0x1f)<<3 | 0x04 | byte((ext>>7)&3)
	v[5] = byte(ext&0x7f)<<1 | 1
	b = append(b, v...)
	mux := uint32(50000)
	b = append(b, byte(mux>>14), byte(mux>>6), byte(mux<<2)|3)
	b = append(b, 0xf8|byte(stuff&7))
	for i := 0; i < stuff&7; i++ {
		b = append(b, 0xff)
	}
	return b
}

// PsSystemHeader writes a system_header announcing one video and, if audio, one audio stream.
func PsSystemHeader(audio bool) []byte {
	body := []byte{0x80 | 0x00, 0xc3, 0x51, 0x04 | 0x01, 0xe1, 0x7f} // rate_bound, audio_bound 1, flags, video_bound 1
	body = append(body, 0xe0, 0xc0|0x20|0x00, 0x80)                  // video: P-STD_buffer_bound_scale 1, size 128
	if audio {
		body = append(body, 0xc0, 0xc0|0x00, 0x08)
	}
	b := []byte{0, 0, 1, 0xbb, byte(len(body) >> 8), byte(len(body))}
	return append(b, body...)
}

// PsStreamTypes (GB/T 28181 annex): elementary stream types carried in the program stream map.
var PsStreamTypes = map[string]int{"avc": 0x1b, "hevc": 0x24, "aac": 0x0f, "pcma": 0x90, "pcmu": 0x91}

func psCrc32(b []byte) uint32 {
	crc := uint32(0xffffffff)
	for _, x := range b {
		crc ^= uint32(x) << 24
		for i := 0; i < 8; i++ {
			if crc&0x80000000 != 0 {
				crc = crc<<1 ^ 0x04c11db7
			} else {
				crc <<= 1
			}
		}
	}
	return crc
}

// PsMap writes a program_stream_map for the given codecs ("" = absent).
func PsMap(vcodec, acodec string) []byte {
	var es []byte
	if vcodec != "" {
		es = append(es, byte(PsStreamTypes[vcodec]), 0xe0, 0, 0)
	}
	if acodec != "" {
		es = append(es, byte(PsStreamTypes[acodec]), 0xc0, 0, 0)
	}
	body := []byte{0xe0 | 0x01, 0xff, 0, 0, byte(len(es) >> 8), byte(len(es))}
	body = append(body, es...)
	n := len(body) + 4
	b := []byte{0, 0, 1, 0xbc, byte(n >> 8), byte(n)}
	b = append(b, body...)
	c := psCrc32(b)
	return append(b, byte(c>>24), byte(c>>16), byte(c>>8), byte(c))
}

func psTs(prefix byte, v uint64) []byte {
	return []byte{prefix<<4 | byte((v>>30)&7)<<1 | 1, byte(v >> 22), byte((v>>15)&0x7f)<<1 | 1, byte(v >> 7), byte(v&0x7f)<<1 | 1}
}

// PsPes writes one PES packet; pts < 0 = no PTS field.  len(payload) must be <= PsPesMax(pts >= 0).
func PsPes(streamId byte, pts int64, payload []byte) []byte {
	var hd []byte
	flags := byte(0)
	if pts >= 0 {
		hd = psTs(2, uint64(pts))
		flags = 0x80
	}
	n := 3 + len(hd) + len(payload)
	b := []byte{0, 0, 1, streamId, byte(n >> 8), byte(n), 0x80, flags, byte(len(hd))}
	b = append(b, hd...)
	return append(b, payload...)
}

// PsPesPd writes one PES packet with a PTS and, if dts >= 0, a DTS field (PTS_DTS_flags '11',
// prefixes '0011' / '0001'); both are 33-bit values.  The payload must leave room for the 10-byte
// header data (5 bytes less than PsPesMax(true) with a DTS).
func PsPesPd(streamId byte, pts, dts int64, payload []byte) []byte {
	if dts < 0 {
		return PsPes(streamId, pts, payload)
	}
	hd := append(psTs(3, uint64(pts)), psTs(1, uint64(dts))...)
	n := 3 + len(hd) + len(payload)
	b := []byte{0, 0, 1, streamId, byte(n >> 8), byte(n), 0x80, 0xc0, byte(len(hd))}
	b = append(b, hd...)
	return append(b, payload...)
}

// PsPesMax is the largest payload of one PES packet (PES_packet_length = 0xFFFF).
func PsPesMax(withPts bool) int {
	if withPts {
		return 0xffff - 3 - 5
	}
	return 0xffff - 3
}

// EvenCut splits b into k consecutive parts whose lengths differ by at most one.
func EvenCut(b []byte, k int) [][]byte {
	if k < 1 {
		k = 1
	}
	if k > len(b) && len(b) > 0 {
		k = len(b)
	}
	out := make([][]byte, 0, k)
	pos := 0
	for i := 0; i < k; i++ {
		n := len(b) / k
		if i < len(b)%k {
			n++
		}
		out = append(out, b[pos:pos+n])
		pos += n
	}
	return out
}

// RtpWrap puts payload behind a 12-byte RTP header.
func RtpWrap(marker bool, pt int, seq int, ts uint32, ssrc uint32, payload []byte) []byte {
	return append(rtpHeader(marker, pt, uint16(seq), ts, ssrc), payload...)
}

// ---------------------------------------------------------------------------------------------
// Plan-driven RTP payloads.  codec: avc | hevc | aac | other (raw).

// RtpAggregate builds one STAP-A (avc) / AP (hevc) payload from whole NAL units.
func RtpAggregate(codec string, units [][]byte) []byte {
	var b []byte
	if codec == "avc" {
		nri := byte(0)
		for _, u := range units {
			if u[0]&0x60 > nri {
				nri = u[0] & 0x60
			}
		}
		b = []byte{nri | 24}
	} else {
		b = []byte{48 << 1, 1}
	}
	for _, u := range units {
		b = append(b, byte(len(u)>>8), byte(len(u)))
		b = append(b, u...)
	}
	return b
}

// RtpFragments cuts one unit into exactly m (>= 2) FU-A / FU payloads (video) or RFC 3640
// fragments (aac), fragment sizes as even as possible.
func RtpFragments(codec string, unit []byte, m int) [][]byte {
	var out [][]byte
	switch codec {
	case "avc":
		for i, part := range EvenCut(unit[1:], m) {
			h := []byte{unit[0]&0xe0 | 28, unit[0] & 0x1f}
			if i == 0 {
				h[1] |= 0x80
			}
			if i == m-1 {
				h[1] |= 0x40
			}
			out = append(out, append(h, part...))
		}
	case "hevc":
		for i, part := range EvenCut(unit[2:], m) {
			h := []byte{unit[0]&0x81 | 49<<1, unit[1], (unit[0] >> 1) & 0x3f}
			if i == 0 {
				h[2] |= 0x80
			}
			if i == m-1 {
				h[2] |= 0x40
			}
			out = append(out, append(h, part...))
		}
	case "aac":
		for _, part := range EvenCut(unit, m) {
			out = append(out, append([]byte{0, 16, byte(len(unit) >> 5), byte(len(unit)&31) << 3}, part...))
		}
	}
	return out
}

// RtpWhole is the payload of a unit sent in one packet.
func RtpWhole(codec string, unit []byte) []byte {
	if codec == "aac" {
		return append([]byte{0, 16, byte(len(unit) >> 5), byte(len(unit)&31) << 3}, unit...)
	}
	return append([]byte{}, unit...)
}
